#!/usr/bin/env python3
"""Regenerate /verif/MANIFEST.json from the table below (keeps it valid at all times)."""
import json, subprocess

HOOK_COMMITS = subprocess.check_output(
    ["git", "-C", "/repo", "log", "--format=%h %s", "--grep=^verif hook"], text=True
).strip().splitlines()

# id -> (technique, level text, level note, design ref)
CHECKS = {
 "C02": ("bounded-exhaustive program enumeration; reference least-fixed-point solver compared set-for-set with the implementation, plus per-execution live-range checking with an activation monitor",
         "Every control-flow and sequence kernel program (same families as C01/C03): (b) the harness's own worklist solver computes the least solution of the documented liveness equations over the implementation's edges, function table and known-ecall numbers, and live_in/live_out of every node, arguments()/returns() and the set of dead-assignment warnings must equal it exactly; (a) every execution from 8/32 initial states is cut into activations and every register read must find the register live at every node on the path from its defining write (calls, ecalls, returns and function entries reading/clobbering what the convention says).",
         "Trusted: the transcription of the equations from liveness.rs comments / docs/argument-guess.md, the interpreter and the activation model. (b) is relative to the implementation's edge relation and value facts (checked by C03, C01).",
         "DESIGN.md 3 C02"),
 "C03": ("bounded-exhaustive program enumeration x exhaustive hash-order schedule exploration (deviation-bounded, stateless re-execution through the rva_verif choice points); structural graph invariants by node identity plus per-execution edge conformance",
         "Every control-flow kernel program is analysed under every hash-iteration schedule of the order-sensitive traversals (whole schedule tree when < 64/1024 schedules, else all schedules with <= 1/2 non-canonical choices); every resulting graph is checked by node identity (nexts/prevs inverse, every edge a fall-through / jump to the written label / merged return, exit ecalls cut) and every control transfer of every explored execution (8/32 initial states, 256-step horizon) must be an edge, with no executed node reported unreachable.",
         "Trusted: interpreter; the hook model of hash order (per-set-instance memoized order; complete re-shuffles on table growth not modelled). Programs in which an explored execution falls off the end of the text are outside the quantifier.",
         "DESIGN.md 3 C03"),
 "C09": ("bounded-exhaustive enumeration of statement layouts; oracle = independent locator and token spans known by construction",
         "44 statement kinds (every node constructor, label, directives, malformed statements, statements that draw a specific diagnostic) x 4 positions x 5 indentations x 3 trailing texts x 3 line companies x 3 line endings x {base, included file} = 18360 layouts: every token of the real lexer, every node range, every parse error and every diagnostic of the full pipeline must have (line, column) equal to the harness locator's values for its raw offsets, lie inside the file on one line, and designate exactly the token(s) the layout generator placed there (register operand, label, or mnemonic through last operand).",
         "Trusted: locator and the mini-scanner for the 44 statement texts. Zero-based line/column and inclusive end offsets (the convention of the repository's own JSON expectations). CLI rendering of the same positions is checked under C18.",
         "DESIGN.md 3 C09"),
 "C10": ("exhaustive hash-order schedule exploration (deviation-bounded, stateless re-execution through the rva_verif choice points) x all file-UUID orders; fresh-seed replays and repeated real-binary runs as secondary net",
         "35 order-stress programs built from the anchors (several undefined labels, equally near candidate operands, multi-label entries, 2-3 returns, entries with several predecessors, shared tails, 2-3 files with diagnostics in each) plus the program pool: every schedule of the controlled hash-order decisions within the deviation bound (whole tree when small) x every relative order of the file UUIDs must give the same sequence of (code, file, range, title, level, description, related information); no two items of a result are equal; RVParser::run gives the same items; each schedule is replayed twice on freshly parsed input (new random node UUIDs and hash seeds) and the rva binary's --json/--compact/pretty (+-all-files) output is byte-identical across the explored schedules, all file orders and 8/3 runs per mode with true random seeds.",
         "Exhaustive only at the hooked iteration site (H2, DFS successor order) and over file-UUID orders; the sites made deterministic by the C10 fixes lost their choice points (H3-H5), so a regression there is caught only by the fresh-seed replays and random-seed runs (sampling, stated as such).",
         "DESIGN.md 3 C10"),
 "C11": ("bounded-exhaustive enumeration of call-graph/label arrangements x hash-order schedules; function table compared with an oracle computed from the AST and from identity-reachability over the final edges",
         "main calling f1, f2 (f3 from unreachable code) followed by every sequence of length <= 4/6 over an 11-symbol alphabet (function labels, local label, instruction, ret, jumps/branches to local and function labels, nested call) plus fixed programs for utvec handler installation and multi-label entries, each under every schedule within the deviation bound: entry nodes = call targets, Function::nodes() = identity-reachable set, owner lists consistent, one exit which is a return, other returns merged into it, sharing reported exactly when it exists.",
         "Trusted: the AST-level notion of call target; reachability uses the implementation's edges (C03).",
         "DESIGN.md 3 C11"),
 "C12": ("explicit-state model checking (stateright BFS) of the pass pipeline as a transition system whose transitions call the real passes; state = canonical dump",
         "Per program, stateright explores breadth-first the transition system {AvailableValuePass::run, EcallTerminationPass::run, LivenessPass::run} over the finished graph to depth 3/5 with the invariant 'every reachable state (canonical dump of edges, six fact maps, function annotations, diagnostics) equals the initial state'; plus: a second analysis of the same program yields the same dump, also under every hash-order schedule with at most one deviation from the canonical order (stateless re-execution under the choice-point hook; full schedule tree when it has <= 24 runs), and every pass run of the standard pipeline needs at most 4*nodes+32 sweeps (hook H6 aborts beyond).",
         "Trusted: the canonical dump covers everything the passes read (states with equal dumps are merged). The pass-sequence exploration runs under the canonical hash-order schedule; other schedules are covered up to one deviation by the second-analysis comparison.",
         "DESIGN.md 3 C12"),
 "C01": ("bounded-exhaustive program enumeration; each program analysed by the real pipeline and executed by a reference RV32IM interpreter with an activation monitor from every initial state; every claim evaluated on every step",
         "Explicit-state exploration of (program, initial state, step): every program of the kernel family (single-transfer: each of ~1650 instructions after every state-setting prefix of length <= 1 quick / <= 2 thorough; all sequences over a 27-symbol alphabet (incl. sub-word stack accesses) up to length 3/4; all control-flow sequences over 12/14 symbols up to length 4/5; 19 loop/diamond/irreducible/recursion/multi-return/exit-ecall/backward-cycle/callee-result-in-tp skeletons; CSR sequences (13 symbols, length <= 4/5) and extreme-stack sequences (8 symbols); each as main program and as called function) is analysed by the real Manager::gen_full_cfg and executed by the harness's interpreter from 8/32 initial states to exit or a 256-step horizon; at every arrival/departure every Constant / Address / entry-value+k claim on registers and stack slots is compared with the machine. The model (interpreter) trace is bound 1:1 to the implementation's CFG nodes.",
         "Trusted: the reference interpreter (two cross-checked ALUs) and the activation monitor that stops checking where an execution leaves the property's supported subset. Programs longer than the bounds, immediates outside the alphabets and the un-named claim kinds (memory-at-register, CSR) are not covered.",
         "DESIGN.md 3 C01"),
 "C04": ("bounded-exhaustive enumeration of convention-conforming programs (by construction, confirmed per member by a dynamic convention monitor); oracle: zero diagnostics",
         "Family S: main plus 1..3 functions over the product of call-graph shapes (chains, fan-out, repeated calls, diamonds, self-recursion) x per-function options (arity 0..2, returns or prints, 6 body skeletons, input ecall, frame slot order, padding, second saved register, frame pointer kept in s10): every member is executed by the reference interpreter under the convention monitor on every environment answer in {-1,0,1,2} x 2 register fills (sp/ra/saved registers restored from the own frame, only defined registers read, nothing caller-saved alive across call/ecall, every computed value read, every instruction executed) and must then draw zero diagnostics from the whole pipeline (parse errors, CFG errors, all eleven lints).",
         "Trusted: generator + monitor (a member the monitor rejects fails the run as a machinery class; members with code no explored input reaches are left out and counted). Conforming idioms outside the grammar (frame pointer, stack-passed arguments, tail calls) are not covered.",
         "DESIGN.md 3 C04"),
 "C05": ("bounded-exhaustive enumeration of (clean base program x violation class x injection site); oracle: expected error code exactly on the offending operand/instruction known by construction, violation confirmed dynamically by the convention monitor",
         "Every 17th (quick) / 2nd (thorough) program of the quick S family x 17 violation classes (saved register / sp / ra not restored, temporary read after a call, register never assigned, dead assignment, write to zero, stack access at or above entry sp, instruction in .data, ecall number from memory, code after an unconditional jump, jump to a function, fall-through into a function, function on the first line, never-assigned register updated in place x2, saved register read before assignment) x up to 10 admissible sites: the injected program must draw a diagnostic of the class's code whose raw range is exactly the offending operand or instruction; for dynamic classes the monitor must first observe the violation on an explored execution.",
         "Trusted: injection sites computed on the harness AST; single injections into clean bases. Accepted designations are listed per class in DESIGN.md (implicit ra -> mnemonic; unbalanced sp -> any sp-writing instruction of the function).",
         "DESIGN.md 3 C05"),
 "C06": ("bounded-exhaustive enumeration of hostile inputs (strings, token sequences, mutations, include graphs x reader fault sequences, scaled repetitions, CLI modes) with crash/hang attribution per case in worker subprocesses",
         "Complete enumeration, in a release and an overflow-checked build, of: all strings over a 20-character alphabet up to length 3/4 through RVParser::run and length 4/5 through lexer+parser; all token sequences up to length 2/3 over 57 tokens; every single-token deletion/duplication/replacement of 17/27 seed programs; all 512 include graphs on 3 files x every reader-answer sequence with <= 1/2 faults; every unit string/token repeated 1000/20000(/200000) times (stack depth, growth) and 14 statement kinds repeated 250/1000(/2000) times through the full pipeline; ~600 on-disk cases (include cycles, missing/unreadable files, wide characters) through every output mode of the dev and release rva binaries. A panic is caught in process; an abort, stack overflow, OOM or hang kills the worker and is attributed to the announced case.",
         "Termination is decided by work bounds (pass sweeps <= 4*nodes+32, <= 64 import requests) and wall watchdogs (10 s CLI, 120 s per case); polynomial time is checked as absolute envelopes at three scales, not proved.",
         "DESIGN.md 3 C06"),
 "C07": ("bounded-exhaustive enumeration of files over a line alphabet; coverage oracle by independent locator, containment oracle differential (file vs file with the bad line deleted)",
         "All files of 1..4 (quick) / 1..5 (thorough) lines over 24 line kinds (10 well-formed incl. a .float list, 14 malformed) x {LF, CRLF} x {final newline, none} x {single file, tail in an included file} go through the real lexer+parser; every line with content must be the line (by raw offset, via the harness's own locator) of a node or of a parse error, well-formed lines draw no error, and for every malformed line the nodes/errors of all other lines equal those of the file with that line deleted.",
         "Trusted: locator; the 24 line kinds are representatives (one statement per line).",
         "DESIGN.md 3 C07"),
 "C08": ("bounded-exhaustive enumeration of the decode table and folding grid against an independent RV32IM reference (explicit-state, model = manual's decode table + ALU)",
         "Complete enumeration of a finite space: every entry of a decode table transcribed from the RISC-V manual (mnemonic x operand form x 7 registers per position x boundary immediates, incl. the absolute-address store `s* rs2, ADDRESS, tmp` over 16 addresses around bit 11; ~13k texts) is parsed by the real parser and compared with the manual's meaning - structurally, or, for pseudo-instructions, by executing both on every pair of a 66-value boundary grid; every foldable mnemonic x every grid pair goes through the real MathOp::operate in a release and an overflow-checked build. Model traces (expected instruction / ALU result) are compared 1:1 with the implementation.",
         "Trusted: the hand-transcribed decode table and the two cross-checked reference ALUs; register/immediate choices are representatives, not all 32^3 combinations.",
         "DESIGN.md 3 C08"),

 "C13": ("bounded-exhaustive enumeration of (program x subset of meaning-preserving rewrites); relational oracle: diagnostic multiset by (code, statement index, operand role) invariant",
         "Program pool (every 293rd / 41st member of the quick S family, clean and with one injected violation of each of 17 classes, plus hand-written programs: a data list continued over lines, two interrupt handlers installed through utvec) x every compatible subset of <= 2 / <= 3 of 13 rewrite kinds (spacing, tabs, commas removed/doubled, comments, blank lines, mnemonic case, xN register names, hex/binary immediates, label placement, omitted zero offset, pseudo-instruction vs expansion), applied at all sites by a styled printer working on the harness AST; the multiset of (error code, statement index, semantic operand role) of the real pipeline's diagnostics must equal the plain rendering's.",
         "Trusted: styled printer and role mapping (implicit registers of pseudo-instructions are identified with the explicit operand of their expansion). Rewrites outside the list (macros, .eqv) are unsupported by the tool.",
         "DESIGN.md 3 C13"),
 "C14": ("bounded-exhaustive enumeration of register-class permutation orbits and label renamings per template; relational (equivariance) oracle",
         "Templates = program pool (every 499th / 97th member of the quick S family, clean and injected): the full orbit of the temporaries a template mentions (all injective assignments of <= 3 slots to t0-t6), the full orbit of its saved registers (<= 3 slots to s0-s11, up to 1320) and label renamings from an 8-identifier pool; the diagnostics of every renamed program, compared by (code, statement index, operand role, register mapped back), must equal the template's.",
         "Trusted: renaming on the harness AST. Canonical hash-order schedule (label hash order is C10's subject).",
         "DESIGN.md 3 C14"),
 "C15": ("bounded-exhaustive enumeration of (program x cut into an include tree x reader fault sequence); differential oracle against the pasted file through a flattener; CLI conformance on materialised trees",
         "17 statement programs (incl. malformed ones) plus the program pool x every cut at up to 5/7 line boundaries into an include tree of <= 3/4 files and depth <= 3: through the in-memory FileReader the diagnostics mapped back to (code, original line, designated text) must equal those of the pasted file and each item must lie inside the file it is attributed to; for every tree every reader-answer sequence with one fault (thorough: two on every 7th tree) must yield exactly one error per refused import on its .include line and leave the rest analysed like the program without the refused file; every 23rd tree is written to disk and the rva binary must show exactly the base file's items plus the right 'other files' counter by default and everything with --all-files.",
         "Trusted: flattener / tree builder. Cyclic and self-inclusion are decided under C06 (termination) - trees cut from a program are acyclic.",
         "DESIGN.md 3 C15"),
 "C16": ("bounded-exhaustive enumeration of programs over a label-structure alphabet; oracle recomputed from the text (defined / undefined / duplicate labels) plus location checks by the locator",
         "All programs of 1..4 (quick) / 1..5 (thorough) lines over 17 symbols (definitions of A and B incl. duplicates, uses of A, B and undefined U, V in j / beq / jal / la, ret, an instruction, an exit, .data / .word / .text): Manager::run must succeed or fail with a specific error that names exactly the undefined labels at one of their uses, or the duplicated label at a later definition, or is otherwise located on text of the file - never a generic unexpected/assertion error, never the nil file; for every 50th failing program the error must be visible in the default output of the rva binary.",
         "Trusted: the harness's textual notion of definition/use. Programs are tiny; beyond the alphabet only four fixed never-returning-function programs are covered. A panic of the analysis counts as a violation (a failure explained nowhere in the user's files).",
         "DESIGN.md 3 C16"),
 "C17": ("bounded-exhaustive enumeration of literal spellings against independent literal semantics",
         "Complete enumeration of a finite family: ~8000 spellings (every boundary value 2^k, 2^k+-1 for k<=33 and bit patterns x decimal/hex/binary notation x sign x letter case x leading zeros, every printable ASCII character literal and escape, malformed spellings) x 4 operand contexts (li, lui, .word, csrr), each through the real lexer+parser and, for li/lui, the resulting Constant fact of the value analysis, in a release and an overflow-checked build; acceptance, value and error location are compared with literal semantics written in the harness.",
         "Trusted: the harness's literal semantics (accept iff well-formed and -2^31 <= v <= 2^32-1; value v mod 2^32; lui 0..2^20-1). Values between the boundary points are not enumerated. Leading-zero decimals, negative lui operands and CSR numbers > 4095 get no verdict.",
         "DESIGN.md 3 C17"),
 "C18": ("bounded-exhaustive enumeration of (program x 16 CLI flag configurations) with format parsers; channel-agreement oracle against the library entry point",
         "The 35 order-stress programs (incl. multi-file), one file per malformed line kind, the analysis-failure programs, tab-indented code and the program pool x all 16 combinations of --json/--compact/--no-color/--all-files of the rva binary plus RVParser::run: parsers for the compact line grammar, the pretty block grammar and the JSON shape extract (severity, title, file, line, columns); for equal file selection all channels must agree with the library; JSON must have exactly the documented keys and consistent raw offsets; titles non-empty; severity fixed per code; items sorted within a file; no escape sequences under --no-color; correct 'other files' counter; every pretty excerpt shows the item's line with the marker under the reported columns and of the reported length (padding in front of the marker repeats the tabs of the line above, so the screen column is the same for every tab width).",
         "Trusted: the three format parsers. JSON is compared with the all-files selection (it has no base-only selection). File-UUID order independence of the same outputs is decided under C10.",
         "DESIGN.md 3 C18"),
 "C19": ("bounded-exhaustive enumeration of dump values (all variants x boundary parameters, all pairs for injectivity) and of kernel-program dumps with single-fact perturbations",
         "(a) ~950 values - every AvailableValue variant x {0, 1, -1, 5, MIN, MAX} x registers/labels/CSR numbers, every MemoryLocation variant x boundary offsets incl. i32::MIN, every register set of <= 2 registers and the full set - each in a one-node dump: dump -> load -> dump is a textual fixed point, the loaded structure equals the written one field by field (through NodeWrapper's public fields, hook H7), and no two different values share a dump (all pairs); (b) the dump of every 41st/31st kernel program: same round trip, every single-fact perturbation of the analysis result (a live-in/out bit, a register fact, a stack fact, an edge, at every node) must change the dump, and the --yaml output of the rva binary must load to the same structure; release and overflow-checked builds.",
         "Trusted: serde_yaml. Function-annotation perturbations are not possible through the public API and are covered only by the round trip.",
         "DESIGN.md 3 C19"),
}

ALL = ["C%02d" % i for i in range(1, 20)]
PENDING_REASON = "check not built yet in this round (design in DESIGN.md section 3); not claimed until it runs clean"

def main():
    checks = []
    for pid in ALL:
        if pid not in CHECKS:
            continue
        tech, text, note, ref = CHECKS[pid]
        checks.append({
            "property_id": pid,
            "quick_cmd": f"./check {pid} quick",
            "thorough_cmd": f"./check {pid} thorough",
            "evidence_file": f"/verif/evidence/{pid}.json",
            "replay_cmd_template": f"./check {pid} --replay {{path}}",
            "engine": "rvmc",
            "level_claimed": {"category": "model_checking", "text": text, "design_ref": ref},
            "level_note": note,
            "technique": tech,
        })
    manifest = {
        "version": 1,
        "setup_cmd": "ln -sfn /repo /verif/harness/repo-link && cd /verif/harness && CARGO_NET_OFFLINE=true cargo build --release --offline && CARGO_NET_OFFLINE=true cargo build --profile checked --offline && CARGO_NET_OFFLINE=true cargo build --manifest-path /repo/Cargo.toml -p riscv_analysis_cli --features rva_verif --release --offline --target-dir /verif/harness/target-repo && CARGO_NET_OFFLINE=true cargo build --manifest-path /repo/Cargo.toml -p riscv_analysis_cli --features rva_verif --offline --target-dir /verif/harness/target-repo",
        "hooks": {
            "guard": "cargo feature rva_verif (riscv_analysis; forwarded by riscv_analysis_cli/rva_verif)",
            "enable": "the harness depends on /repo/riscv_analysis by path with features=[\"rva_verif\"]; the rva binary is built with --features rva_verif into /verif/harness/target-repo",
            "baseline_off_cmd": "cd /repo && cargo test --workspace --no-fail-fast --offline",
            "source_commits": [c.split()[0] for c in HOOK_COMMITS],
            "add_only": True,
        },
        "engines": [
            {"name": "rvmc", "path": "/verif/harness/rvmc", "serves_properties": sorted(CHECKS),
             "kind_free_text": "Rust harness linking the real crates: index-addressable bounded-exhaustive enumerators, hash-order schedule explorer over the rva_verif hooks, stateright BFS over pass histories, reference models (RV32IM interpreter with convention monitor, liveness LFP solver, locator, decode table), worker subprocesses with crash/hang attribution"},
        ],
        "checks": checks,
        "not_applicable": [{"property_id": p, "reason": PENDING_REASON} for p in ALL if p not in CHECKS],
        "notes": "Every check exits 0/1/2 (held / VIOLATION / machinery failure), prints KNOWN-FINDING lines for classes listed in known_findings.json, and rewrites its evidence file. See DESIGN.md.",
    }
    json.dump(manifest, open("/verif/MANIFEST.json", "w"), indent=1)
    print("MANIFEST.json: %d checks, %d not_applicable" % (len(checks), len(manifest["not_applicable"])))

main()
