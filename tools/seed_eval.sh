#!/bin/bash
# tools/seed_eval.sh <ID> [check ids...]  — confirm a seeded change and run checks against it.
# 1. in the sub-agent's scratch worktree /tmp/wt-<ID>: tests pass with the change, the
#    demonstration fails with it and passes without it;
# 2. apply the patch to /repo, run the given checks (default: the property's own), undo.
# ROUND=2 tools/seed_eval.sh <ID> ...  uses /tmp/wt2-<ID>, /tmp/seed2-<ID> and seeded/<ID>b
ID="$1"; shift
CHECKS="${@:-$ID}"
R="${ROUND:-}"; SUF=""; [ "$R" = "2" ] && SUF="b"; [ "$R" = "3" ] && SUF="c"
WT="${WT:-/tmp/wt$R-$ID}"; SEED=/tmp/seed$R-$ID; export WT
OUT=/verif/seeded/$ID$SUF
mkdir -p "$OUT"
cp "$SEED/patch.diff" "$OUT/patch.diff" 2>/dev/null || git -C "$WT" diff > "$OUT/patch.diff"
rm -rf "$OUT/demo"; cp -r "$SEED/demo" "$OUT/demo" 2>/dev/null
cp "$SEED/notes.md" "$OUT/notes.md" 2>/dev/null
echo "== tests with the change"
( cd "$WT" && cargo test --workspace --offline 2>&1 | grep -E "test result|FAILED" | awk '{p+=$4; f+=$6} END {print "passed="p" failed="f}' )
( cd "$WT" && git checkout -q -- . && git apply "$OUT/patch.diff" && cargo build --workspace --offline -q 2>/dev/null )
echo "== demo with the change (expect non-zero)"
( cd "$SEED/demo" && timeout 300 bash ./run.sh >/tmp/seed$R-$ID-with.log 2>&1; echo "exit=$?" )
# (no `git stash`: the stash is shared by all worktrees of a repository)
( cd "$WT" && git checkout -q -- . && cargo build --workspace --offline -q 2>/dev/null )
echo "== demo without the change (expect zero)"
( cd "$SEED/demo" && timeout 300 bash ./run.sh >/tmp/seed$R-$ID-without.log 2>&1; echo "exit=$?" )
( cd "$WT" && git apply "$OUT/patch.diff" && cargo build --workspace --offline -q 2>/dev/null )
echo "== checks against the change (evidence files of the unchanged tree are put back afterwards)"
SAVED=$(mktemp -d); cp -r /verif/evidence/. "$SAVED"/
cd /repo && git apply "$OUT/patch.diff" || { echo "PATCH DOES NOT APPLY"; exit 3; }
for c in $CHECKS; do
  ( cd /verif && ./check $c quick 2>&1 | grep -E "VIOLATION|class=|MACHINERY|^$c quick" | head -8 )
done
git -C /repo checkout -- . ; git -C /repo status --short | head -3
cp -r "$SAVED"/. /verif/evidence/; rm -rf "$SAVED"
