//! C11 — functions are exactly the call targets and their bodies are what
//! they reach.

use riscv_analysis::passes::DiagnosticLocation as _;
use crate::c03::{has_next, index_map, is_rewritten_return, node_desc, ptr};
use crate::driver::*;
use crate::gen::*;
use crate::imp;
use crate::model::*;
use crate::sched;
use riscv_analysis::cfg::{Cfg, CfgNode, Function};
use riscv_analysis::parser::InstructionProperties;
use serde_json::{json, Value};
use std::collections::{BTreeSet, HashSet};
use std::rc::Rc;

pub struct C11 {
    alpha: Vec<Snippet>,
    quick: SeqSpace,
    thorough: SeqSpace,
    fixed: Vec<(Program, Vec<String>)>,
}

fn alphabet() -> Vec<Snippet> {
    vec![
        vec![label("f1")],
        vec![label("f2")],
        vec![label("L1")],
        vec![addi(A0, A0, 1)],
        vec![ret()],
        vec![j("L1")],
        vec![inst(Inst::Branch(BOp::Beq, A0, ZERO, "L1".into()))],
        vec![j("f2")],
        vec![call("f2")],
        vec![inst(Inst::Branch(BOp::Bne, A0, A1, "f1".into()))],
        vec![label("f3")],
    ]
}

fn defines(body: &[Stmt], l: &str) -> bool {
    body.iter().any(|s| matches!(s, Stmt::Label(t) if t == l))
}
fn uses(body: &[Stmt], l: &str) -> bool {
    body.iter().any(|s| match s {
        Stmt::Inst(_, Inst::Jal(_, t)) | Stmt::Inst(_, Inst::Branch(_, _, _, t)) => t == l,
        _ => false,
    })
}

/// main calls f1 and f2 (and f3 from unreachable code when it is defined);
/// the body follows; missing labels get default places; the text ends in ret.
fn build(body: Vec<Stmt>) -> (Program, Vec<String>) {
    let mut s = vec![label("main"), call("f1"), call("f2"), li(A7, 10), ecall()];
    let mut targets = vec!["f1".to_string(), "f2".to_string()];
    if defines(&body, "f3") {
        s.push(call("f3"));
        targets.push("f3".into());
    }
    if !defines(&body, "f1") {
        s.push(label("f1"));
    }
    s.extend(body.iter().cloned());
    if uses(&body, "L1") && !defines(&body, "L1") {
        s.push(label("L1"));
    }
    if !defines(&body, "f2") {
        s.push(label("f2"));
    }
    s.push(addi(A0, A0, 2));
    s.push(ret());
    (Program { stmts: s }, targets)
}

fn fixed_programs() -> Vec<(Program, Vec<String>)> {
    let csrw = |rs: Reg| inst(Inst::Csr(CsrOp::Rw, 0, 5, rs));
    let la = |rd: Reg, l: &str| inst(Inst::La(rd, l.to_string()));
    let mut v = Vec::new();
    // interrupt handler installed through utvec
    v.push((
        Program {
            stmts: vec![
                label("main"),
                la(T0, "handler"),
                csrw(T0),
                li(A7, 10),
                ecall(),
                label("handler"),
                addi(T0, T0, 1),
                pseudo("uret", Inst::Jalr(0, 1, 0)),
            ],
        },
        vec!["handler".to_string()],
    ));
    // handler that is also called
    v.push((
        Program {
            stmts: vec![
                label("main"),
                la(T0, "handler"),
                csrw(T0),
                call("handler"),
                li(A7, 10),
                ecall(),
                label("handler"),
                addi(T0, T0, 1),
                ret(),
            ],
        },
        vec!["handler".to_string()],
    ));
    // address written to another CSR: not a function
    v.push((
        Program {
            stmts: vec![
                label("main"),
                la(T0, "h2"),
                inst(Inst::Csr(CsrOp::Rw, 0, 64, T0)),
                call("f"),
                li(A7, 10),
                ecall(),
                label("f"),
                label("h2"),
                addi(T0, T0, 1),
                ret(),
            ],
        },
        vec!["f".to_string()],
    ));
    // an exit ecall that is only recognised after another exit's fall-through has been cut,
    // with another function behind it
    v.push((
        Program {
            stmts: vec![
                label("main"),
                li(A0, 0),
                li(A1, 0),
                call("f"),
                call("g"),
                li(A7, 10),
                ecall(),
                label("f"),
                inst(Inst::Branch(BOp::Bne, A0, ZERO, "die".into())),
                addi(A0, A0, 1),
                ret(),
                label("die"),
                li(A7, 10),
                inst(Inst::Branch(BOp::Bne, A1, ZERO, "fin".into())),
                li(A0, 1),
                li(A7, 93),
                ecall(),
                label("fin"),
                ecall(),
                label("g"),
                addi(A0, A0, 1),
                ret(),
            ],
        },
        vec!["f".to_string(), "g".to_string()],
    ));
    // the same inside one function: the code behind the late exit belongs to nobody
    v.push((
        Program {
            stmts: vec![
                label("main"),
                call("f"),
                li(A7, 10),
                ecall(),
                label("f"),
                li(A7, 10),
                inst(Inst::Branch(BOp::Beq, A0, ZERO, "second".into())),
                li(A7, 93),
                ecall(),
                label("second"),
                ecall(),
                addi(A0, A0, 1),
                ret(),
            ],
        },
        vec!["f".to_string()],
    ));
    // a call to a label that heads no instruction (end of the file / only data behind it)
    v.push((
        Program {
            stmts: vec![label("main"), call("f"), li(A7, 10), ecall(), label("g"), ret(), label("f")],
        },
        vec!["f".to_string()],
    ));
    v.push((
        Program {
            stmts: vec![
                label("main"),
                call("f"),
                li(A7, 10),
                ecall(),
                label("f"),
                Stmt::Directive(".data".into()),
                Stmt::Directive(".word 1".into()),
            ],
        },
        vec!["f".to_string()],
    ));
    // a data label in front of a function (called / not called)
    v.push((
        Program {
            stmts: vec![
                label("main"),
                call("f"),
                li(A7, 10),
                ecall(),
                Stmt::Directive(".data".into()),
                label("buf"),
                Stmt::Directive(".word 0".into()),
                Stmt::Directive(".text".into()),
                label("f"),
                inst(Inst::La(T0, "buf".into())),
                lw(A0, 0, T0),
                ret(),
            ],
        },
        vec!["f".to_string()],
    ));
    // a function inside another one, with two returns of its own
    v.push((
        Program {
            stmts: vec![
                label("main"),
                call("A"),
                call("B"),
                call("C"),
                li(A7, 10),
                ecall(),
                label("A"),
                inst(Inst::Branch(BOp::Beq, A0, ZERO, "C".into())),
                label("B"),
                ret(),
                label("C"),
                inst(Inst::Branch(BOp::Beq, A0, ZERO, "C2".into())),
                li(A0, 1),
                ret(),
                label("C2"),
                li(A0, 2),
                ret(),
            ],
        },
        vec!["A".to_string(), "B".to_string(), "C".to_string()],
    ));
    // several labels on one entry, data label directly before a function label
    v.push((
        Program {
            stmts: vec![
                label("main"),
                call("a"),
                call("b"),
                li(A7, 10),
                ecall(),
                Stmt::Directive(".data".into()),
                label("d"),
                Stmt::Directive(".word 1".into()),
                Stmt::Directive(".text".into()),
                label("a"),
                label("b"),
                label("c"),
                addi(A0, A0, 1),
                ret(),
            ],
        },
        vec!["a".to_string(), "b".to_string()],
    ));
    // an interrupt-vector installation whose source register is only known on the finished
    // graph: the other way to it ends in an exit ecall / is unreachable code
    v.push((
        Program {
            stmts: vec![
                label("main"),
                la(T0, "handler"),
                inst(Inst::Branch(BOp::Beq, A0, ZERO, "install".into())),
                li(T0, 0),
                li(A7, 10),
                ecall(),
                label("install"),
                csrw(T0),
                li(A7, 10),
                ecall(),
                label("handler"),
                addi(T1, T1, 1),
                pseudo("uret", Inst::Jalr(0, 1, 0)),
            ],
        },
        vec!["handler".to_string()],
    ));
    v.push((
        Program {
            stmts: vec![
                label("main"),
                la(T0, "handler"),
                j("install"),
                li(T0, 0),
                label("install"),
                csrw(T0),
                li(A7, 10),
                ecall(),
                label("handler"),
                addi(T1, T1, 1),
                pseudo("uret", Inst::Jalr(0, 1, 0)),
            ],
        },
        vec!["handler".to_string()],
    ));
    // the opposite: an address that only reaches an installation past an exit ecall
    v.push((
        Program {
            stmts: vec![
                label("main"),
                la(T0, "h1"),
                csrw(T0),
                la(T0, "h2"),
                li(A7, 10),
                ecall(),
                label("h1"),
                csrw(T0),
                pseudo("uret", Inst::Jalr(0, 1, 0)),
                label("h2"),
                addi(T1, T1, 1),
                pseudo("uret", Inst::Jalr(0, 1, 0)),
            ],
        },
        vec!["h1".to_string()],
    ));
    // a handler that installs the next one
    v.push((
        Program {
            stmts: vec![
                label("main"),
                la(T0, "first"),
                csrw(T0),
                li(A7, 10),
                ecall(),
                label("first"),
                addi(SP, SP, -4),
                sw(T0, 0, SP),
                la(T0, "second"),
                csrw(T0),
                lw(T0, 0, SP),
                addi(SP, SP, 4),
                pseudo("uret", Inst::Jalr(0, 1, 0)),
                label("second"),
                addi(T1, T1, 1),
                pseudo("uret", Inst::Jalr(0, 1, 0)),
            ],
        },
        vec!["first".to_string(), "second".to_string()],
    ));
    // places where sharing starts: a function's own return that is merged into a shared exit
    // is no way into the shared code
    v.push((
        Program {
            stmts: vec![
                label("main"),
                call("f"),
                call("g"),
                li(A7, 10),
                ecall(),
                label("f"),
                inst(Inst::Branch(BOp::Beq, A0, ZERO, "g".into())),
                li(A0, 7),
                ret(),
                label("g"),
                addi(A0, A0, 1),
                ret(),
            ],
        },
        vec!["f".to_string(), "g".to_string()],
    ));
    // ... and neither is unreachable code: behind a jump (an exit-ecall pair), and a chain
    // of unreachable blocks that stand in the file in reverse order
    v.push((
        Program {
            stmts: vec![
                label("main"),
                call("f"),
                call("g"),
                li(A7, 10),
                ecall(),
                label("f"),
                addi(A0, A0, 1),
                label("g"),
                addi(A0, A0, 2),
                j("mid"),
                li(A7, 10),
                ecall(),
                label("mid"),
                addi(A0, A0, 3),
                ret(),
            ],
        },
        vec!["f".to_string(), "g".to_string()],
    ));
    v.push((
        Program {
            stmts: vec![
                label("main"),
                call("f"),
                call("g"),
                li(A7, 10),
                ecall(),
                label("back"),
                addi(T0, T0, 4),
                j("mid"),
                label("f"),
                addi(A0, A0, 1),
                label("g"),
                addi(A0, A0, 2),
                label("mid"),
                addi(A0, A0, 3),
                ret(),
                label("dead"),
                j("back"),
            ],
        },
        vec!["f".to_string(), "g".to_string()],
    ));
    v
}

pub fn unique_functions(cfg: &Cfg) -> Vec<Rc<Function>> {
    let mut v: Vec<Rc<Function>> = Vec::new();
    for f in cfg.functions().values() {
        if !v.iter().any(|x| Rc::ptr_eq(x, f)) {
            v.push(Rc::clone(f));
        }
    }
    // hash-independent order: by entry node index
    let im = index_map(cfg);
    v.sort_by_key(|f| im.get(&ptr(&f.entry())).copied().unwrap_or(usize::MAX));
    v
}

pub fn reachable(entry: &Rc<CfgNode>) -> Vec<Rc<CfgNode>> {
    let mut seen: Vec<Rc<CfgNode>> = vec![Rc::clone(entry)];
    let mut stack = vec![Rc::clone(entry)];
    while let Some(n) = stack.pop() {
        let nexts: Vec<Rc<CfgNode>> = n.nexts().iter().cloned().collect();
        for m in nexts {
            if !seen.iter().any(|x| Rc::ptr_eq(x, &m)) {
                seen.push(Rc::clone(&m));
                stack.push(m);
            }
        }
    }
    seen
}

/// All clauses of C11 on one finished graph; first failure as (clause, detail).
pub fn check_functions(
    cfg: &Cfg,
    expected_targets: &[String],
    diags: &[imp::Diag],
    src: &str,
) -> Option<(String, String)> {
    let im = index_map(cfg);
    let nodes = cfg.nodes();
    // 1. entry nodes are exactly the nodes carrying a call-target label
    let targets: BTreeSet<&str> = expected_targets.iter().map(|s| s.as_str()).collect();
    for n in nodes.iter() {
        let carries = n.labels.iter().any(|l| targets.contains(l.get().as_str()));
        if n.is_function_entry() != carries && !n.is_program_entry() {
            // the instruction node behind an entry node has no labels; a plain node
            // carrying a target label would be a missing function
            return Some((
                if carries { "call-target-without-entry".into() } else { "entry-without-call-target".into() },
                node_desc(cfg, n),
            ));
        }
    }
    // a label that stands in front of data names that data, not the next instruction
    {
        let lines: Vec<&str> = src.lines().map(|l| l.trim()).collect();
        for (i, l) in lines.iter().enumerate() {
            let Some(name) = l.strip_suffix(':') else { continue };
            let next = lines[i + 1..].iter().find(|x| !x.is_empty() && !x.ends_with(':'));
            let names_data = next.map(|x| [".word", ".byte", ".half", ".asciz", ".ascii", ".string", ".space", ".dword", ".float", ".double"].iter().any(|d| x.starts_with(d))).unwrap_or(false);
            if names_data {
                if let Some(n) = nodes.iter().find(|n| n.labels.iter().any(|x| x.get().as_str() == name)) {
                    return Some(("data-label-attached-to-an-instruction".into(), format!("{name} on {}", node_desc(cfg, n))));
                }
            }
        }
    }
    // every label a call names is a function: it heads an instruction (a program whose call
    // target heads nothing must not be analysed as if the call were fine)
    for t in &targets {
        if !nodes.iter().any(|n| n.labels.iter().any(|l| l.get().as_str() == *t)) {
            return Some(("call-target-heads-no-instruction".into(), (*t).to_string()));
        }
    }
    let funcs = unique_functions(cfg);
    let n_entries = nodes.iter().filter(|n| n.is_function_entry()).count();
    if funcs.len() != n_entries {
        return Some((
            "function-count".into(),
            format!("{} functions for {} entry nodes", funcs.len(), n_entries),
        ));
    }
    // the label -> function map names exactly the labels of the entries
    for (l, f) in cfg.functions().iter() {
        if !f.entry().labels.iter().any(|x| x.get() == l.get()) {
            return Some(("function-map-label".into(), l.get().as_str().to_string()));
        }
    }
    let mut multi_owner = false;
    for f in &funcs {
        let entry = f.entry();
        if !entry.is_function_entry() {
            return Some(("entry-not-entry-node".into(), node_desc(cfg, &entry)));
        }
        let reach = reachable(&entry);
        let reach_set: HashSet<usize> = reach.iter().map(ptr).collect();
        let listed: Vec<Rc<CfgNode>> = f.nodes().iter().cloned().collect();
        let listed_set: HashSet<usize> = listed.iter().map(ptr).collect();
        if reach_set != listed_set {
            let extra: Vec<String> = listed
                .iter()
                .filter(|n| !reach_set.contains(&ptr(n)))
                .map(|n| node_desc(cfg, n))
                .collect();
            let missing: Vec<String> = reach
                .iter()
                .filter(|n| !listed_set.contains(&ptr(n)))
                .map(|n| node_desc(cfg, n))
                .collect();
            // Is the difference explained solely by a return that a *later* function
            // merged into its own exit (the node then belongs to both)?
            let mut seen2: Vec<Rc<CfgNode>> = vec![Rc::clone(&entry)];
            let mut stack2 = vec![Rc::clone(&entry)];
            while let Some(n) = stack2.pop() {
                if is_rewritten_return(&n) && n.functions().len() > 1 {
                    continue;
                }
                let nexts: Vec<Rc<CfgNode>> = n.nexts().iter().cloned().collect();
                for m in nexts {
                    if !seen2.iter().any(|x| Rc::ptr_eq(x, &m)) {
                        seen2.push(Rc::clone(&m));
                        stack2.push(m);
                    }
                }
            }
            let seen2_set: HashSet<usize> = seen2.iter().map(ptr).collect();
            let cause = if seen2_set == listed_set && extra.is_empty() {
                "|only-through-return-merged-by-another-function"
            } else {
                ""
            };
            return Some((
                format!("body-differs-from-reachable-set{cause}"),
                format!("function at {}: listed but unreachable {extra:?}, reachable but unlisted {missing:?}", node_desc(cfg, &entry)),
            ));
        }
        // the body is what the function reaches along *control-flow* edges: the edge that
        // leads from a rewritten return to an exit is bookkeeping, no control flows along it
        {
            let mut real: Vec<Rc<CfgNode>> = vec![Rc::clone(&entry)];
            let mut stack = vec![Rc::clone(&entry)];
            while let Some(n) = stack.pop() {
                if is_rewritten_return(&n) {
                    continue;
                }
                let nexts: Vec<Rc<CfgNode>> = n.nexts().iter().cloned().collect();
                for m in nexts {
                    if !real.iter().any(|x| Rc::ptr_eq(x, &m)) {
                        real.push(Rc::clone(&m));
                        stack.push(m);
                    }
                }
            }
            let real_set: HashSet<usize> = real.iter().map(ptr).collect();
            let beyond: Vec<&Rc<CfgNode>> = listed.iter().filter(|n| !real_set.contains(&ptr(n))).collect();
            if !beyond.is_empty() {
                let own_exit = beyond.iter().all(|n| Rc::ptr_eq(n, &f.exit()));
                let other_exit = beyond.iter().all(|n| funcs.iter().any(|g| !Rc::ptr_eq(g, f) && Rc::ptr_eq(&g.exit(), n)));
                let cause = if own_exit {
                    "its-own-exit-is-reached-only-through-a-merged-return"
                } else if other_exit {
                    "the-exit-of-another-function-behind-a-shared-merged-return"
                } else {
                    "other"
                };
                return Some((
                    format!("body-holds-instructions-no-control-flow-reaches|{cause}"),
                    format!("function at {}: {:?}", node_desc(cfg, &entry), beyond.iter().map(|n| node_desc(cfg, n)).collect::<Vec<_>>()),
                ));
            }
        }
        // per-node owner lists are consistent with the per-function node list
        for n in nodes.iter() {
            let owns = n.functions().iter().any(|g| Rc::ptr_eq(g, f));
            if owns != listed_set.contains(&ptr(n)) {
                return Some((
                    "owner-list-inconsistent".into(),
                    format!("{} vs function at {}", node_desc(cfg, n), node_desc(cfg, &entry)),
                ));
            }
        }
        // one exit: a return the function reaches; every other return leads to it
        let exit = Rc::clone(&f.exit());
        if !exit.is_return() {
            return Some(("exit-is-not-a-return".into(), node_desc(cfg, &exit)));
        }
        if !reach_set.contains(&ptr(&exit)) {
            return Some(("exit-not-reached".into(), node_desc(cfg, &exit)));
        }
        for n in &reach {
            if n.is_return() && !Rc::ptr_eq(n, &exit) {
                let other_exit = funcs
                    .iter()
                    .any(|g| !Rc::ptr_eq(g, f) && Rc::ptr_eq(&g.exit(), n));
                return Some((
                    if other_exit {
                        "second-return-not-merged|it-is-the-exit-of-another-function".to_string()
                    } else {
                        "second-return-not-merged".to_string()
                    },
                    format!("{} in function at {}", node_desc(cfg, n), node_desc(cfg, &entry)),
                ));
            }
            if is_rewritten_return(n) {
                let ok = n.nexts().len() == 1
                    && n.nexts().iter().all(|m| {
                        // leads to the exit of a function that owns it
                        n.functions().iter().any(|g| Rc::ptr_eq(&g.exit(), m))
                    });
                if !ok {
                    return Some(("merged-return-does-not-lead-to-exit".into(), node_desc(cfg, n)));
                }
                let _ = has_next;
            }
        }
    }
    // sharing reported exactly when it exists
    let mut shared_nodes = Vec::new();
    for n in nodes.iter() {
        if n.functions().len() > 1 {
            multi_owner = true;
            shared_nodes.push(node_desc(cfg, n));
        }
    }
    let reports: Vec<&imp::Diag> = diags
        .iter()
        .filter(|d| d.code == "node-in-many-functions")
        .collect();
    if multi_owner && reports.is_empty() {
        let entry_shared = nodes
            .iter()
            .any(|n| n.functions().len() > 1 && n.is_function_entry());
        let cause = if entry_shared {
            "shared-entry"
        } else {
            "no-shared-entry"
        };
        return Some((format!("sharing-not-reported|{cause}"), format!("{shared_nodes:?}")));
    }
    if !multi_owner && !reports.is_empty() {
        return Some(("sharing-reported-without-sharing".into(), String::new()));
    }
    for r in reports {
        // the item must designate an instruction that really has several owners: by one of
        // its labels, or (an instruction without a label) by its own text
        let text: String = src.chars().skip(r.start_raw).take(r.end_raw.saturating_sub(r.start_raw)).collect();
        let name = text.trim_end_matches(':').trim().to_string();
        let ok = nodes.iter().any(|n| {
            n.functions().len() > 1
                && (n.labels().iter().any(|l| l.get().as_str() == name)
                    || (n.node().range().start().raw_index() == r.start_raw && n.node().range().end().raw_index() == r.end_raw))
        });
        if !ok {
            return Some(("sharing-report-names-uninvolved-label".into(), format!("'{text}'")));
        }
    }
    // ... and at the places where it starts: a shared instruction that is a function's entry
    // or that control enters from code fewer functions own. A return that was merged into the
    // exit is an artefact of the one-exit form, and code nothing reaches enters nowhere.
    let live: Vec<Rc<CfgNode>> = nodes.first().map(reachable).unwrap_or_default();
    let is_live = |n: &Rc<CfgNode>| !n.functions().is_empty() || live.iter().any(|x| Rc::ptr_eq(x, n));
    for n in nodes.iter() {
        if n.functions().len() < 2 {
            continue;
        }
        let starts = n.is_function_entry()
            || n.prevs().iter().any(|p| is_live(p) && !is_rewritten_return(p) && p.functions().len() < n.functions().len());
        // the instruction behind an entry node is designated by the entry's labels
        let behind_entry = n.prevs().iter().any(|p| p.is_function_entry());
        let designated = diags.iter().filter(|d| d.code == "node-in-many-functions").any(|r| {
            let text: String = src.chars().skip(r.start_raw).take(r.end_raw.saturating_sub(r.start_raw)).collect();
            let name = text.trim_end_matches(':').trim().to_string();
            n.labels().iter().any(|l| l.get().as_str() == name)
                || (n.node().range().start().raw_index() == r.start_raw && n.node().range().end().raw_index() == r.end_raw)
        });
        if designated && !starts && !behind_entry {
            return Some(("sharing-reported-at-a-place-where-none-starts".into(), node_desc(cfg, n)));
        }
        if starts && !designated && !n.is_function_entry() && !behind_entry {
            return Some(("place-where-sharing-starts-not-reported".into(), node_desc(cfg, n)));
        }
    }
    let _ = im;
    None
}

impl C11 {
    pub fn new() -> C11 {
        let alpha = alphabet();
        let a = alpha.len() as u64;
        C11 {
            alpha,
            quick: SeqSpace { a, min: 0, max: 4 },
            thorough: SeqSpace { a, min: 0, max: 6 },
            fixed: fixed_programs(),
        }
    }
    fn space(&self, tier: Tier) -> &SeqSpace {
        tier.pick(&self.quick, &self.thorough)
    }
    fn program(&self, tier: Tier, case: u64) -> (Program, Vec<String>) {
        let nf = self.fixed.len() as u64;
        if case < nf {
            return self.fixed[case as usize].clone();
        }
        let idx = self.space(tier).decode(case - nf);
        let body: Vec<Stmt> = idx.iter().flat_map(|i| self.alpha[*i].clone()).collect();
        build(body)
    }

    fn run_program(&self, tier: Tier, case: u64, prog: &Program, targets: &[String], acc: &mut Acc) {
        let text = prog.text();
        let (bound, full_cap, bound_cap) = tier.pick((1, 64, 128), (2, 512, 1024));
        let mut panicked: Option<String> = None;
        let mut run = |prefix: &[u32]| -> Option<(imp::Run, Vec<riscv_analysis::verif::Decision>)> {
            match imp::analyze(imp::MemReader::single(&text), "base.s", prefix) {
                Ok(r) => {
                    let d = r.report.decisions.clone();
                    Some((r, d))
                }
                Err(p) => {
                    panicked = Some(p.0);
                    None
                }
            }
        };
        let ex = sched::explore(&mut run, bound, full_cap, bound_cap);
        if let Some(msg) = panicked {
            // crashes are C06's subject; recorded here as an outcome only
            acc.count("analysis_panicked", 1);
            acc.outcome(&format!("panic:{}", msg.chars().take(60).collect::<String>()), case);
            return;
        }
        if let Some(d) = &ex.replay_divergence {
            acc.violation("C11|machinery|replay-divergence", case, json!({"source": text, "what": d}));
            return;
        }
        acc.count("schedules", ex.runs.len() as u64);
        let mut nontrivial = ex.runs.len() > 1;
        for (schedule, run) in &ex.runs {
            if !run.parse_errors.is_empty() {
                acc.violation("C11|machinery|parse-errors", case, json!({"source": text}));
                return;
            }
            let cfg = match &run.cfg {
                Ok(c) => c,
                Err(e) => {
                    acc.outcome(&format!("cfg-error:{}", imp::cfg_error_code(e)), case);
                    acc.count("cfg_rejected", 1);
                    return;
                }
            };
            acc.count("graphs", 1);
            acc.count("functions_checked", unique_functions(cfg).len() as u64);
            if cfg.nodes().iter().any(|n| is_rewritten_return(n) || n.functions().len() > 1) {
                nontrivial = true;
            }
            if let Some((clause, detail)) = check_functions(cfg, targets, &run.diags, &text) {
                acc.violation(
                    format!("C11|{clause}"),
                    case,
                    json!({"source": text, "schedule": schedule, "detail": detail, "case": case,
                           "call_targets": targets}),
                );
                return;
            }
        }
        if nontrivial {
            acc.count("nontrivial", 1);
        }
        acc.count("programs_analysed", 1);
        acc.outcome("ok", case);
    }
}

impl Property for C11 {
    fn id(&self) -> &'static str {
        "C11"
    }
    fn cases(&self, tier: Tier) -> u64 {
        self.fixed.len() as u64 + self.space(tier).count()
    }
    fn chunk(&self, tier: Tier) -> u64 {
        tier.pick(2000, 500)
    }
    fn run_case(&self, tier: Tier, case: u64, acc: &mut Acc) {
        acc.count("cases", 1);
        let (p, t) = self.program(tier, case);
        if case % 4999 == 0 {
            acc.sample(json!({"case": case, "source": p.text(), "call_targets": t}));
        }
        self.run_program(tier, case, &p, &t, acc);
    }
    fn show(&self, tier: Tier, case: u64) -> String {
        self.program(tier, case).0.text()
    }
    fn replay(&self, w: &Value, acc: &mut Acc) {
        if let Some(case) = w["case"].as_u64() {
            for tier in [Tier::Quick, Tier::Thorough] {
                if case < self.cases(tier) {
                    let (p, t) = self.program(tier, case);
                    if Some(p.text().as_str()) == w["source"].as_str() {
                        self.run_program(tier, case, &p, &t, acc);
                        return;
                    }
                }
            }
        }
        acc.notes.push("replay: case index does not reproduce the recorded source".into());
    }
    fn info(&self, tier: Tier) -> Info {
        Info {
            rule: "main calling f1, f2 (and f3 from unreachable code) followed by every sequence over an 11-symbol alphabet of function labels, a local label, an instruction, ret, jumps/branches to the local label and to function labels, a nested call; plus fixed programs for interrupt-handler installation and multi-label entries; each under every hash-order schedule within the bound. Oracle computed from the AST (call targets) and from the final edge relation by identity (reachability, owner lists, exit, merged returns, sharing report). Non-trivial = programs with >= 2 schedules, a merged return or a shared node".into(),
            bounds: json!({"body_len": self.space(tier).max, "alphabet": self.alpha.len(), "deviation_bound": tier.pick(1, 2), "fixed_programs": self.fixed.len()}),
            assumptions: vec![
                "reachability is computed over the implementation's final edge relation, which C03 checks independently".into(),
            ],
            states_counter: "graphs",
            transitions_counter: "functions_checked",
            traces_counter: "graphs",
            nontrivial_counter: "nontrivial",
            exhaustive: true,
        }
    }
}
