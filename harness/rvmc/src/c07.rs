//! C07 — no source line is silently dropped; a bad line affects only itself.
//!
//! Space: all files of up to m lines over a 23-kind line alphabet (9 good,
//! 14 bad) x line ending {LF, CRLF} x final newline {yes, no}, as base file and
//! (one cut) with the tail in an included file.

use crate::driver::*;
use crate::gen::SeqSpace;
use crate::imp;
use crate::loc::Locator;
use riscv_analysis::passes::DiagnosticLocation;
use serde_json::{json, Value};
use std::collections::BTreeMap;

pub struct C07 {
    quick: SeqSpace,
    thorough: SeqSpace,
}

#[derive(Clone, Copy, Debug, PartialEq, Eq)]
pub enum LineKind {
    Inst,
    LabelInst,
    Label,
    DataWords,
    DataFloats,
    Asciz,
    Comment,
    Blank,
    BadOperandKind,
    BadMissingOperand,
    BadMnemonic,
    BadParen,
    BadAt,
    BadNonAscii,
    BadString,
    CharLiteral,
    BadUnclosedChar,
    BadCharEscape,
    BadStringEscape,
    BadStringTrailingBackslash,
    BadCharTrailingBackslash,
    JalrOneOperand,
    BadLabelOperand,
    BadStringOperand,
}
pub const KINDS: [LineKind; 24] = [
    LineKind::Inst,
    LineKind::LabelInst,
    LineKind::Label,
    LineKind::DataWords,
    LineKind::DataFloats,
    LineKind::Asciz,
    LineKind::Comment,
    LineKind::Blank,
    LineKind::BadOperandKind,
    LineKind::BadMissingOperand,
    LineKind::BadMnemonic,
    LineKind::BadParen,
    LineKind::BadAt,
    LineKind::BadNonAscii,
    LineKind::BadString,
    LineKind::CharLiteral,
    LineKind::BadUnclosedChar,
    LineKind::BadCharEscape,
    LineKind::BadStringEscape,
    LineKind::BadStringTrailingBackslash,
    LineKind::BadCharTrailingBackslash,
    LineKind::JalrOneOperand,
    LineKind::BadLabelOperand,
    LineKind::BadStringOperand,
];

impl LineKind {
    pub fn is_bad(self) -> bool {
        matches!(
            self,
            LineKind::BadOperandKind
                | LineKind::BadMissingOperand
                | LineKind::BadMnemonic
                | LineKind::BadParen
                | LineKind::BadAt
                | LineKind::BadNonAscii
                | LineKind::BadString
                | LineKind::BadUnclosedChar
                | LineKind::BadCharEscape
                | LineKind::BadStringEscape
                | LineKind::BadStringTrailingBackslash
                | LineKind::BadCharTrailingBackslash
                | LineKind::BadLabelOperand
                | LineKind::BadStringOperand
        )
    }
    pub fn has_content(self) -> bool {
        !matches!(self, LineKind::Comment | LineKind::Blank)
    }
    pub fn name(self) -> &'static str {
        match self {
            LineKind::Inst => "inst",
            LineKind::LabelInst => "label+inst",
            LineKind::Label => "label",
            LineKind::DataWords => "data-words",
            LineKind::DataFloats => "data-floats",
            LineKind::Asciz => "asciz",
            LineKind::Comment => "comment",
            LineKind::Blank => "blank",
            LineKind::BadOperandKind => "bad-operand-kind",
            LineKind::BadMissingOperand => "bad-missing-operand",
            LineKind::BadMnemonic => "bad-mnemonic",
            LineKind::BadParen => "bad-paren",
            LineKind::BadAt => "bad-at-sign",
            LineKind::BadNonAscii => "bad-non-ascii",
            LineKind::BadString => "bad-unterminated-string",
            LineKind::CharLiteral => "char-literal",
            LineKind::BadUnclosedChar => "bad-unclosed-char",
            LineKind::BadCharEscape => "bad-char-escape",
            LineKind::BadStringEscape => "bad-string-escape",
            LineKind::BadStringTrailingBackslash => "bad-string-trailing-backslash",
            LineKind::BadCharTrailingBackslash => "bad-char-trailing-backslash",
            LineKind::JalrOneOperand => "jalr-one-operand",
            LineKind::BadLabelOperand => "bad-label-definition-as-operand",
            LineKind::BadStringOperand => "bad-string-as-operand",
        }
    }
    /// text of the line; `i` makes labels unique
    pub fn text(self, i: usize) -> String {
        match self {
            LineKind::Inst => "    addi t0, t0, 1".into(),
            LineKind::LabelInst => format!("lbl{i}: add t1, t1, t0"),
            LineKind::Label => format!("lone{i}:"),
            LineKind::DataWords => "    .word 1, 2".into(),
            LineKind::DataFloats => "    .float 1.5, 2".into(),
            LineKind::Asciz => "    .asciz \"hi\"".into(),
            LineKind::Comment => "    # just a comment".into(),
            LineKind::Blank => String::new(),
            LineKind::BadOperandKind => "    addi t0, t0, t1".into(),
            LineKind::BadMissingOperand => "    add t0, t1".into(),
            LineKind::BadMnemonic => "    frobnicate t0, t1".into(),
            LineKind::BadParen => "    ( t0".into(),
            LineKind::BadAt => "    @ t0".into(),
            LineKind::BadNonAscii => "    \u{e9}t\u{e9} t0".into(),
            LineKind::BadString => "    .asciz \"unterminated".into(),
            LineKind::CharLiteral => "    li a0, 'A'".into(),
            LineKind::BadUnclosedChar => "    li a0, 'A".into(),
            LineKind::BadCharEscape => "    li a0, '\\q'".into(),
            LineKind::BadStringEscape => "    .asciz \"a\\qb\"".into(),
            LineKind::BadStringTrailingBackslash => "    .asciz \"ab\\".into(),
            LineKind::BadCharTrailingBackslash => "    li a0, '\\".into(),
            LineKind::JalrOneOperand => "    jalr t0".into(),
            LineKind::BadLabelOperand => format!("    beq t0, t1, dest{i}:"),
            LineKind::BadStringOperand => "    li a0, \"x\\ny\"".into(),
        }
    }
}

#[derive(Clone, Debug)]
pub struct FileCase {
    pub kinds: Vec<LineKind>,
    pub crlf: bool,
    pub final_newline: bool,
    /// Some(k): lines k.. live in an included file (an `.include` line is added)
    pub cut: Option<usize>,
}

impl FileCase {
    /// every line keeps the terminator it has in the full file (so deleting a
    /// line never changes how another line ends)
    pub fn terminated(&self, orig: usize) -> bool {
        orig + 1 < self.kinds.len() || self.final_newline
    }
    pub fn render(&self, kinds: &[(usize, LineKind)]) -> String {
        let nl = if self.crlf { "\r\n" } else { "\n" };
        let mut s = String::new();
        for (i, k) in kinds.iter() {
            s.push_str(&k.text(*i));
            if self.terminated(*i) {
                s.push_str(nl);
            }
        }
        s
    }
}

/// What the parser produced for one line of one file: node and error signatures.
type LineSig = (Vec<String>, Vec<String>);

/// Parse `files` (base first) and attribute every node and error to (file, line).
fn attribute(files: Vec<(String, String)>) -> Result<BTreeMap<(usize, usize), LineSig>, String> {
    let locs: Vec<Locator> = files.iter().map(|f| Locator::new(&f.1)).collect();
    let reader = imp::MemReader::new(files);
    let r = std::panic::catch_unwind(std::panic::AssertUnwindSafe(|| imp::parse(reader, "f0.s")));
    let (reader, nodes, errs) = match r {
        Ok(x) => x,
        Err(e) => return Err(imp::panic_message(e)),
    };
    let mut map: BTreeMap<(usize, usize), LineSig> = BTreeMap::new();
    for n in nodes.iter().skip(1) {
        let Some(fi) = reader.file_index_of(n.file()) else { continue };
        let raw = n.range().start().raw_index();
        if raw > locs[fi].len() {
            continue;
        }
        let line = locs[fi].line_of(raw.min(locs[fi].len().saturating_sub(1)));
        map.entry((fi, line)).or_default().0.push(n.to_string());
    }
    for e in &errs {
        let Some(fi) = reader.file_index_of(e.file()) else { continue };
        let raw = e.range().start().raw_index();
        let line = locs[fi].line_of(raw.min(locs[fi].len().saturating_sub(1)));
        map.entry((fi, line))
            .or_default()
            .1
            .push(imp::parse_error_code(e).to_string());
    }
    Ok(map)
}

impl C07 {
    pub fn new() -> C07 {
        C07 {
            quick: SeqSpace {
                a: KINDS.len() as u64,
                min: 1,
                max: 4,
            },
            thorough: SeqSpace {
                a: KINDS.len() as u64,
                min: 1,
                max: 5,
            },
        }
    }
    fn space(&self, tier: Tier) -> &SeqSpace {
        tier.pick(&self.quick, &self.thorough)
    }
    // variants per line sequence: crlf x final newline x {no cut, cut at 1}
    const VARIANTS: u64 = 8;

    fn case(&self, tier: Tier, case: u64) -> FileCase {
        let v = case % Self::VARIANTS;
        let kinds: Vec<LineKind> = self
            .space(tier)
            .decode(case / Self::VARIANTS)
            .into_iter()
            .map(|i| KINDS[i])
            .collect();
        FileCase {
            kinds,
            crlf: v & 1 != 0,
            final_newline: v & 2 != 0,
            cut: if v & 4 != 0 { Some(1) } else { None },
        }
    }

    /// Build the files of a case from (original index, kind) pairs.
    fn files(fc: &FileCase, lines: &[(usize, LineKind)]) -> (Vec<(String, String)>, Vec<(usize, usize, usize, LineKind)>) {
        // returns files and for every line (orig index, file, line-in-file, kind)
        let mut placement = Vec::new();
        match fc.cut {
            Some(k) if lines.len() > k => {
                let head: Vec<_> = lines[..k].to_vec();
                let tail: Vec<_> = lines[k..].to_vec();
                let nl = if fc.crlf { "\r\n" } else { "\n" };
                let mut base = String::new();
                for (n, (i, kind)) in head.iter().enumerate() {
                    base.push_str(&kind.text(*i));
                    base.push_str(nl);
                    placement.push((*i, 0, n, *kind));
                }
                base.push_str("    .include \"f1.s\"");
                base.push_str(nl);
                for (n, (i, kind)) in tail.iter().enumerate() {
                    placement.push((*i, 1, n, *kind));
                }
                let inc = fc.render(&tail);
                (vec![("f0.s".into(), base), ("f1.s".into(), inc)], placement)
            }
            _ => {
                for (n, (i, kind)) in lines.iter().enumerate() {
                    placement.push((*i, 0, n, *kind));
                }
                (vec![("f0.s".into(), fc.render(lines))], placement)
            }
        }
    }

    fn run_file(&self, case: u64, fc: &FileCase, acc: &mut Acc) {
        let lines: Vec<(usize, LineKind)> = fc.kinds.iter().copied().enumerate().collect();
        let (files, placement) = Self::files(fc, &lines);
        let witness = |what: &str, detail: Value| {
            json!({"lines": fc.kinds.iter().map(|k| k.name()).collect::<Vec<_>>(), "crlf": fc.crlf,
                   "final_newline": fc.final_newline, "cut": fc.cut, "files": files, "what": what,
                   "detail": detail, "case": case})
        };
        let variant = format!(
            "{}{}",
            if fc.crlf { "crlf" } else { "lf" },
            if fc.cut.is_some() && fc.kinds.len() > 1 { "+included" } else { "" }
        );
        let map = match attribute(files.clone()) {
            Ok(m) => m,
            Err(p) => {
                acc.count("panicked", 1);
                acc.outcome(&format!("panic:{}", p.chars().take(40).collect::<String>()), case);
                return;
            }
        };
        acc.count("traces", 1);
        let n_bad = fc.kinds.iter().filter(|k| k.is_bad()).count();
        let n_good = fc.kinds.iter().filter(|k| !k.is_bad() && k.has_content()).count();
        if n_bad >= 1 && n_good >= 1 {
            acc.count("nontrivial", 1);
        }
        // coverage: every line with content is the line of a node or of an error
        for (pos, (orig, file, line, kind)) in placement.iter().enumerate() {
            if !kind.has_content() {
                continue;
            }
            acc.count("lines_checked", 1);
            let sig = map.get(&(*file, *line));
            let covered = sig.map(|s| !s.0.is_empty() || !s.1.is_empty()).unwrap_or(false);
            if !covered {
                // narrow, deterministic description of the situation
                let prev = if pos == 0 { "none" } else { placement[pos - 1].3.name() };
                let last = pos + 1 == placement.len();
                let cause = format!(
                    "{}|prev:{}|{}{}{}",
                    kind.name(),
                    prev,
                    if last { "last-line" } else { "inner-line" },
                    if last && !fc.final_newline { "-no-final-newline" } else { "" },
                    if fc.crlf { "|crlf" } else { "" }
                );
                acc.violation(
                    format!("C07|silent-drop|{cause}"),
                    case,
                    witness("a line with content produced neither a node nor a parse error", json!({"dropped_line": orig, "kind": kind.name()})),
                );
                return;
            }
            // a good line must become nodes, not an error
            if !kind.is_bad() && sig.map(|s| !s.1.is_empty()).unwrap_or(false) {
                let prev = if pos == 0 { "none" } else { placement[pos - 1].3.name() };
                let cause = format!(
                    "{}|prev:{}|{}{}",
                    kind.name(),
                    prev,
                    if pos + 1 == placement.len() { "last-line" } else { "inner-line" },
                    if fc.crlf { "|crlf" } else { "" }
                );
                acc.violation(
                    format!("C07|good-line-rejected|{cause}"),
                    case,
                    witness("a well-formed line drew a parse error", json!({"line": orig, "kind": kind.name(), "errors": sig.map(|s| s.1.clone())})),
                );
                return;
            }
        }
        // containment: every bad line deleted in turn; the other lines must parse the same
        for (orig, kind) in &lines {
            if !kind.is_bad() {
                continue;
            }
            let reduced: Vec<(usize, LineKind)> = lines.iter().copied().filter(|(i, _)| i != orig).collect();
            if reduced.is_empty() {
                continue;
            }
            // keep the cut at the same original boundary
            let mut fc2 = fc.clone();
            if let Some(k) = fc.cut {
                let head = reduced.iter().filter(|(i, _)| *i < k).count();
                fc2.cut = if head == 0 || head == reduced.len() { None } else { Some(head) };
                if fc.kinds.len() <= k {
                    fc2.cut = None;
                }
            }
            let (files2, placement2) = Self::files(&fc2, &reduced);
            let Ok(map2) = attribute(files2.clone()) else { continue };
            acc.count("traces", 1);
            acc.count("containment_pairs", 1);
            for (o2, f2, l2, k2) in &placement2 {
                let Some((_, f1, l1, _)) = placement.iter().find(|p| p.0 == *o2) else { continue };
                let a = map.get(&(*f1, *l1)).cloned().unwrap_or_default();
                let b = map2.get(&(*f2, *l2)).cloned().unwrap_or_default();
                if a != b {
                    let rel = if o2 < orig { "before" } else if *o2 == orig + 1 { "next" } else { "later" };
                    acc.violation(
                        format!("C07|not-contained|{}|{}-line-{}|{variant}", kind.name(), rel, k2.name()),
                        case,
                        witness(
                            "another line parses differently when the bad line is deleted",
                            json!({"bad_line": orig, "other_line": o2, "with_bad_line": a, "without": b, "files_without": files2}),
                        ),
                    );
                    return;
                }
            }
        }
        acc.outcome(&format!("ok:{}bad", n_bad), case);
    }
}

// ---------------------------------------------------------------------------------------
// Macro regions: the body of a `.macro` is skipped with one error (macros are not supported);
// what follows the end of the region - in either spelling of the end directive, the
// assembler's `.end_macro` and the short `.endmacro` - must not disappear with it.

const MACRO_BAD: [&str; 4] = ["", "    addi %r, %r, 1", "    .asciz \"abc", "    li t0, 'a"];
pub const MACRO_CASES: u64 = 2 * 3 * 2 * 7;

/// (source, 0-based lines that lie behind the macro region and carry a statement, 0-based
/// line of the malformed body line if the case has one)
pub fn macro_case(i: u64) -> (String, Vec<usize>, Option<usize>) {
    let end = [".endmacro", ".end_macro"][(i % 2) as usize];
    let body_len = ((i / 2) % 3) as usize;
    let crlf = (i / 6) % 2 == 1;
    // a body line that cannot be lexed (a macro parameter, a broken literal), first or last in the body
    let b = (i / 12) % 7;
    let (bad, bad_last) = if b == 0 { (0, false) } else { (1 + ((b - 1) / 2) as usize, (b - 1) % 2 == 1) };
    let mut lines: Vec<String> = vec!["main:".into(), "    .macro inc".into()];
    let mut bad_line = None;
    if bad > 0 && !bad_last {
        bad_line = Some(lines.len());
        lines.push(MACRO_BAD[bad].into());
    }
    for k in 0..body_len {
        lines.push(format!("    addi t{k}, t{k}, 1"));
    }
    if bad > 0 && bad_last {
        bad_line = Some(lines.len());
        lines.push(MACRO_BAD[bad].into());
    }
    lines.push(format!("    {end}"));
    let first_after = lines.len();
    lines.extend(["    addi a0, a0, 1", "    frobnicate t0", "    li a7, 10", "    ecall"].map(String::from));
    let nl = if crlf { "\r\n" } else { "\n" };
    (lines.iter().map(|l| format!("{l}{nl}")).collect(), (first_after..first_after + 4).collect(), bad_line)
}

impl C07 {
    /// what the parser made of a text: (line, node) and (line, error code) lists
    fn parsed(src: &str) -> Option<(Vec<(usize, String)>, Vec<(usize, String)>)> {
        let (_, nodes, errs) = std::panic::catch_unwind(|| imp::parse(imp::MemReader::single(src), "base.s")).ok()?;
        let loc = Locator::new(src);
        let n = nodes.iter().skip(1).map(|n| (loc.line_of(n.range().start().raw_index()), n.to_string())).collect();
        let mut e: Vec<(usize, String)> =
            errs.iter().map(|e| (loc.line_of(e.range().start().raw_index()), imp::parse_error_code(e).to_string())).collect();
        e.sort();
        Some((n, e))
    }

    fn run_macro_case(case: u64, i: u64, acc: &mut Acc) {
        let (src, after, bad_line) = macro_case(i);
        acc.count("macro_cases", 1);
        let Some((nodes, errs)) = Self::parsed(&src) else {
            acc.count("panicked", 1);
            return;
        };
        acc.count("traces", 1);
        let covered = |line: usize| nodes.iter().any(|(l, _)| *l == line) || errs.iter().any(|(l, _)| *l == line);
        for l in &after {
            if !covered(*l) {
                let spelling = if i % 2 == 0 { "endmacro" } else { "end_macro" };
                acc.violation(
                    format!("C07|silent-drop|behind-a-macro-region|{spelling}"),
                    case,
                    json!({"case": case, "macro_case": i, "source": src, "dropped_line": l + 1, "what": "a line behind the end of a macro region is neither a node nor an error"}),
                );
                return;
            }
        }
        // a body line that cannot be lexed is part of the skipped region: everything else is
        // parsed as if that line were not there
        if let Some(b) = bad_line {
            let without: String = src.split_inclusive('\n').enumerate().filter(|(k, _)| *k != b).map(|(_, l)| l).collect();
            let Some((n0, e0)) = Self::parsed(&without) else {
                acc.count("panicked", 1);
                return;
            };
            let shift = |v: &[(usize, String)]| -> Vec<(usize, String)> {
                v.iter().filter(|(l, _)| *l != b).map(|(l, t)| (if *l > b { *l - 1 } else { *l }, t.clone())).collect()
            };
            if shift(&nodes) != n0 || shift(&errs) != e0 {
                let kind = ["", "macro-parameter", "unclosed-string", "unclosed-character"][((i / 12) % 7 + 1) as usize / 2];
                acc.violation(
                    format!("C07|not-contained|malformed-line-in-a-macro-body|{kind}"),
                    case,
                    json!({"case": case, "macro_case": i, "source": src, "malformed_line": b + 1,
                        "nodes": nodes, "errors": errs, "nodes_without_the_line": n0, "errors_without_the_line": e0,
                        "what": "with the malformed body line deleted the other lines are parsed differently"}),
                );
                return;
            }
            acc.outcome("macro-region-contained-with-malformed-body-line", case);
            return;
        }
        acc.outcome("macro-region-contained", case);
    }
}

// ---------------------------------------------------------------------------------------
// Continued data lists: the values of a data directive may go on on the following lines. A
// malformed line among them must not change what becomes of the lines behind it.

const LIST_BAD: [(&str, &str); 4] = [
    ("bad-value", "    3, 4x"),
    ("unlexable-character", "    @ 3"),
    ("unknown-mnemonic", "    frobnicate t0"),
    ("unclosed-string", "    \"abc"),
];
pub const LIST_CASES: u64 = 4 * 3 * 2;

/// (source, 0-based line of the malformed line)
pub fn list_case(i: u64) -> (String, usize) {
    let bad = (i % 4) as usize;
    let pos = ((i / 4) % 3) as usize;
    let crlf = (i / 12) % 2 == 1;
    let mut lines: Vec<String> = vec![".data".into(), "table: .word 1, 2".into()];
    let cont = ["    10, 11", "    12, 13", "    14, 15"];
    for (k, c) in cont.iter().enumerate() {
        if k == pos {
            lines.push(LIST_BAD[bad].1.into());
        }
        lines.push((*c).into());
    }
    lines.extend([".text", "main:", "    li a7, 10", "    ecall"].map(String::from));
    let nl = if crlf { "\r\n" } else { "\n" };
    (lines.iter().map(|l| format!("{l}{nl}")).collect(), 2 + pos)
}

impl C07 {
    /// per line: is it covered by a node (a data directive covers its continuation lines), and
    /// the parse errors located on it
    fn line_status(src: &str) -> Option<Vec<(bool, Vec<String>)>> {
        let (_, nodes, errs) = std::panic::catch_unwind(|| imp::parse(imp::MemReader::single(src), "base.s")).ok()?;
        let loc = Locator::new(src);
        let n_lines = src.split_inclusive('\n').count();
        let mut v = vec![(false, Vec::new()); n_lines];
        for n in nodes.iter().skip(1) {
            let (a, b) = (loc.line_of(n.range().start().raw_index()), loc.line_of(n.range().end().raw_index()));
            for l in a..=b.min(n_lines - 1) {
                v[l].0 = true;
            }
        }
        for e in &errs {
            let l = loc.line_of(e.range().start().raw_index());
            if l < n_lines {
                v[l].1.push(imp::parse_error_code(e).to_string());
            }
        }
        for x in &mut v {
            x.1.sort();
        }
        Some(v)
    }

    fn run_list_case(case: u64, i: u64, acc: &mut Acc) {
        let (src, b) = list_case(i);
        acc.count("data_list_cases", 1);
        let without: String = src.split_inclusive('\n').enumerate().filter(|(k, _)| *k != b).map(|(_, l)| l).collect();
        let (Some(with), Some(base)) = (Self::line_status(&src), Self::line_status(&without)) else {
            acc.count("panicked", 1);
            return;
        };
        acc.count("traces", 1);
        if with[b].1.is_empty() {
            acc.violation(
                format!("C07|silent-drop|malformed-line-in-a-continued-data-list|{}", LIST_BAD[(i % 4) as usize].0),
                case,
                json!({"case": case, "list_case": i, "source": src, "malformed_line": b + 1, "what": "the malformed line is not named by a parse error"}),
            );
            return;
        }
        let mut others = with.clone(); // the other lines
        others.remove(b);
        if others != base {
            let first = (0..base.len()).find(|k| others[*k] != base[*k]).unwrap_or(0);
            acc.violation(
                "C07|not-contained|malformed-line-in-a-continued-data-list",
                case,
                json!({"case": case, "list_case": i, "source": src, "malformed_line": b + 1,
                    "first_line_parsed_differently": first + 1 + usize::from(first >= b),
                    "with_the_line": format!("{:?}", others[first]), "with_the_line_deleted": format!("{:?}", base[first]),
                    "what": "with the malformed line deleted the lines behind it are values of the list; with it they are parse errors"}),
            );
            return;
        }
        acc.outcome("data-list-contained", case);
    }
}

impl Property for C07 {
    fn id(&self) -> &'static str {
        "C07"
    }
    fn cases(&self, tier: Tier) -> u64 {
        self.space(tier).count() * Self::VARIANTS + MACRO_CASES + LIST_CASES
    }
    fn chunk(&self, _tier: Tier) -> u64 {
        8000
    }
    fn run_case(&self, tier: Tier, case: u64, acc: &mut Acc) {
        acc.count("cases", 1);
        let enumerated = self.space(tier).count() * Self::VARIANTS;
        if case >= enumerated + MACRO_CASES {
            Self::run_list_case(case, case - enumerated - MACRO_CASES, acc);
            return;
        }
        if case >= enumerated {
            Self::run_macro_case(case, case - enumerated, acc);
            return;
        }
        let fc = self.case(tier, case);
        if case % 5003 == 0 {
            let lines: Vec<(usize, LineKind)> = fc.kinds.iter().copied().enumerate().collect();
            acc.sample(json!({"case": case, "files": Self::files(&fc, &lines).0}));
        }
        self.run_file(case, &fc, acc);
    }
    fn show(&self, tier: Tier, case: u64) -> String {
        let enumerated = self.space(tier).count() * Self::VARIANTS;
        if case >= enumerated + MACRO_CASES {
            return list_case(case - enumerated - MACRO_CASES).0;
        }
        if case >= enumerated {
            return macro_case(case - enumerated).0;
        }
        let fc = self.case(tier, case);
        let lines: Vec<(usize, LineKind)> = fc.kinds.iter().copied().enumerate().collect();
        format!("{:?}\n{:?}", fc, Self::files(&fc, &lines).0)
    }
    fn replay(&self, w: &Value, acc: &mut Acc) {
        if let Some(m) = w["list_case"].as_u64() {
            Self::run_list_case(w["case"].as_u64().unwrap_or(0), m, acc);
            return;
        }
        if let Some(m) = w["macro_case"].as_u64() {
            Self::run_macro_case(w["case"].as_u64().unwrap_or(0), m, acc);
            return;
        }
        if let Some(case) = w["case"].as_u64() {
            for tier in [Tier::Quick, Tier::Thorough] {
                if case < self.cases(tier) {
                    let fc = self.case(tier, case);
                    let names: Vec<&str> = fc.kinds.iter().map(|k| k.name()).collect();
                    let rec: Vec<&str> = w["lines"].as_array().map(|a| a.iter().filter_map(|x| x.as_str()).collect()).unwrap_or_default();
                    if names == rec {
                        self.run_file(case, &fc, acc);
                        return;
                    }
                }
            }
        }
    }
    fn info(&self, tier: Tier) -> Info {
        Info {
            rule: "all files of 1..m lines over 24 line kinds (instruction, label+instruction, label, .word list, .float list, .asciz, comment, blank, character literal; wrong operand kind, missing operand, unknown mnemonic, stray '(', stray '@', non-ASCII word, unterminated string, unclosed character literal, invalid character escape) x {LF, CRLF} x {final newline, none} x {one file, tail in an included file}; coverage: every line with content is the line (by raw offset, via the harness's locator) of a node or a parse error and good lines draw no error; containment: deleting a bad line leaves the nodes/errors of every other line unchanged. Non-trivial = files with at least one bad and one good content line".into(),
            bounds: json!({"max_lines": self.space(tier).max, "line_kinds": 17, "variants_per_sequence": 8}),
            assumptions: vec!["lines are attributed through raw offsets, so the line/column defects of C09 do not contaminate this check".into()],
            states_counter: "cases",
            transitions_counter: "lines_checked",
            traces_counter: "traces",
            nontrivial_counter: "nontrivial",
            exhaustive: true,
        }
    }
}
