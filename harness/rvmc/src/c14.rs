//! C14 — renaming labels or same-class registers only renames the diagnostics.

use crate::driver::*;
use crate::imp;
use crate::model::*;
use crate::pool::Pool;
use crate::surface::*;
use serde_json::{json, Value};
use std::collections::BTreeMap;

pub struct C14 {
    quick: Pool,
    thorough: Pool,
}

const TEMPS: [Reg; 7] = [5, 6, 7, 28, 29, 30, 31];
const SAVEDS: [Reg; 12] = [8, 9, 18, 19, 20, 21, 22, 23, 24, 25, 26, 27];
const LABEL_POOL: [&str; 12] = [
    "f",
    "Func_2",
    "zz_top9",
    "L",
    "loop_1",
    "aVeryLongLabelName_0123456789",
    "_x",
    "Q",
    "__init",
    "X9z",
    "a",
    "zzzz",
];

/// all injective assignments of `slots.len()` slots to `class` (as index vectors)
fn injections(n: usize, m: usize) -> Vec<Vec<usize>> {
    fn rec(n: usize, m: usize, cur: &mut Vec<usize>, out: &mut Vec<Vec<usize>>) {
        if cur.len() == n {
            out.push(cur.clone());
            return;
        }
        for k in 0..m {
            if !cur.contains(&k) {
                cur.push(k);
                rec(n, m, cur, out);
                cur.pop();
            }
        }
    }
    let mut out = Vec::new();
    rec(n, m, &mut Vec::new(), &mut out);
    out
}

impl C14 {
    pub fn new() -> C14 {
        C14 {
            quick: Pool::new(599),
            thorough: Pool::new(97),
        }
    }
    fn pool(&self, tier: Tier) -> &Pool {
        tier.pick(&self.quick, &self.thorough)
    }

    /// signature with registers named (mapped back through `back`)
    fn sig(p: &Program, back: &BTreeMap<Reg, Reg>, label_back: &BTreeMap<String, String>) -> Result<Vec<(String, i64, String, String)>, String> {
        let r = render(p, &[]);
        let run = imp::analyze_text(&r.text).map_err(|p| p.0)?;
        let mut v: Vec<(String, i64, String, String)> = run
            .diags
            .iter()
            .map(|d| {
                let (code, si, role) = locate(&r, d);
                // the register the diagnostic designates, if its text is a register
                let text: String = r.text.chars().skip(d.start_raw).take(d.end_raw + 1 - d.start_raw).collect();
                let reg = ABI
                    .iter()
                    .position(|n| *n == text)
                    .map(|i| rn(*back.get(&(i as Reg)).unwrap_or(&(i as Reg))).to_string())
                    .unwrap_or_default();
                // a message that lists labels lists them in an order that does not depend on
                // how they are called (mapped back through the renaming)
                let role = match d.title.strip_prefix("Labels not defined: ") {
                    Some(list) => format!(
                        "{role}|{}",
                        list.split(", ").map(|n| label_back.get(n).cloned().unwrap_or_else(|| n.to_string())).collect::<Vec<_>>().join(",")
                    ),
                    None => role,
                };
                (code, si, role, reg)
            })
            .collect();
        v.sort();
        Ok(v)
    }
}

/// Templates the pool cannot contain: diagnostics whose place is chosen among several labels.
pub fn extra_templates() -> Vec<(Program, String)> {
    let exit = || vec![li(A7, 10), ecall()];
    let mut v = Vec::new();
    // an entry with two labels shared by two functions
    let mut s = vec![label("main"), call("fa"), call("fb"), call("fb2")];
    s.extend(exit());
    s.extend([label("fa"), addi(A0, A0, 1), label("fb"), label("fb2"), addi(A0, A0, 2), ret()]);
    v.push((Program { stmts: s }, "shared-entry-with-two-labels".to_string()));
    // two and three undefined labels
    let mut s = vec![label("main"), inst(Inst::Branch(BOp::Beq, T0, T1, "ua".into())), j("ub")];
    s.extend(exit());
    v.push((Program { stmts: s }, "two-undefined-labels".to_string()));
    let mut s = vec![label("main"), j("uc"), inst(Inst::Branch(BOp::Beq, T0, T1, "ua".into())), call("ub"), inst(Inst::La(T0, "ua".into()))];
    s.extend(exit());
    v.push((Program { stmts: s }, "three-undefined-labels".to_string()));
    // a duplicate label and an undefined one
    let mut s = vec![label("main"), j("ua"), label("da"), addi(T0, T0, 1), label("da")];
    s.extend(exit());
    v.push((Program { stmts: s }, "duplicate-and-undefined-label".to_string()));
    // a function that ends in a jump into another called function (a caller-saved register
    // flows across the jump)
    let mut s = vec![label("main"), li(A0, 1), call("helper"), li(A7, 1), ecall(), li(A0, 5), call("wrapper"), li(A7, 1), ecall()];
    s.extend(exit());
    s.extend([label("wrapper"), addi(A0, A0, 1), j("helper"), label("helper"), inst(Inst::R(ROp::Add, A0, A0, A0)), ret()]);
    v.push((Program { stmts: s }, "jump-into-a-called-function".to_string()));
    // a shared tail reached from two functions (the first shared instruction is reported)
    let mut s = vec![label("main"), call("fa"), call("fb")];
    s.extend(exit());
    s.extend([label("fa"), li(A0, 1), j("tail"), label("fb"), li(A0, 2), label("tail"), label("tail2"), addi(A0, A0, 1), ret()]);
    v.push((Program { stmts: s }, "shared-tail-with-two-labels".to_string()));
    // two temporaries live across one call and read by one instruction: the orbit contains
    // every pair of t0..t6, so a register set that loses one member in the company of another shows
    let mut s = vec![label("main"), li(T0, 1), li(T1, 2), call("fa"), inst(Inst::R(ROp::Add, A0, T0, T1)), li(A7, 1), ecall()];
    s.extend(exit());
    s.extend([label("fa"), li(A0, 3), ret()]);
    v.push((Program { stmts: s }, "two-temporaries-read-after-one-call".to_string()));
    v
}

impl Property for C14 {
    fn id(&self) -> &'static str {
        "C14"
    }
    fn cases(&self, tier: Tier) -> u64 {
        self.pool(tier).count() + extra_templates().len() as u64
    }
    fn chunk(&self, _tier: Tier) -> u64 {
        10
    }
    fn run_case(&self, tier: Tier, case: u64, acc: &mut Acc) {
        acc.count("cases", 1);
        let n_pool = self.pool(tier).count();
        let member = if case >= n_pool { extra_templates().into_iter().nth((case - n_pool) as usize) } else { self.pool(tier).get(case) };
        let Some((prog, tag)) = member else {
            acc.count("not_a_member", 1);
            return;
        };
        let ident = BTreeMap::new();
        let Ok(base) = Self::sig(&prog, &ident, &BTreeMap::new()) else {
            acc.count("analysis_panicked", 1);
            return;
        };
        acc.count("templates", 1);
        if !base.is_empty() {
            acc.count("nontrivial", 1);
        }
        let used = registers_used(&prog);
        let t_used: Vec<Reg> = used.iter().copied().filter(|r| TEMPS.contains(r)).collect();
        let s_used: Vec<Reg> = used.iter().copied().filter(|r| SAVEDS.contains(r)).collect();
        let labels = labels_mentioned(&prog);
        let mut variants: Vec<(String, BTreeMap<Reg, Reg>, BTreeMap<String, String>)> = Vec::new();
        // the full orbit of the temporaries the program mentions
        if t_used.len() <= 2 {
            for a in injections(t_used.len(), TEMPS.len()) {
                let m: BTreeMap<Reg, Reg> = t_used.iter().zip(a.iter()).map(|(r, k)| (*r, TEMPS[*k])).collect();
                variants.push(("temporaries".into(), m, BTreeMap::new()));
            }
        } else {
            let slots: Vec<Reg> = t_used.iter().copied().take(TEMPS.len()).collect();
            for (si, _) in slots.iter().enumerate() {
                for target in TEMPS {
                    let mut free = TEMPS.iter().copied().filter(|r| *r != target);
                    let m: BTreeMap<Reg, Reg> = slots.iter().enumerate().map(|(i, r)| (*r, if i == si { target } else { free.next().unwrap_or(*r) })).collect();
                    variants.push(("temporaries".into(), m, BTreeMap::new()));
                }
            }
            for rot in 0..TEMPS.len() {
                for rev in [false, true] {
                    let m: BTreeMap<Reg, Reg> = slots
                        .iter()
                        .enumerate()
                        .map(|(i, r)| {
                            let k = if rev { TEMPS.len() - 1 - i } else { i };
                            (*r, TEMPS[(k + rot) % TEMPS.len()])
                        })
                        .collect();
                    variants.push(("temporaries".into(), m, BTreeMap::new()));
                }
            }
        }
        // the full orbit of the saved registers the program mentions
        if s_used.len() <= 2 {
            for a in injections(s_used.len(), SAVEDS.len()) {
                let m: BTreeMap<Reg, Reg> = s_used.iter().zip(a.iter()).map(|(r, k)| (*r, SAVEDS[*k])).collect();
                variants.push(("saved".into(), m, BTreeMap::new()));
            }
        } else {
            // three or more saved registers: every single substitution (each slot takes each
            // register of the class, the others take the following free ones) and every rotation
            let slots: Vec<Reg> = s_used.iter().copied().take(SAVEDS.len()).collect();
            for (si, _) in slots.iter().enumerate() {
                for target in SAVEDS {
                    let mut free = SAVEDS.iter().copied().filter(|r| *r != target);
                    let m: BTreeMap<Reg, Reg> = slots.iter().enumerate().map(|(i, r)| (*r, if i == si { target } else { free.next().unwrap_or(*r) })).collect();
                    variants.push(("saved".into(), m, BTreeMap::new()));
                }
            }
            for rot in 0..SAVEDS.len() {
                for rev in [false, true] {
                    let m: BTreeMap<Reg, Reg> = slots
                        .iter()
                        .enumerate()
                        .map(|(i, r)| {
                            let k = if rev { SAVEDS.len() - 1 - i } else { i };
                            (*r, SAVEDS[(k + rot) % SAVEDS.len()])
                        })
                        .collect();
                    variants.push(("saved".into(), m, BTreeMap::new()));
                }
            }
        }
        // labels: every injective renaming for <= 2 labels; for more labels every single
        // substitution (each label takes each pool name while the others keep a fixed other
        // name) plus the rotations and reflections of the pool
        if labels.len() <= 2 {
            for a in injections(labels.len(), LABEL_POOL.len()) {
                let m: BTreeMap<String, String> = labels.iter().zip(a.iter()).map(|(l, k)| (l.clone(), LABEL_POOL[*k].to_string())).collect();
                variants.push(("labels".into(), BTreeMap::new(), m));
            }
        } else if labels.len() <= LABEL_POOL.len() {
            for (li, l) in labels.iter().enumerate() {
                // one name per shape: short, long, leading underscore(s), capital + digit, last in order
                for name in ["f", "aVeryLongLabelName_0123456789", "_x", "__init", "X9z", "zzzz", "__return__"] {
                    // the other labels take pool names in order, skipping `name`
                    let mut others = LABEL_POOL.iter().filter(|n| **n != name);
                    let m: BTreeMap<String, String> = labels
                        .iter()
                        .enumerate()
                        .map(|(i, x)| (x.clone(), if i == li { name.to_string() } else { others.next().unwrap_or(&"spare").to_string() }))
                        .collect();
                    let _ = l;
                    variants.push(("labels".into(), BTreeMap::new(), m));
                }
            }
            for rot in 0..LABEL_POOL.len() {
                for rev in [false, true] {
                    let m: BTreeMap<String, String> = labels
                        .iter()
                        .enumerate()
                        .map(|(i, l)| {
                            let k = if rev { LABEL_POOL.len() - 1 - i } else { i };
                            (l.clone(), LABEL_POOL[(k + rot) % LABEL_POOL.len()].to_string())
                        })
                        .collect();
                    variants.push(("labels".into(), BTreeMap::new(), m));
                }
            }
        }
        if case % 157 == 0 {
            acc.sample(json!({"case": case, "kind": tag, "template": prog.text(), "temporaries": t_used.iter().map(|r| rn(*r)).collect::<Vec<_>>(),
                              "saved": s_used.iter().map(|r| rn(*r)).collect::<Vec<_>>(), "labels": labels, "variants": variants.len()}));
        }
        for (what, regmap, labelmap) in variants {
            // a permutation must be injective on everything the program mentions: a target
            // that another (unmapped) register of the program already uses is swapped with it
            let mut full = regmap.clone();
            for (src, dst) in &regmap {
                if used.contains(dst) && !regmap.contains_key(dst) {
                    // complete to a permutation: dst -> some free source image
                    full.insert(*dst, *src);
                }
            }
            let images: Vec<Reg> = full.values().copied().collect();
            let mut uniq = images.clone();
            uniq.sort_unstable();
            uniq.dedup();
            if uniq.len() != images.len() {
                continue; // not a permutation of the registers in use
            }
            let renamed = rename(&prog, &full, &labelmap);
            let back: BTreeMap<Reg, Reg> = full.iter().map(|(a, b)| (*b, *a)).collect();
            acc.count("renamed_programs", 1);
            acc.count("traces", 1);
            let label_back: BTreeMap<String, String> = labelmap.iter().map(|(a, b)| (b.clone(), a.clone())).collect();
            match Self::sig(&renamed, &back, &label_back) {
                Ok(s) => {
                    if s != base {
                        let missing: Vec<_> = base.iter().filter(|x| !s.contains(x)).collect();
                        let extra: Vec<_> = s.iter().filter(|x| !base.contains(x)).collect();
                        let culprit = match what.as_str() {
                            "labels" => "labels".to_string(),
                            _ => full.iter().filter(|(a, b)| a != b).map(|(a, b)| format!("{}->{}", rn(*a), rn(*b))).collect::<Vec<_>>().join(","),
                        };
                        let first = missing.first().map(|m| format!("lost:{}", m.0)).or(extra.first().map(|e| format!("new:{}", e.0))).unwrap_or_default();
                        acc.violation(
                            format!("C14|{what}|{first}|{culprit}"),
                            case,
                            json!({"case": case, "kind": tag, "original": prog.text(), "renamed": renamed.text(),
                                   "register_map": full.iter().map(|(a, b)| format!("{}->{}", rn(*a), rn(*b))).collect::<Vec<_>>(),
                                   "label_map": labelmap, "missing": missing, "extra": extra}),
                        );
                        return;
                    }
                }
                Err(p) => {
                    acc.violation(format!("C14|{what}|panic"), case, json!({"case": case, "renamed": renamed.text(), "panic": p}));
                    return;
                }
            }
        }
        acc.outcome(&format!("equivariant:{tag}"), case);
    }
    fn show(&self, tier: Tier, case: u64) -> String {
        match self.pool(tier).get(case) {
            Some((p, t)) => format!("[{t}]\n{}", p.text()),
            None => "not a member".into(),
        }
    }
    fn replay(&self, w: &Value, acc: &mut Acc) {
        if let Some(case) = w["case"].as_u64() {
            for tier in [Tier::Quick, Tier::Thorough] {
                if case < self.cases(tier) {
                    if let Some((p, _)) = self.pool(tier).get(case) {
                        if Some(p.text().as_str()) == w["original"].as_str() {
                            self.run_case(tier, case, acc);
                            return;
                        }
                    }
                }
            }
        }
    }
    fn info(&self, tier: Tier) -> Info {
        Info {
            rule: "templates = program pool (every 599th / 97th member of the quick S family, clean and with each injected violation); for each template the orbit of the temporaries it mentions (every injective assignment for <= 2 t-slots; for more, every single substitution plus 14 rotations/reflections), the orbit of its saved registers (every injective assignment for <= 2 s-slots: 132; for more, every single substitution - each slot takes each of s0-s11 - plus 24 rotations/reflections), and label renamings from a pool of 12 identifiers differing in length, case, digits, leading underscores and sort order (all injective maps for <= 2 labels; otherwise every single substitution - each label takes one name of each shape (7, among them `__return__`) - plus 24 rotations/reflections): the diagnostics of the renamed program, positions compared by (statement index, operand role) and registers mapped back, must equal the template's. Non-trivial = templates that draw at least one diagnostic".into(),
            bounds: json!({"templates": self.pool(tier).count(), "t_class": 7, "s_class": 12, "label_pool": LABEL_POOL}),
            assumptions: vec!["canonical hash-order schedule; dependence on label hash order is C10's subject".into()],
            states_counter: "templates",
            transitions_counter: "renamed_programs",
            traces_counter: "traces",
            nontrivial_counter: "nontrivial",
            exhaustive: true,
        }
    }
}
