//! C04 — convention-conforming programs produce no diagnostics.

use crate::driver::*;
use crate::imp;
use crate::model::*;
use crate::sfam::*;
use serde_json::{json, Value};

pub struct C04 {
    quick: SSpace,
    thorough: SSpace,
}

impl C04 {
    pub fn new() -> C04 {
        C04 {
            quick: SSpace::new(Tier::Quick),
            thorough: SSpace::new(Tier::Thorough),
        }
    }
    fn space(&self, tier: Tier) -> &SSpace {
        tier.pick(&self.quick, &self.thorough)
    }

    pub fn run_program(&self, case: u64, sp: &SProgram, acc: &mut Acc) {
        let text = sp.program.text();
        let run = match imp::analyze_text(&text) {
            Ok(r) => r,
            Err(p) => {
                acc.count("analysis_panicked", 1);
                acc.outcome(&format!("panic:{}", p.0.chars().take(50).collect::<String>()), case);
                return;
            }
        };
        let cfg = match &run.cfg {
            Ok(c) => c,
            Err(e) => {
                acc.violation(
                    format!("C04|analysis-failed|{}", imp::cfg_error_code(e)),
                    case,
                    json!({"source": text, "case": case}),
                );
                return;
            }
        };
        // the member must really be conforming: confirmed by the monitor on every input
        let conf = match confirm(sp, cfg) {
            Ok(c) => c,
            // an execution that needs more steps than the horizon (deep recursion on a value
            // that grows in two nested loops) says nothing about conformance: not judged
            Err(e) if e.contains("ended with Horizon") => {
                acc.count("members_beyond_the_step_horizon", 1);
                acc.outcome("not-judged:execution-longer-than-the-horizon", case);
                return;
            }
            Err(e) => {
                acc.violation(
                    "C04|machinery|generated-program-not-conforming",
                    case,
                    json!({"source": text, "why": e, "case": case}),
                );
                return;
            }
        };
        acc.count("executions", conf.executions);
        acc.count("steps", conf.steps);
        // every computed value is read on some explored path (restores and sp excepted)
        let insts = sp.program.insts();
        for (i, inst) in insts.iter().enumerate() {
            // the exit ecall stops the machine before it is recorded as executed
            let exit_ecall = matches!(inst, Inst::Ecall) && i > 0 && matches!(insts[i - 1], Inst::Li(17, 10));
            if !conf.executed[i] && !exit_ecall {
                // a path of this member is infeasible on the explored inputs (a callee's
                // branch decided by its callers): the member cannot be confirmed
                // completely and is left out
                acc.count("members_with_unexplored_code", 1);
                acc.outcome("skipped:unexplored-code", case);
                return;
            }
            if let Some(d) = inst.dest() {
                let restore = matches!(inst, Inst::Load(..)) && (is_saved(d) || d == RA);
                let link = matches!(inst, Inst::Jal(..));
                if d != SP && !restore && !link && !conf.value_read[i] {
                    acc.violation(
                        "C04|machinery|value-never-read",
                        case,
                        json!({"source": text, "instruction": inst.base_text(), "index": i, "case": case}),
                    );
                    return;
                }
            }
        }
        acc.count("programs_confirmed", 1);
        acc.count("traces", 1);
        if sp.fns.len() > 1 || sp.fns.iter().any(|f| f.recursive || !f.callees.is_empty()) {
            acc.count("nontrivial", 1);
        }
        if run.diags.is_empty() {
            acc.outcome("clean", case);
            return;
        }
        // one class per (code, mnemonic of the blamed text)
        let d = &run.diags[0];
        let blamed: String = text.chars().skip(d.start_raw).take(d.end_raw + 1 - d.start_raw).collect();
        // which line?
        let line: String = text.lines().nth(d.start_line).unwrap_or("").trim().to_string();
        let mnemonic = line.split_whitespace().next().unwrap_or("").to_string();
        acc.violation(
            format!("C04|spurious|{}|{}|{}", d.code, mnemonic, if blamed.contains(' ') { "instruction".to_string() } else { blamed.clone() }),
            case,
            json!({"source": text, "case": case, "diagnostics": run.diags.iter().map(|d| json!({"code": d.code, "title": d.title, "line": d.start_line + 1, "text": text.chars().skip(d.start_raw).take(d.end_raw + 1 - d.start_raw).collect::<String>()})).collect::<Vec<_>>()}),
        );
    }
}

/// Hand-written conforming programs with shapes family S does not generate (a path that ends
/// the program inside a function, a routine's data between its label and its code). They are
/// small enough to be checked against the statement by reading them; the monitor does not run
/// on them.
pub fn fixed_conforming() -> Vec<(&'static str, &'static str)> {
    vec![
        ("abort-path-calls-a-routine", ".data\nmsg: .string \"negative\\n\"\n.text\nmain:\n    li a7, 5\n    ecall\n    jal ra, f\n    li a7, 1\n    ecall\n    li a7, 10\n    ecall\nf:\n    bltz a0, bad\n    addi a0, a0, 1\n    ret\nbad:\n    la a0, msg\n    jal ra, print\n    li a0, 1\n    li a7, 93\n    ecall\nprint:\n    li a7, 4\n    ecall\n    ret\n"),
        ("abort-path-uses-a-saved-register", "main:\n    li a7, 5\n    ecall\n    jal ra, f\n    li a7, 1\n    ecall\n    li a7, 10\n    ecall\nf:\n    bltz a0, bad\n    addi a0, a0, 1\n    ret\nbad:\n    mv s0, a0\n    li a0, 33\n    li a7, 11\n    ecall\n    mv a0, s0\n    li a7, 93\n    ecall\n"),
        ("routine-label-data-code", "main:\n    jal ra, greet\n    li a7, 10\n    ecall\ngreet:\n.data\nmsg: .string \"hi\\n\"\n.text\n    la a0, msg\n    li a7, 4\n    ecall\n    ret\n"),
        // interrupt handlers: a handler preserves every register it touches, temporaries included
        ("handler-saves-temporaries-on-the-stack", ".data\ncnt: .word 0\n.text\nmain:\n    la t0, handler\n    csrrw zero, utvec, t0\n    csrrsi zero, ustatus, 1\n    li s1, 0\nspin:\n    addi s1, s1, 1\n    li t3, 100000\n    blt s1, t3, spin\n    li a7, 10\n    ecall\nhandler:\n    addi sp, sp, -12\n    sw t1, 0(sp)\n    sw t2, 4(sp)\n    sw s0, 8(sp)\n    csrr t1, ucause\n    li t2, 1\n    sll s0, t2, t1\n    la t2, cnt\n    sw s0, 0(t2)\n    lw s0, 8(sp)\n    lw t2, 4(sp)\n    lw t1, 0(sp)\n    addi sp, sp, 12\n    uret\n"),
        ("handler-with-a-save-area-behind-uscratch", ".data\nsave: .space 32\n.text\nmain:\n    la t0, handler\n    csrrw zero, utvec, t0\n    la t1, save\n    csrrw zero, uscratch, t1\n    csrrsi zero, ustatus, 1\n    li s1, 0\nwait:\n    addi s1, s1, 1\n    li t3, 1000\n    blt s1, t3, wait\n    li a7, 10\n    ecall\nhandler:\n    csrrw t0, uscratch, t0\n    sw s0, 0(t0)\n    csrr s0, ucause\n    slli s0, s0, 1\n    sw s0, 4(t0)\n    lw s0, 0(t0)\n    csrrw t0, uscratch, t0\n    uret\n"),
        ("handler-calls-a-helper", ".data\nsave_area: .space 64\nticks: .word 0\n.text\nmain:\n    la t0, save_area\n    csrrw zero, uscratch, t0\n    la t0, handler\n    csrrw zero, utvec, t0\n    csrrsi zero, ustatus, 1\n    li s0, 0\nwait:\n    addi s0, s0, 1\n    li t1, 100000\n    blt s0, t1, wait\n    li a7, 10\n    ecall\nhandler:\n    csrr a0, uscratch\n    sw ra, 0(a0)\n    sw s0, 4(a0)\n    la s0, ticks\n    mv a0, s0\n    jal bump\n    csrr a0, uscratch\n    lw s0, 4(a0)\n    lw ra, 0(a0)\n    uret\nbump:\n    lw a1, 0(a0)\n    addi a1, a1, 1\n    sw a1, 0(a0)\n    ret\n"),
        ("handler-calls-a-helper-that-reads-another-csr", ".data\nsave_area: .space 64\nticks: .word 0\n.text\nmain:\n    la t0, save_area\n    csrrw zero, uscratch, t0\n    la t0, handler\n    csrrw zero, utvec, t0\n    csrrsi zero, ustatus, 1\n    li s0, 0\nwait:\n    addi s0, s0, 1\n    li t1, 100000\n    blt s0, t1, wait\n    li a7, 10\n    ecall\nhandler:\n    csrr a0, uscratch\n    sw ra, 0(a0)\n    sw s0, 4(a0)\n    jal cause\n    la s0, ticks\n    sw a0, 0(s0)\n    csrr a0, uscratch\n    lw s0, 4(a0)\n    lw ra, 0(a0)\n    uret\ncause:\n    csrr a0, ucause\n    andi a0, a0, 15\n    ret\n"),
        ("routine-shared-by-main-and-a-handler", ".data\nticks: .word 0\n.text\nmain:\n    la t0, handler\n    csrw t0, utvec\n    csrsi ustatus, 1\n    li a0, 3\n    jal work\n    li a7, 1\n    ecall\n    li a7, 10\n    ecall\nwork:\n    addi sp, sp, -8\n    sw ra, 0(sp)\n    sw s0, 4(sp)\n    mv s0, a0\n    la a0, ticks\n    jal bump\n    add a0, a0, s0\n    lw s0, 4(sp)\n    lw ra, 0(sp)\n    addi sp, sp, 8\n    ret\nbump:\n    lw t0, 0(a0)\n    addi t0, t0, 1\n    sw t0, 0(a0)\n    mv a0, t0\n    ret\nhandler:\n    addi sp, sp, -12\n    sw ra, 0(sp)\n    sw a0, 4(sp)\n    sw t0, 8(sp)\n    la a0, ticks\n    jal bump\n    lw t0, 8(sp)\n    lw a0, 4(sp)\n    lw ra, 0(sp)\n    addi sp, sp, 12\n    uret\n"),
        // floating-point data (the values do not matter to the analysis)
        ("float-data", ".data\nf: .float 3.14, .5, 1.\nd: .double 0.5, 2.25, .75, 2.\n.text\nmain:\n    li a7, 10\n    ecall\n"),
        ("branch-target-data-code", "main:\n    li a7, 5\n    ecall\n    beqz a0, done\n    li a7, 1\n    ecall\ndone:\n.data\nbye: .string \"bye\\n\"\n.text\n    la a0, bye\n    li a7, 4\n    ecall\n    li a7, 10\n    ecall\n"),
    ]
}

impl C04 {
    fn run_fixed(case: u64, i: usize, acc: &mut Acc) {
        let (name, text) = fixed_conforming()[i];
        acc.count("fixed_programs", 1);
        let Ok(run) = imp::analyze_text(text) else {
            acc.count("analysis_panicked", 1);
            return;
        };
        acc.count("traces", 1);
        if let Some(d) = run.diags.first() {
            acc.violation(
                format!("C04|fixed|spurious|{name}|{}", d.code),
                case,
                json!({"source": text, "case": case, "fixed_program": i, "diagnostics": run.diags.iter().map(|d| json!({"code": d.code, "title": d.title, "line": d.start_line + 1})).collect::<Vec<_>>()}),
            );
            return;
        }
        acc.outcome(&format!("clean:{name}"), case);
    }
}

impl Property for C04 {
    fn id(&self) -> &'static str {
        "C04"
    }
    fn cases(&self, tier: Tier) -> u64 {
        self.space(tier).count() + fixed_conforming().len() as u64
    }
    fn chunk(&self, _tier: Tier) -> u64 {
        600
    }
    fn run_case(&self, tier: Tier, case: u64, acc: &mut Acc) {
        acc.count("cases", 1);
        let n = self.space(tier).count();
        if case >= n {
            Self::run_fixed(case, (case - n) as usize, acc);
            return;
        }
        match self.space(tier).get(case) {
            Some(sp) => {
                if case % 3001 == 0 {
                    acc.sample(json!({"case": case, "source": sp.program.text()}));
                }
                self.run_program(case, &sp, acc)
            }
            None => acc.count("not_a_member", 1),
        }
    }
    fn show(&self, tier: Tier, case: u64) -> String {
        let n = self.space(tier).count();
        if case >= n {
            return fixed_conforming()[(case - n) as usize].1.to_string();
        }
        match self.space(tier).get(case) {
            Some(sp) => sp.program.text(),
            None => "not a member".into(),
        }
    }
    fn replay(&self, w: &Value, acc: &mut Acc) {
        if let Some(i) = w["fixed_program"].as_u64() {
            Self::run_fixed(w["case"].as_u64().unwrap_or(0), i as usize, acc);
            return;
        }
        if let Some(case) = w["case"].as_u64() {
            for tier in [Tier::Quick, Tier::Thorough] {
                if case < self.cases(tier) {
                    if let Some(sp) = self.space(tier).get(case) {
                        if Some(sp.program.text().as_str()) == w["source"].as_str() {
                            self.run_program(case, &sp, acc);
                            return;
                        }
                    }
                }
            }
        }
    }
    fn info(&self, tier: Tier) -> Info {
        Info {
            rule: "family S: main plus 1..3 functions; product of call-graph shape (chains, fan-out, diamonds, repeated calls, self-recursion) x per function {arity 0..2, returns or prints, body skeleton (straight, if, if-else, loop, loop-with-if, two returns), reads input or not, frame slot order, padding, second saved register}; every member is first executed under the convention monitor on every environment answer in {-1,0,1,2} x 2 register fills (saved registers/sp/ra restored, only defined registers read, no temporary alive across call/ecall, every computed value read, every instruction executed) and must then produce zero diagnostics from the whole pipeline. Non-trivial = programs with >= 2 functions, a nested call or recursion".into(),
            bounds: json!({"parts": self.space(tier).parts.iter().map(|(k, o)| json!({"functions": k, "options_per_function": o.count()})).collect::<Vec<_>>()}),
            assumptions: vec!["a member the monitor rejects is a generator defect and fails the run as a machinery class, never as a verdict about the analyzer".into()],
            states_counter: "programs_confirmed",
            transitions_counter: "steps",
            traces_counter: "executions",
            nontrivial_counter: "nontrivial",
            exhaustive: true,
        }
    }
}
