//! Surface forms of a program: styled rendering (meaning-preserving rewrites
//! R1..R13 for C13), consistent renaming of registers and labels (C14), and the
//! mapping of a diagnostic back to (statement index, operand role).

use crate::c09::scan;
use crate::imp::Diag;
use crate::model::*;
use std::collections::BTreeMap;

#[derive(Clone, Copy, Debug, PartialEq, Eq, PartialOrd, Ord)]
pub enum Rewrite {
    ExtraSpaces,
    Tabs,
    NoCommas,
    DoubleCommas,
    TrailingComment,
    BlankLines,
    UpperMnemonic,
    NumericRegisters,
    HexImmediates,
    BinaryImmediates,
    LabelOnSameLine,
    OmitZeroOffset,
    ExpandPseudo,
}
pub const REWRITES: [Rewrite; 13] = [
    Rewrite::ExtraSpaces,
    Rewrite::Tabs,
    Rewrite::NoCommas,
    Rewrite::DoubleCommas,
    Rewrite::TrailingComment,
    Rewrite::BlankLines,
    Rewrite::UpperMnemonic,
    Rewrite::NumericRegisters,
    Rewrite::HexImmediates,
    Rewrite::BinaryImmediates,
    Rewrite::LabelOnSameLine,
    Rewrite::OmitZeroOffset,
    Rewrite::ExpandPseudo,
];

fn reg_of_name(t: &str) -> Option<Reg> {
    ABI.iter().position(|n| *n == t).map(|i| i as Reg)
}

/// role of every token of a statement's text, by position
fn roles(tokens: &[String]) -> Vec<String> {
    let mut out = Vec::new();
    let mut regs = 0;
    for (i, t) in tokens.iter().enumerate() {
        if i == 0 {
            out.push("mnemonic".to_string());
        } else if t == "(" || t == ")" {
            out.push("paren".to_string());
        } else if reg_of_name(t).is_some() || (t.starts_with('x') && t[1..].parse::<u8>().is_ok()) {
            regs += 1;
            out.push(format!("reg{regs}"));
        } else if t.parse::<i64>().is_ok() || t.starts_with("0x") || t.starts_with("-0x") || t.starts_with("0b") || t.starts_with("-0b") {
            out.push("imm".to_string());
        } else {
            out.push("label".to_string());
        }
    }
    out
}

/// Operand roles that are comparable between a pseudo-instruction and its
/// expansion: registers are named by what they are (rd / rs1 / rs2) where the
/// semantic instruction tells.
fn semantic_roles(text_tokens: &[String], inst: &Inst) -> Vec<String> {
    let pos = roles(text_tokens);
    let rd = inst.dest();
    let mut out = Vec::new();
    let mut seen_rd = false;
    let mut src = 0;
    for (t, p) in text_tokens.iter().zip(pos.iter()) {
        if p.starts_with("reg") {
            let r = reg_of_name(t).or_else(|| t[1..].parse::<u8>().ok());
            let writes_first = !matches!(inst, Inst::Store(..) | Inst::Branch(..));
            if writes_first && !seen_rd {
                seen_rd = true;
                out.push("rd".to_string());
                let _ = (r, rd);
            } else {
                src += 1;
                out.push(format!("rs{src}"));
            }
        } else {
            out.push(p.clone());
        }
    }
    out
}

#[derive(Clone, Debug)]
pub struct Rendered {
    pub text: String,
    /// per statement: (start offset, token spans (absolute), roles)
    pub stmts: Vec<(usize, Vec<(usize, usize)>, Vec<String>)>,
    /// the statement is written as a pseudo-instruction in the plain form: some of
    /// its registers are implicit there and are designated through the mnemonic
    pub pseudo: Vec<bool>,
}

fn style_imm(v: i64, set: &[Rewrite]) -> String {
    if set.contains(&Rewrite::HexImmediates) {
        if v < 0 {
            format!("-0x{:x}", -v)
        } else {
            format!("0x{v:X}")
        }
    } else if set.contains(&Rewrite::BinaryImmediates) {
        if v < 0 {
            format!("-0b{:b}", -v)
        } else {
            format!("0b{v:b}")
        }
    } else {
        v.to_string()
    }
}

/// The text of one instruction under a set of rewrites; returns tokens in order
/// with a flag whether a token is glued to its predecessor (memory operands).
fn styled_tokens(text: &str, inst: &Inst, set: &[Rewrite]) -> (Vec<String>, Vec<String>) {
    // which spelling?
    let mut spelling = text.to_string();
    if set.contains(&Rewrite::ExpandPseudo) {
        spelling = match inst {
            Inst::Li(rd, v) if (-2048..=2047).contains(v) && text.starts_with("li ") => {
                format!("addi {}, zero, {}", rn(*rd), v)
            }
            Inst::I(IOp::Addi, rd, rs, 0) if text.starts_with("mv ") => format!("addi {}, {}, 0", rn(*rd), rn(*rs)),
            Inst::Jal(0, l) if text.starts_with("j ") => format!("jal zero, {l}"),
            Inst::Jal(1, l) if text.starts_with("jal ") && text.split_whitespace().count() == 2 => format!("jal ra, {l}"),
            // the memory-operand spelling, so that "omit the zero offset" composes with it
            Inst::Jalr(0, 1, 0) if text == "ret" => "jalr zero, 0(ra)".to_string(),
            _ => spelling,
        };
    }
    let cs: Vec<char> = spelling.chars().collect();
    let toks: Vec<String> = scan(&spelling)
        .into_iter()
        .map(|(s, e)| cs[s..=e].iter().collect())
        .collect();
    let rl = semantic_roles(&toks, inst);
    let mut out = Vec::new();
    for (i, t) in toks.iter().enumerate() {
        let role = &rl[i];
        let s = if i == 0 {
            if set.contains(&Rewrite::UpperMnemonic) {
                t.to_uppercase()
            } else {
                t.clone()
            }
        } else if role == "rd" || role.starts_with("rs") {
            match reg_of_name(t) {
                Some(r) if set.contains(&Rewrite::NumericRegisters) => format!("x{r}"),
                _ => t.clone(),
            }
        } else if role == "imm" {
            match t.parse::<i64>() {
                Ok(v) => style_imm(v, set),
                Err(_) => t.clone(),
            }
        } else {
            t.clone()
        };
        out.push(s);
    }
    (out, rl)
}

pub fn render(p: &Program, set: &[Rewrite]) -> Rendered {
    let sep = if set.contains(&Rewrite::Tabs) { "\t" } else { " " };
    let wide = set.contains(&Rewrite::ExtraSpaces);
    let indent = if set.contains(&Rewrite::Tabs) {
        "\t".to_string()
    } else if wide {
        "      ".to_string()
    } else {
        "    ".to_string()
    };
    let comma = if set.contains(&Rewrite::NoCommas) {
        sep.to_string()
    } else if set.contains(&Rewrite::DoubleCommas) {
        format!(",,{sep}")
    } else if wide {
        format!(" ,{sep}{sep}")
    } else {
        format!(",{sep}")
    };
    let mut text = String::new();
    let mut len = 0usize; // characters so far
    let mut stmts = Vec::new();
    let mut pseudo = Vec::new();
    let mut pending_label_on_line = false;
    let push = |text: &mut String, len: &mut usize, s: &str| {
        text.push_str(s);
        *len += s.chars().count();
    };
    for (si, st) in p.stmts.iter().enumerate() {
        match st {
            Stmt::Label(l) => {
                let start = len;
                let t = format!("{l}:");
                push(&mut text, &mut len, &t);
                stmts.push((start, vec![(start, start + t.chars().count() - 1)], vec!["label-def".to_string()]));
                pseudo.push(false);
                // same line as the following instruction?
                let next_is_inst = matches!(p.stmts.get(si + 1), Some(Stmt::Inst(..)));
                if set.contains(&Rewrite::LabelOnSameLine) && next_is_inst {
                    push(&mut text, &mut len, sep);
                    pending_label_on_line = true;
                } else {
                    push(&mut text, &mut len, "\n");
                }
            }
            Stmt::Directive(d) => {
                let start = len;
                push(&mut text, &mut len, d);
                // a comment behind a directive (a data list may go on in the next line)
                if set.contains(&Rewrite::TrailingComment) && !d.contains('"') {
                    push(&mut text, &mut len, "  # data");
                }
                push(&mut text, &mut len, "\n");
                stmts.push((start, vec![(start, start + d.chars().count().max(1) - 1)], vec!["directive".to_string()]));
                pseudo.push(false);
            }
            Stmt::Inst(t, inst) => {
                if !pending_label_on_line {
                    push(&mut text, &mut len, &indent);
                }
                pending_label_on_line = false;
                let start = len;
                let (toks, rl) = styled_tokens(t, inst, set);
                let mut spans = Vec::new();
                let mut roles_out = Vec::new();
                let mut k = 0;
                while k < toks.len() {
                    // memory operand: imm ( reg )
                    let is_mem = k + 3 < toks.len() && toks[k + 1] == "(" && toks[k + 3] == ")";
                    if k == 1 {
                        push(&mut text, &mut len, sep);
                        if wide {
                            push(&mut text, &mut len, sep);
                        }
                    } else if k > 1 {
                        push(&mut text, &mut len, &comma);
                    }
                    if is_mem {
                        let zero = matches!(toks[k].as_str(), "0" | "0x0" | "0b0");
                        if !(zero && set.contains(&Rewrite::OmitZeroOffset)) {
                            let s0 = len;
                            push(&mut text, &mut len, &toks[k]);
                            spans.push((s0, len - 1));
                            roles_out.push(rl[k].clone());
                        }
                        for j in 1..4 {
                            let s0 = len;
                            push(&mut text, &mut len, &toks[k + j]);
                            spans.push((s0, len - 1));
                            roles_out.push(rl[k + j].clone());
                        }
                        k += 4;
                    } else {
                        let s0 = len;
                        push(&mut text, &mut len, &toks[k]);
                        spans.push((s0, len - 1));
                        roles_out.push(rl[k].clone());
                        k += 1;
                    }
                }
                if set.contains(&Rewrite::TrailingComment) {
                    push(&mut text, &mut len, "  # c");
                }
                push(&mut text, &mut len, "\n");
                if set.contains(&Rewrite::BlankLines) {
                    push(&mut text, &mut len, "\n");
                }
                stmts.push((start, spans, roles_out));
                pseudo.push(*t != inst.base_text());
            }
        }
    }
    Rendered { text, stmts, pseudo }
}

/// (code, statement index, role) of a diagnostic; role = the operand it
/// designates, "whole" for mnemonic-through-last-operand, else a raw description.
pub fn locate(r: &Rendered, d: &Diag) -> (String, i64, String) {
    for (si, (_, spans, roles)) in r.stmts.iter().enumerate() {
        if spans.is_empty() {
            continue;
        }
        let first = spans[0].0;
        let last = spans[spans.len() - 1].1;
        if d.start_raw >= first && d.start_raw <= last {
            // a statement of one token (`ret`, `ecall`, `nop`) is its own mnemonic: whether a
            // diagnostic means the instruction or a register implied by it follows from its kind
            const ABOUT_THE_INSTRUCTION: [&str; 10] = [
                "unreachable-code", "invalid-segment", "node-in-many-functions", "unknown-stack", "invalid-stack-pointer",
                "invalid-stack-position", "invalid-stack-offset-usage", "unknown-ecall", "first-instruction-is-function", "invalid-jump-to-function",
            ];
            if (d.start_raw, d.end_raw) == (first, last) && (spans.len() > 1 || ABOUT_THE_INSTRUCTION.contains(&d.code.as_str())) {
                // a diagnostic about a register that the statement does not write out (the `ra` of
                // `call f`) designates the statement
                if r.pseudo[si] && !ABOUT_THE_INSTRUCTION.contains(&d.code.as_str()) {
                    return (d.code.clone(), si as i64, "register (explicit or implicit)".into());
                }
                return (d.code.clone(), si as i64, "whole".into());
            }
            for (k, sp) in spans.iter().enumerate() {
                if (d.start_raw, d.end_raw) == *sp {
                    let role = roles[k].clone();
                    // an implicit register of a pseudo-instruction is designated by the
                    // mnemonic, the same register of its expansion by an operand
                    if r.pseudo[si] && matches!(role.as_str(), "mnemonic" | "rd" | "rs1" | "rs2") {
                        return (d.code.clone(), si as i64, "register (explicit or implicit)".into());
                    }
                    return (d.code.clone(), si as i64, role);
                }
            }
            return (d.code.clone(), si as i64, format!("span+{}..+{}", d.start_raw - first, d.end_raw as i64 - first as i64));
        }
    }
    (d.code.clone(), -1, format!("file{}@{}", d.file, d.start_raw))
}

pub fn signature(r: &Rendered, diags: &[Diag]) -> Vec<(String, i64, String)> {
    let mut v: Vec<_> = diags.iter().map(|d| locate(r, d)).collect();
    v.sort();
    v
}

// ------------------------------------------------------------------ renaming

/// Apply a register permutation and a label renaming to a program.
pub fn rename(p: &Program, regmap: &BTreeMap<Reg, Reg>, labelmap: &BTreeMap<String, String>) -> Program {
    let mr = |r: Reg| -> Reg { *regmap.get(&r).unwrap_or(&r) };
    let ml = |l: &str| -> String { labelmap.get(l).cloned().unwrap_or_else(|| l.to_string()) };
    let stmts = p
        .stmts
        .iter()
        .map(|s| match s {
            Stmt::Label(l) => Stmt::Label(ml(l)),
            Stmt::Directive(d) => Stmt::Directive(d.clone()),
            Stmt::Inst(text, inst) => {
                let cs: Vec<char> = text.chars().collect();
                let spans = scan(text);
                let mut out = String::new();
                let mut prev = 0usize;
                for (s0, e0) in spans {
                    out.extend(cs[prev..s0].iter());
                    let tok: String = cs[s0..=e0].iter().collect();
                    let new = if let Some(r) = reg_of_name(&tok) {
                        rn(mr(r)).to_string()
                    } else if labelmap.contains_key(&tok) {
                        ml(&tok)
                    } else {
                        tok
                    };
                    out.push_str(&new);
                    prev = e0 + 1;
                }
                out.extend(cs[prev..].iter());
                let ni = match inst {
                    Inst::R(op, a, b, c) => Inst::R(*op, mr(*a), mr(*b), mr(*c)),
                    Inst::I(op, a, b, i) => Inst::I(*op, mr(*a), mr(*b), *i),
                    Inst::Lui(a, i) => Inst::Lui(mr(*a), *i),
                    Inst::Auipc(a, i) => Inst::Auipc(mr(*a), *i),
                    Inst::Li(a, i) => Inst::Li(mr(*a), *i),
                    Inst::Load(op, a, b, i) => Inst::Load(*op, mr(*a), mr(*b), *i),
                    Inst::Store(op, a, b, i) => Inst::Store(*op, mr(*a), mr(*b), *i),
                    Inst::Branch(op, a, b, l) => Inst::Branch(*op, mr(*a), mr(*b), ml(l)),
                    Inst::Jal(a, l) => Inst::Jal(mr(*a), ml(l)),
                    Inst::Jalr(a, b, i) => Inst::Jalr(mr(*a), mr(*b), *i),
                    Inst::La(a, l) => Inst::La(mr(*a), ml(l)),
                    Inst::LaUpper(a, l, lo) => Inst::LaUpper(mr(*a), ml(l), *lo),
                    Inst::Ecall => Inst::Ecall,
                    Inst::Csr(op, a, c, b) => Inst::Csr(*op, mr(*a), *c, mr(*b)),
                    Inst::CsrI(op, a, c, i) => Inst::CsrI(*op, mr(*a), *c, *i),
                };
                Stmt::Inst(out, ni)
            }
        })
        .collect();
    Program { stmts }
}

pub fn registers_used(p: &Program) -> Vec<Reg> {
    let mut v = Vec::new();
    for i in p.insts() {
        for r in i.sources().into_iter().chain(i.dest()) {
            if !v.contains(&r) {
                v.push(r);
            }
        }
    }
    v.sort_unstable();
    v
}

/// every label name the program mentions, defined or only used
pub fn labels_mentioned(p: &Program) -> Vec<String> {
    let mut v = labels_defined(p);
    for i in p.insts() {
        let l = match i {
            Inst::Jal(_, l) | Inst::Branch(_, _, _, l) | Inst::La(_, l) | Inst::LaUpper(_, l, _) => l.clone(),
            _ => continue,
        };
        if !v.contains(&l) {
            v.push(l);
        }
    }
    v
}

pub fn labels_defined(p: &Program) -> Vec<String> {
    p.stmts
        .iter()
        .filter_map(|s| match s {
            Stmt::Label(l) => Some(l.clone()),
            _ => None,
        })
        .collect()
}
