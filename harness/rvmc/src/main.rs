//! rvmc — bounded-exhaustive model checking harness for riscv-analysis.
//!
//!   rvmc check  <ID> <quick|thorough>
//!   rvmc replay <ID> <replay.json>
//!   rvmc worker <ID> <tier> <lo> <hi> <idxfile>      (internal)

mod c01;
mod c02;
mod c03;
mod c04;
mod c05;
mod c06;
mod c07;
mod c08;
mod c09;
mod c10;
mod c11;
mod c12;
mod c13;
mod c14;
mod c15;
mod c16;
mod c17;
mod c18;
mod c19;
mod cli;
mod driver;
mod dump;
mod exec;
mod gen;
mod imp;
mod loc;
mod model;
mod pool;
mod sched;
mod sfam;
mod surface;
mod xlate;

use driver::*;

pub fn profile() -> &'static str {
    if cfg!(debug_assertions) {
        "checked"
    } else {
        "release"
    }
}

fn property(id: &str) -> Option<Box<dyn Property>> {
    Some(match id {
        "C01" => Box::new(c01::C01::new()),
        "C02" => Box::new(c02::C02::new()),
        "C03" => Box::new(c03::C03::new()),
        "C04" => Box::new(c04::C04::new()),
        "C05" => Box::new(c05::C05::new()),
        "C06" => Box::new(c06::C06::new()),
        "C07" => Box::new(c07::C07::new()),
        "C08" => Box::new(c08::C08::new()),
        "C09" => Box::new(c09::C09::new()),
        "C10" => Box::new(c10::C10::new()),
        "C11" => Box::new(c11::C11::new()),
        "C12" => Box::new(c12::C12::new()),
        "C13" => Box::new(c13::C13::new()),
        "C14" => Box::new(c14::C14::new()),
        "C15" => Box::new(c15::C15::new()),
        "C16" => Box::new(c16::C16::new()),
        "C17" => Box::new(c17::C17::new()),
        "C18" => Box::new(c18::C18::new()),
        "C19" => Box::new(c19::C19::new()),
        _ => return None,
    })
}

fn main() {
    let args: Vec<String> = std::env::args().collect();
    let code = real_main(&args);
    std::process::exit(code);
}

fn real_main(args: &[String]) -> i32 {
    if args.len() < 3 {
        eprintln!("usage: rvmc check <ID> <tier> | replay <ID> <file> | worker ...");
        return 2;
    }
    let Some(p) = property(&args[2]) else {
        eprintln!("unknown property {}", args[2]);
        return 2;
    };
    match args[1].as_str() {
        "worker" => {
            let tier = Tier::parse(&args[3]).expect("tier");
            let lo: u64 = args[4].parse().expect("lo");
            let hi: u64 = args[5].parse().expect("hi");
            worker_main(p.as_ref(), tier, lo, hi, &args[6])
        }
        "check" => {
            let tier = args
                .get(3)
                .and_then(|t| Tier::parse(t))
                .or_else(|| std::env::var("VERIF_TIER").ok().and_then(|t| Tier::parse(&t)))
                .unwrap_or(Tier::Quick);
            let seed: u64 = std::env::var("VERIF_SEED")
                .ok()
                .and_then(|s| s.parse().ok())
                .unwrap_or(0);
            if let Err(e) = model::alu_selfcheck() {
                eprintln!("MACHINERY-ERROR: {e}");
                return 2;
            }
            let res = run_cases(p.as_ref(), tier, seed);
            let code = conclude(p.as_ref(), tier, seed, res);
            remove_scratch();
            code
        }
        "show" => {
            let tier = Tier::parse(&args[3]).expect("tier");
            let case: u64 = args[4].parse().expect("case");
            println!("{}", p.show(tier, case));
            let mut acc = Acc::default();
            std::panic::set_hook(Box::new(|_| {}));
            p.run_case(tier, case, &mut acc);
            for (c, (_, v)) in &acc.violations {
                println!("VIOLATION {c}\n{}", serde_json::to_string_pretty(&v.witness).unwrap());
            }
            println!("outcomes: {:?}", acc.outcomes.keys().collect::<Vec<_>>());
            println!("counters: {:?}", acc.counters);
            0
        }
        "replay" => {
            let text = std::fs::read_to_string(&args[3]).expect("replay file");
            let v: serde_json::Value = serde_json::from_str(&text).expect("replay json");
            let w = if v.get("witness").is_some() { v["witness"].clone() } else { v };
            std::panic::set_hook(Box::new(|_| {}));
            // replay twice: identical observations are required before trusting a failure
            let mut a1 = Acc::default();
            p.replay(&w, &mut a1);
            let mut a2 = Acc::default();
            p.replay(&w, &mut a2);
            let k1: Vec<_> = a1.violations.keys().cloned().collect();
            let k2: Vec<_> = a2.violations.keys().cloned().collect();
            if k1 != k2 {
                eprintln!("MACHINERY-ERROR: replay is not deterministic: {k1:?} vs {k2:?}");
                return 2;
            }
            if k1.is_empty() {
                println!("replay: no violation reproduced");
                0
            } else {
                for (c, (_, v)) in &a1.violations {
                    println!("replay: {c}");
                    println!("{}", serde_json::to_string_pretty(&v.witness).unwrap());
                }
                1
            }
        }
        _ => 2,
    }
}
