//! Structural translation of the implementation's parser nodes into the
//! harness AST (field mapping only, no semantics), and semantic equivalence
//! of two instructions by exhaustive execution over the boundary grid.

use crate::model::*;
use riscv_analysis::parser::{
    ArithType, BasicType, BranchType, CsrIType, CsrType, IArithType, LoadType, ParserNode,
    Register, StoreType,
};

pub fn reg_num(r: &Register) -> Reg {
    r.to_num()
}

pub fn node_to_inst(n: &ParserNode) -> Option<Inst> {
    Some(match n {
        ParserNode::Arith(x) => {
            let op = match x.inst.get() {
                ArithType::Add => ROp::Add,
                ArithType::Sub => ROp::Sub,
                ArithType::And => ROp::And,
                ArithType::Or => ROp::Or,
                ArithType::Xor => ROp::Xor,
                ArithType::Sll => ROp::Sll,
                ArithType::Srl => ROp::Srl,
                ArithType::Sra => ROp::Sra,
                ArithType::Slt => ROp::Slt,
                ArithType::Sltu => ROp::Sltu,
                ArithType::Mul => ROp::Mul,
                ArithType::Mulh => ROp::Mulh,
                ArithType::Mulhsu => ROp::Mulhsu,
                ArithType::Mulhu => ROp::Mulhu,
                ArithType::Div => ROp::Div,
                ArithType::Divu => ROp::Divu,
                ArithType::Rem => ROp::Rem,
                ArithType::Remu => ROp::Remu,
                _ => return None,
            };
            Inst::R(op, reg_num(x.rd.get()), reg_num(x.rs1.get()), reg_num(x.rs2.get()))
        }
        ParserNode::IArith(x) => {
            let rd = reg_num(x.rd.get());
            let rs1 = reg_num(x.rs1.get());
            let imm = x.imm.get().value();
            let op = match x.inst.get() {
                IArithType::Addi => IOp::Addi,
                IArithType::Andi => IOp::Andi,
                IArithType::Ori => IOp::Ori,
                IArithType::Xori => IOp::Xori,
                IArithType::Slli => IOp::Slli,
                IArithType::Srli => IOp::Srli,
                IArithType::Srai => IOp::Srai,
                IArithType::Slti => IOp::Slti,
                IArithType::Sltiu => IOp::Sltiu,
                // the node stores the already shifted value
                IArithType::Lui => return Some(Inst::Li(rd, imm)),
                // the node stores the already shifted value
                IArithType::Auipc if rs1 == 0 => return Some(Inst::Auipc(rd, ((imm as u32) >> 12) as i32)),
                _ => return None,
            };
            Inst::I(op, rd, rs1, imm)
        }
        ParserNode::JumpLink(x) => Inst::Jal(reg_num(x.rd.get()), x.name.get().as_str().to_string()),
        ParserNode::JumpLinkR(x) => Inst::Jalr(
            reg_num(x.rd.get()),
            reg_num(x.rs1.get()),
            x.imm.get().value(),
        ),
        ParserNode::Basic(x) => match x.inst.get() {
            BasicType::Ecall => Inst::Ecall,
            _ => return None,
        },
        ParserNode::Branch(x) => {
            let op = match x.inst.get() {
                BranchType::Beq => BOp::Beq,
                BranchType::Bne => BOp::Bne,
                BranchType::Blt => BOp::Blt,
                BranchType::Bge => BOp::Bge,
                BranchType::Bltu => BOp::Bltu,
                BranchType::Bgeu => BOp::Bgeu,
            };
            Inst::Branch(
                op,
                reg_num(x.rs1.get()),
                reg_num(x.rs2.get()),
                x.name.get().as_str().to_string(),
            )
        }
        ParserNode::Store(x) => {
            let op = match x.inst.get() {
                StoreType::Sb => SOp::Sb,
                StoreType::Sh => SOp::Sh,
                StoreType::Sw => SOp::Sw,
            };
            Inst::Store(
                op,
                reg_num(x.rs2.get()),
                reg_num(x.rs1.get()),
                x.imm.get().value(),
            )
        }
        ParserNode::Load(x) => {
            let op = match x.inst.get() {
                LoadType::Lb => LOp::Lb,
                LoadType::Lbu => LOp::Lbu,
                LoadType::Lh => LOp::Lh,
                LoadType::Lhu => LOp::Lhu,
                LoadType::Lw => LOp::Lw,
                LoadType::Lwu => return None,
            };
            Inst::Load(
                op,
                reg_num(x.rd.get()),
                reg_num(x.rs1.get()),
                x.imm.get().value(),
            )
        }
        ParserNode::LoadAddr(x) => Inst::La(reg_num(x.rd.get()), x.name.get().as_str().to_string()),
        ParserNode::Csr(x) => {
            let op = match x.inst.get() {
                CsrType::Csrrw => CsrOp::Rw,
                CsrType::Csrrs => CsrOp::Rs,
                CsrType::Csrrc => CsrOp::Rc,
            };
            Inst::Csr(op, reg_num(x.rd.get()), x.csr.get().value(), reg_num(x.rs1.get()))
        }
        ParserNode::CsrI(x) => {
            let op = match x.inst.get() {
                CsrIType::Csrrwi => CsrOp::Rw,
                CsrIType::Csrrsi => CsrOp::Rs,
                CsrIType::Csrrci => CsrOp::Rc,
            };
            Inst::CsrI(
                op,
                reg_num(x.rd.get()),
                x.csr.get().value(),
                x.imm.get().value() as u32,
            )
        }
        ParserNode::ProgramEntry(_)
        | ParserNode::FuncEntry(_)
        | ParserNode::Label(_)
        | ParserNode::Directive(_) => return None,
    })
}

/// Observable effect of executing one instruction sequence from a state.
#[derive(PartialEq, Eq, Debug, Clone)]
pub struct Effect {
    pub regs: [u32; 32],
    pub mem: Vec<(u32, u8)>,
    pub csr: Vec<(u32, u32)>,
    pub next: Option<usize>,
    pub stop: Option<String>,
}

fn run_seq(seq: &[Inst], m0: &Machine) -> Effect {
    // program: seq; then label L on a trailing marker instruction, so that a
    // taken branch/jump to L and a fall-through are distinguishable.
    let mut stmts: Vec<Stmt> = seq.iter().cloned().map(inst).collect();
    stmts.push(inst(Inst::I(IOp::Addi, 0, 0, 0))); // index n: fall-through lands here
    stmts.push(label("L"));
    stmts.push(inst(Inst::I(IOp::Addi, 0, 0, 0))); // index n+1: target L
    stmts.push(Stmt::Directive(".data".into()));
    stmts.push(label("D"));
    stmts.push(Stmt::Directive(".word 7".into()));
    let p = Program { stmts };
    let img = Image::new(&p);
    let mut m = m0.clone();
    m.pc = 0;
    let mut env = Env::new(vec![0x77]);
    let mut stop = None;
    let n = seq.len();
    while m.pc < n {
        match step(&img, &mut m, &mut env) {
            Ok(_) => {}
            Err(s) => {
                stop = Some(format!("{s:?}"));
                break;
            }
        }
    }
    let mut mem: Vec<_> = m.mem.iter().map(|(a, b)| (*a, *b)).collect();
    mem.sort_unstable();
    let mut csr: Vec<_> = m.csr.iter().map(|(a, b)| (*a, *b)).collect();
    csr.sort_unstable();
    Effect {
        regs: m.regs,
        mem,
        csr,
        next: if stop.is_some() { None } else { Some(m.pc) },
        stop,
    }
}

/// Are two instruction sequences semantically equal? Every register they
/// mention takes all values of `vals` (pairwise for two registers); returns a
/// counterexample description.
pub fn equivalent(a: &[Inst], b: &[Inst], vals: &[u32]) -> Result<u64, String> {
    let mut regs: Vec<Reg> = Vec::new();
    for i in a.iter().chain(b.iter()) {
        for r in i.sources() {
            if !regs.contains(&r) {
                regs.push(r);
            }
        }
    }
    regs.truncate(2);
    let mut n = 0u64;
    let combos: Vec<(u32, u32)> = match regs.len() {
        0 => vec![(0, 0)],
        1 => vals.iter().map(|v| (*v, 0)).collect(),
        _ => vals
            .iter()
            .flat_map(|x| vals.iter().map(move |y| (*x, *y)))
            .collect(),
    };
    for (x, y) in combos {
        let mut m = Machine::new(1);
        // memory accesses need aligned plausible addresses: values are used as is;
        // misaligned faults must then agree as well.
        if let Some(r) = regs.first() {
            m.set(*r, x);
        }
        if let Some(r) = regs.get(1) {
            m.set(*r, y);
        }
        let ea = run_seq(a, &m);
        let eb = run_seq(b, &m);
        n += 1;
        if ea != eb {
            let mut diff = String::new();
            for i in 0..32 {
                if ea.regs[i] != eb.regs[i] {
                    diff.push_str(&format!(
                        " {}: {:#x} vs {:#x};",
                        rn(i as u8),
                        ea.regs[i],
                        eb.regs[i]
                    ));
                }
            }
            if ea.next != eb.next {
                diff.push_str(&format!(" next: {:?} vs {:?};", ea.next, eb.next));
            }
            if ea.mem != eb.mem {
                diff.push_str(" memory differs;");
            }
            if ea.csr != eb.csr {
                diff.push_str(" csr differs;");
            }
            if ea.stop != eb.stop {
                diff.push_str(&format!(" stop: {:?} vs {:?};", ea.stop, eb.stop));
            }
            return Err(format!(
                "with {}={:#x}, {}={:#x}:{}",
                regs.first().map(|r| rn(*r)).unwrap_or("-"),
                x,
                regs.get(1).map(|r| rn(*r)).unwrap_or("-"),
                y,
                diff
            ));
        }
    }
    Ok(n)
}
