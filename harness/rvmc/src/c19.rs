//! C19 — the CFG debug dump is a faithful, reloadable serialization.
//!
//! (a) every value kind that can appear in a dump (all AvailableValue variants,
//! MemoryLocation variants, register sets) over boundary parameters: round
//! trip dump -> load -> dump, field-wise equality, pairwise injectivity.
//! (b) the dump of every kernel program: round trip, and every single-fact
//! perturbation of the analysis result (edge, live set, value fact) must
//! change the dump; the CLI's --yaml output carries the same content.

use riscv_analysis::parser::InstructionProperties as _;
use crate::cli;
use crate::driver::*;
use crate::gen::*;
use crate::imp;
use riscv_analysis::analysis::{AvailableValue, MemoryLocation};
use riscv_analysis::cfg::{AvailableValueMap, Cfg, CfgWrapper, NodeWrapper, RegisterSet};
use riscv_analysis::parser::{CsrImm, LabelString, ParserNode, Register, Token, With};
use serde_json::{json, Value};
use std::collections::{HashMap, HashSet};
use std::panic::{catch_unwind, AssertUnwindSafe};
use std::time::Duration;

#[derive(Clone, Debug)]
enum Item {
    Reg(AvailableValue),
    Mem(MemoryLocation, AvailableValue),
    Set(u32),
}

pub struct C19 {
    items: Vec<Item>,
    space: KernelSpace,
    space_t: KernelSpace,
}

fn reg(n: u8) -> Register {
    Register::from_num(n).unwrap()
}

fn values() -> Vec<AvailableValue> {
    let ints = [0, 1, -1, 5, i32::MIN, i32::MAX];
    let regs = [0u8, 2, 5, 27];
    let csrs = [0u32, 5, 64, 3072];
    let labels = ["a", "D", "main"];
    let mut v = Vec::new();
    for i in ints {
        v.push(AvailableValue::Constant(i));
    }
    for l in labels {
        v.push(AvailableValue::Address(With::new(LabelString::new(l), Token::default())));
        for i in ints {
            v.push(AvailableValue::Memory(LabelString::new(l), i));
        }
    }
    for r in regs {
        for i in ints {
            v.push(AvailableValue::RegisterWithScalar(reg(r), i));
            v.push(AvailableValue::OriginalRegisterWithScalar(reg(r), i));
            v.push(AvailableValue::MemoryAtRegister(reg(r), i));
            v.push(AvailableValue::MemoryAtOriginalRegister(reg(r), i));
        }
    }
    for c in csrs {
        v.push(AvailableValue::ValueInCsr(CsrImm::new(c)));
        for i in ints {
            v.push(AvailableValue::MemoryAtCsr(CsrImm::new(c), i));
        }
    }
    v
}

fn locations() -> Vec<MemoryLocation> {
    let mut v = Vec::new();
    for k in [0, 4, -4, 2044, -2044, i32::MIN + 1, i32::MAX, i32::MIN] {
        v.push(MemoryLocation::StackOffset(k));
    }
    for c in [0u32, 5, 64, 3072] {
        v.push(MemoryLocation::CsrRegister(CsrImm::new(c)));
        for k in [0, 4, -4, i32::MIN, i32::MAX] {
            v.push(MemoryLocation::CsrRegisterValueOffset(CsrImm::new(c), k));
        }
    }
    v
}

fn items() -> Vec<Item> {
    let mut v: Vec<Item> = values().into_iter().map(Item::Reg).collect();
    let some_values = [
        AvailableValue::Constant(7),
        AvailableValue::OriginalRegisterWithScalar(reg(8), 0),
        AvailableValue::ValueInCsr(CsrImm::new(5)),
    ];
    for l in locations() {
        for val in &some_values {
            v.push(Item::Mem(l.clone(), val.clone()));
        }
    }
    v.push(Item::Set(0));
    v.push(Item::Set(u32::MAX));
    for a in 0..32u32 {
        v.push(Item::Set(1 << a));
        for b in (a + 1)..32 {
            v.push(Item::Set((1 << a) | (1 << b)));
        }
    }
    v
}

fn set_of(mask: u32) -> RegisterSet {
    (0..32u8).filter(|r| mask & (1 << r) != 0).map(reg).collect()
}

fn template_node() -> ParserNode {
    let (_, nodes, _) = imp::parse(imp::MemReader::single("nop\n"), "base.s");
    nodes[1].clone()
}

fn wrapper_for(item: &Item, node: &ParserNode) -> NodeWrapper {
    let mut w = NodeWrapper {
        node: node.clone(),
        labels: HashSet::new(),
        func_entry: vec![],
        func_exit: vec![],
        nexts: HashSet::new(),
        prevs: HashSet::new(),
        reg_values_in: AvailableValueMap::new(),
        reg_values_out: AvailableValueMap::new(),
        memory_values_in: AvailableValueMap::new(),
        memory_values_out: AvailableValueMap::new(),
        live_in: RegisterSet::new(),
        live_out: RegisterSet::new(),
        u_def: RegisterSet::new(),
    };
    match item {
        Item::Reg(v) => {
            w.reg_values_in.insert(reg(5), v.clone());
            w.reg_values_out.insert(reg(31), v.clone());
        }
        Item::Mem(l, v) => {
            w.memory_values_in.insert(l.clone(), v.clone());
            w.memory_values_out.insert(l.clone(), v.clone());
        }
        Item::Set(m) => {
            w.live_in = set_of(*m);
            w.live_out = set_of(!*m);
            w.u_def = set_of(*m);
        }
    }
    w
}

/// field-wise equality of two node wrappers (the derived PartialEq compares
/// parser nodes by id only)
fn same_fields(a: &NodeWrapper, b: &NodeWrapper) -> Option<&'static str> {
    if a.node.to_string() != b.node.to_string() {
        return Some("node");
    }
    // function annotations carried by the node itself
    if a.node.is_handler_function_entry() != b.node.is_handler_function_entry() {
        return Some("interrupt-handler annotation");
    }
    if a.labels != b.labels {
        return Some("labels");
    }
    let sorted = |v: &Vec<usize>| {
        let mut x = v.clone();
        x.sort_unstable();
        x
    };
    if sorted(&a.func_entry) != sorted(&b.func_entry) {
        return Some("func_entry");
    }
    if sorted(&a.func_exit) != sorted(&b.func_exit) {
        return Some("func_exit");
    }
    if a.nexts != b.nexts {
        return Some("nexts");
    }
    if a.prevs != b.prevs {
        return Some("prevs");
    }
    if a.reg_values_in != b.reg_values_in {
        return Some("reg_values_in");
    }
    if a.reg_values_out != b.reg_values_out {
        return Some("reg_values_out");
    }
    if a.memory_values_in != b.memory_values_in {
        return Some("memory_values_in");
    }
    if a.memory_values_out != b.memory_values_out {
        return Some("memory_values_out");
    }
    if a.live_in != b.live_in {
        return Some("live_in");
    }
    if a.live_out != b.live_out {
        return Some("live_out");
    }
    if a.u_def != b.u_def {
        return Some("u_def");
    }
    None
}

fn variant_name(i: &Item) -> String {
    match i {
        Item::Reg(v) => format!("value:{}", crate::c01::kind_of(Some(v))),
        Item::Mem(l, _) => match l {
            MemoryLocation::StackOffset(k) => format!("location:stack:{}", if *k == i32::MIN { "min" } else { "other" }),
            MemoryLocation::CsrRegister(_) => "location:csr".into(),
            MemoryLocation::CsrRegisterValueOffset(..) => "location:csr-offset".into(),
        },
        Item::Set(_) => "register-set".into(),
    }
}

impl C19 {
    pub fn new() -> C19 {
        C19 {
            items: items(),
            space: KernelSpace::new(KernelBounds::for_tier(Tier::Quick)),
            space_t: KernelSpace::new(KernelBounds::for_tier(Tier::Thorough)),
        }
    }
    fn stride(&self, tier: Tier) -> u64 {
        tier.pick(53, 31)
    }
    fn kspace(&self, tier: Tier) -> &KernelSpace {
        tier.pick(&self.space, &self.space_t)
    }
    fn n_programs(&self, tier: Tier) -> u64 {
        self.kspace(tier).count().div_ceil(self.stride(tier))
    }

    fn roundtrip_item(&self, case: u64, item: &Item, acc: &mut Acc) {
        let node = template_node();
        let w = wrapper_for(item, &node);
        let name = variant_name(item);
        let r = catch_unwind(AssertUnwindSafe(|| serde_yaml::to_string(&vec![w.clone()])));
        let yaml = match r {
            Ok(Ok(y)) => y,
            Ok(Err(e)) => {
                acc.violation(format!("C19|cannot-dump|{name}"), case, json!({"item": format!("{item:?}"), "error": e.to_string(), "case": case}));
                return;
            }
            Err(e) => {
                acc.violation(
                    format!("C19|dump-panics|{name}|{}", crate::profile()),
                    case,
                    json!({"item": format!("{item:?}"), "panic": imp::panic_message(e), "case": case}),
                );
                return;
            }
        };
        acc.count("traces", 1);
        let loaded: Result<CfgWrapper, _> = serde_yaml::from_str(&yaml);
        let loaded = match loaded {
            Ok(l) => l,
            Err(e) => {
                acc.violation(format!("C19|cannot-load-own-dump|{name}"), case, json!({"item": format!("{item:?}"), "dump": yaml, "error": e.to_string(), "case": case}));
                return;
            }
        };
        if loaded.nodes().len() != 1 {
            acc.violation(format!("C19|load-changes-shape|{name}"), case, json!({"dump": yaml, "case": case}));
            return;
        }
        if let Some(field) = same_fields(&w, &loaded.nodes()[0]) {
            acc.violation(
                format!("C19|loaded-differs|{name}|{field}"),
                case,
                json!({"item": format!("{item:?}"), "dump": yaml, "field": field, "case": case}),
            );
            return;
        }
        let again = serde_yaml::to_string(&loaded).unwrap_or_default();
        if again != yaml {
            acc.violation(format!("C19|second-dump-differs|{name}"), case, json!({"dump": yaml, "second": again, "case": case}));
            return;
        }
        acc.outcome(&format!("value-round-trip:{name}"), case);
    }

    fn injectivity(&self, case: u64, acc: &mut Acc) {
        let node = template_node();
        let mut by_text: HashMap<String, usize> = HashMap::new();
        for (i, item) in self.items.iter().enumerate() {
            let w = wrapper_for(item, &node);
            let Ok(Ok(y)) = catch_unwind(AssertUnwindSafe(|| serde_yaml::to_string(&vec![w.clone()]))) else { continue };
            acc.count("pairs_compared", i as u64);
            if let Some(j) = by_text.get(&y) {
                let other = wrapper_for(&self.items[*j], &node);
                if same_fields(&w, &other).is_some() {
                    acc.violation(
                        format!("C19|two-values-one-dump|{}|{}", variant_name(&self.items[*j]), variant_name(item)),
                        case,
                        json!({"a": format!("{:?}", self.items[*j]), "b": format!("{item:?}"), "dump": y, "case": case}),
                    );
                    return;
                }
            } else {
                by_text.insert(y, i);
            }
        }
    }

    fn dump_of(cfg: &Cfg) -> String {
        serde_yaml::to_string(&CfgWrapper::from(cfg)).unwrap_or_default()
    }

    fn program(&self, tier: Tier, case: u64, k: &Kernel, with_cli: bool, acc: &mut Acc) {
        self.program_text(tier, case, k.family, k.program.text(), with_cli, acc);
    }

    fn program_text(&self, tier: Tier, case: u64, family: &str, text: String, with_cli: bool, acc: &mut Acc) {
        let Ok(run) = imp::analyze_text(&text) else {
            acc.count("analysis_panicked", 1);
            return;
        };
        let Ok(cfg) = &run.cfg else {
            acc.count("cfg_rejected", 1);
            return;
        };
        acc.count("programs", 1);
        acc.count("nontrivial", 1);
        let wrapped = CfgWrapper::from(cfg);
        let yaml = serde_yaml::to_string(&wrapped).unwrap_or_default();
        let loaded: Result<CfgWrapper, _> = serde_yaml::from_str(&yaml);
        acc.count("traces", 1);
        let witness = |what: &str, d: Value| json!({"source": text, "what": what, "detail": d, "case": case, "tier": tier.name()});
        match loaded {
            Err(e) => {
                acc.violation("C19|program|cannot-load-own-dump", case, witness("load failed", json!(e.to_string())));
                return;
            }
            Ok(l) => {
                if l.nodes().len() != wrapped.nodes().len() {
                    acc.violation("C19|program|load-changes-shape", case, witness("node count", json!(null)));
                    return;
                }
                for (i, (a, b)) in wrapped.nodes().iter().zip(l.nodes().iter()).enumerate() {
                    if let Some(field) = same_fields(a, b) {
                        acc.violation(format!("C19|program|loaded-differs|{field}"), case, witness("field differs after reload", json!({"node": i, "field": field})));
                        return;
                    }
                }
                if serde_yaml::to_string(&l).unwrap_or_default() != yaml {
                    acc.violation("C19|program|second-dump-differs", case, witness("dump of the loaded structure differs", json!(null)));
                    return;
                }
            }
        }
        // injectivity on analysis results: every single-fact perturbation changes the dump
        let nodes = cfg.nodes();
        for (i, n) in nodes.iter().enumerate() {
            let mut check = |what: &str, acc: &mut Acc| -> bool {
                acc.count("perturbations", 1);
                if Self::dump_of(cfg) == yaml {
                    acc.violation(
                        format!("C19|program|different-results-same-dump|{what}"),
                        case,
                        json!({"source": text, "node": i, "perturbation": what, "case": case, "tier": tier.name()}),
                    );
                    return false;
                }
                true
            };
            // live sets: one bit flipped, for a register of every class and both ends of the range
            for bit in [10u8, 30, 31] {
                let li = n.live_in();
                let flipped = if li.contains(&reg(bit)) { li - reg(bit) } else { li | reg(bit) };
                let _ = n.set_live_in(flipped);
                let ok = check("live_in", acc);
                let _ = n.set_live_in(li);
                if !ok {
                    return;
                }
                let lo = n.live_out();
                let flipped = if lo.contains(&reg(bit)) { lo - reg(bit) } else { lo | reg(bit) };
                let _ = n.set_live_out(flipped);
                let ok = check("live_out", acc);
                let _ = n.set_live_out(lo);
                if !ok {
                    return;
                }
            }
            // a value fact
            let ri = n.reg_values_in();
            let mut changed = ri.clone();
            changed.insert(reg(30), AvailableValue::ValueInCsr(CsrImm::new(5)));
            if changed == ri {
                changed.insert(reg(30), AvailableValue::Constant(5));
            }
            let _ = n.set_reg_values_in(changed);
            let ok = check("reg_values_in", acc);
            let _ = n.set_reg_values_in(ri);
            if !ok {
                return;
            }
            let mo = n.memory_values_out();
            let mut changed = mo.clone();
            changed.insert(MemoryLocation::StackOffset(-2044), AvailableValue::Constant(9));
            let _ = n.set_memory_values_out(changed);
            let ok = check("memory_values_out", acc);
            let _ = n.set_memory_values_out(mo);
            if !ok {
                return;
            }
            // an edge
            let target = &nodes[0];
            let had = n.nexts().iter().any(|x| std::rc::Rc::ptr_eq(x, target));
            if !had {
                n.insert_next(std::rc::Rc::clone(target));
                let ok = check("nexts", acc);
                n.remove_next(target);
                if !ok {
                    return;
                }
            }
        }
        if Self::dump_of(cfg) != yaml {
            acc.violation("C19|machinery|perturbations-not-undone", case, json!({"source": text, "case": case}));
            return;
        }
        // the CLI's --yaml output carries the same content
        if with_cli {
            let c = cli::text_case("c19", &[("a.s", &text)]);
            let dir = cli::materialize(&c);
            if let Ok(o) = cli::run_rva("release", &dir, "a.s", &["--yaml", "--no-output"], &[("RVA_VERIF_SCHEDULE", String::new())], Duration::from_secs(10)) {
                acc.count("cli_runs", 1);
                let a: Result<CfgWrapper, _> = serde_yaml::from_str(&o.stdout);
                match a {
                    Ok(a) => {
                        let same = a.nodes().len() == wrapped.nodes().len()
                            && a.nodes().iter().zip(wrapped.nodes().iter()).all(|(x, y)| same_fields(x, y).is_none());
                        if !same {
                            acc.violation("C19|cli-yaml-differs-from-library-dump", case, json!({"source": text, "case": case, "cli": o.stdout.chars().take(600).collect::<String>()}));
                        }
                    }
                    Err(e) => acc.violation(
                        "C19|cli-yaml-does-not-load",
                        case,
                        json!({"source": text, "case": case, "error": e.to_string(), "stdout": o.stdout.chars().take(400).collect::<String>(), "stderr": o.stderr.chars().take(300).collect::<String>()}),
                    ),
                }
            }
            let _ = std::fs::remove_dir_all(dir);
        }
        // which kinds of facts this dump carried
        let mut kinds: Vec<&str> = Vec::new();
        for tag in ["!c ", "!a ", "!m ", "!mr ", "!mor ", "!r ", "!or ", "!csr ", "sp+", "sp-", "csr+", "csro+", "!FuncEntry", "!ProgramEntry"] {
            if yaml.contains(tag) {
                kinds.push(tag.trim());
            }
        }
        acc.outcome(&format!("program-dump:{}:{}", family, kinds.join(",")), case);
    }
}

/// programs with annotations the kernel family cannot express
const FIXED_PROGRAMS: [(&str, &str); 2] = [
    ("interrupt-handler", "main:\n    la t0, handler\n    csrrw zero, 5, t0\n    li a7, 10\n    ecall\nhandler:\n    csrrw t0, 64, t0\n    sw t1, 0(t0)\n    lw t1, 0(t0)\n    csrrw t0, 64, t0\n    uret\n"),
    ("handler-also-called", "main:\n    la t0, handler\n    csrrw zero, 5, t0\n    jal handler\n    li a7, 10\n    ecall\nhandler:\n    addi a0, a0, 1\n    ret\n"),
];

impl Property for C19 {
    fn id(&self) -> &'static str {
        "C19"
    }
    fn cases(&self, tier: Tier) -> u64 {
        1 + self.items.len() as u64 + self.n_programs(tier) + FIXED_PROGRAMS.len() as u64
    }
    fn chunk(&self, _tier: Tier) -> u64 {
        25
    }
    fn profiles(&self, _tier: Tier) -> Vec<&'static str> {
        vec!["release", "checked"]
    }
    fn run_case(&self, tier: Tier, case: u64, acc: &mut Acc) {
        acc.count("cases", 1);
        if case == 0 {
            self.injectivity(case, acc);
            return;
        }
        let i = case - 1;
        if (i as usize) < self.items.len() {
            let item = &self.items[i as usize];
            if i % 97 == 0 {
                acc.sample(json!({"case": case, "value": format!("{item:?}")}));
            }
            acc.count("values", 1);
            self.roundtrip_item(case, item, acc);
            return;
        }
        let pi = i - self.items.len() as u64;
        if pi >= self.n_programs(tier) {
            let (name, text) = FIXED_PROGRAMS[(pi - self.n_programs(tier)) as usize];
            self.program_text(tier, case, name, text.to_string(), crate::profile() == "release", acc);
            return;
        }
        let p = pi * self.stride(tier);
        let k = self.kspace(tier).get(p);
        self.program(tier, case, &k, crate::profile() == "release" && case % 40 == 0, acc);
    }
    fn replay(&self, w: &Value, acc: &mut Acc) {
        if let Some(case) = w["case"].as_u64() {
            let tier = if w["tier"].as_str() == Some("thorough") { Tier::Thorough } else { Tier::Quick };
            if case < self.cases(tier) {
                self.run_case(tier, case, acc);
            }
        }
    }
    fn info(&self, tier: Tier) -> Info {
        Info {
            rule: "(a) every AvailableValue variant x parameters {0, 1, -1, 5, MIN, MAX} / registers {x0, sp, t0, s11} / labels / CSR numbers {0, 5, 64, 3072}, every MemoryLocation variant x boundary offsets (incl. i32::MIN), every register set of <= 2 registers and the full set, each placed in a one-node dump: dump -> load -> dump must be a textual fixed point, the loaded structure must equal the written one field by field, and no two different values may share a dump (all pairs); (b) the dump of every 53rd (quick family) / 31st (thorough family) kernel program: same round trip, and every single-fact perturbation of the analysis result (one live-in / live-out bit, one register fact, one stack fact, one edge, at every node) must change the dump; the CLI's --yaml output must load to the same structure. Release and overflow-checked builds. Non-trivial = analysed programs".into(),
            bounds: json!({"values": self.items.len(), "programs": self.n_programs(tier)}),
            assumptions: vec!["field-wise comparison looks through NodeWrapper's public fields (hook H7) because the derived equality compares parser nodes by id only".into()],
            states_counter: "cases",
            transitions_counter: "perturbations",
            traces_counter: "traces",
            nontrivial_counter: "nontrivial",
            exhaustive: true,
        }
    }
}
