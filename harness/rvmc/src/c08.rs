//! C08 — decoding, pseudo-expansion and constant folding follow RV32IM.
//!
//! The space is finite and enumerated completely: a decode table transcribed
//! from the RISC-V assembly manual (every mnemonic x operand form x register
//! and immediate choices) and the folding grid (every foldable mnemonic x all
//! pairs of the boundary grid).

use crate::driver::*;
use crate::imp;
use crate::model::*;
use crate::xlate::*;
use riscv_analysis::parser::{Inst as RInst, InstructionProperties, ParserNode};
use serde_json::{json, Value};
use std::collections::BTreeSet;
use std::panic::{catch_unwind, AssertUnwindSafe};
use std::str::FromStr;

pub struct C08 {
    decode: Vec<DecodeCase>,
    fold_q: Vec<FoldCase>,
    fold_t: Vec<FoldCase>,
}

#[derive(Clone, Debug)]
pub struct DecodeCase {
    pub text: String,
    /// official meaning (expansion) of the text
    pub expected: Vec<Inst>,
    pub form: &'static str,
}

#[derive(Clone, Debug)]
pub struct FoldCase {
    pub mnemonic: &'static str,
    pub op: ROp,
    pub a: u32,
    pub extra: bool,
}

const REGS: [Reg; 7] = [0, 1, 2, 5, 27, 31, 17];

fn xn(r: Reg) -> String {
    format!("x{r}")
}

pub fn decode_table() -> Vec<DecodeCase> {
    let mut t = Vec::new();
    let mut add = |text: String, expected: Vec<Inst>, form: &'static str| {
        t.push(DecodeCase {
            text,
            expected,
            form,
        })
    };
    // R-type
    for op in ALL_ROPS {
        for &rd in &REGS {
            for &a in &REGS {
                for &b in &REGS {
                    add(
                        format!("{} {}, {}, {}", op.name(), rn(rd), rn(a), rn(b)),
                        vec![Inst::R(op, rd, a, b)],
                        "r-type",
                    );
                }
            }
        }
        add(
            format!("{} t0, t1, t2", op.name().to_uppercase()),
            vec![Inst::R(op, 5, 6, 7)],
            "r-type-upper",
        );
        add(
            format!("{} x5 x6 x7", op.name()),
            vec![Inst::R(op, 5, 6, 7)],
            "r-type-nocomma",
        );
    }
    // every register spelling
    for r in 0..32u8 {
        for name in [rn(r).to_string(), xn(r)] {
            add(
                format!("add {name}, {name}, {name}"),
                vec![Inst::R(ROp::Add, r, r, r)],
                "reg-spelling",
            );
        }
    }
    add("add fp, fp, fp".into(), vec![Inst::R(ROp::Add, 8, 8, 8)], "reg-spelling");
    // I-type
    for op in ALL_IOPS {
        let imms: &[i32] = match op {
            IOp::Slli | IOp::Srli | IOp::Srai => &[0, 1, 31],
            _ => &[0, 1, -1, 2047, -2048, 31],
        };
        for &rd in &REGS {
            for &a in &REGS {
                for &imm in imms {
                    add(
                        format!("{} {}, {}, {}", op.name(), rn(rd), rn(a), imm),
                        vec![Inst::I(op, rd, a, imm)],
                        "i-type",
                    );
                }
            }
        }
        add(
            format!("{} t0, t1, 0x7", op.name().to_uppercase()),
            vec![Inst::I(op, 5, 6, 7)],
            "i-type-upper",
        );
    }
    // lui
    for &rd in &REGS {
        for imm in [0, 1, 0x7ffff, 0x80000, 0xfffff, 0x12345] {
            add(
                format!("lui {}, {}", rn(rd), imm),
                vec![Inst::Lui(rd, imm)],
                "lui",
            );
        }
    }
    // auipc
    for &rd in &REGS {
        for imm in [0, 1, 0x7ffff, 0xfffff] {
            add(
                format!("auipc {}, {}", rn(rd), imm),
                vec![Inst::Auipc(rd, imm)],
                "auipc",
            );
        }
    }
    // sgez rd, rs (RARS): rd = rs >= 0
    for &rd in &REGS {
        for &a in &REGS {
            add(
                format!("sgez {}, {}", rn(rd), rn(a)),
                vec![Inst::R(ROp::Slt, rd, a, 0), Inst::I(IOp::Xori, rd, rd, 1)],
                "pseudo-sgez",
            );
        }
    }
    // spellings the manual does not have: accepting one gives it a meaning of the parser's own
    for text in ["auipc t0, t1, 0", "lui t0, t1, 0", "sgez t0, L", "seqz t0, L", "jalr t0, L", "jal t0, t1, L"] {
        add(text.to_string(), vec![], "not-in-the-manual");
    }
    // loads and stores
    let lops = [LOp::Lb, LOp::Lbu, LOp::Lh, LOp::Lhu, LOp::Lw];
    let sops = [SOp::Sb, SOp::Sh, SOp::Sw];
    for &rd in &REGS {
        for &b in &REGS {
            for imm in [0, 4, -4, 2047, -2048] {
                for op in lops {
                    add(
                        format!("{} {}, {}({})", op.name(), rn(rd), imm, rn(b)),
                        vec![Inst::Load(op, rd, b, imm)],
                        "load",
                    );
                }
                for op in sops {
                    add(
                        format!("{} {}, {}({})", op.name(), rn(rd), imm, rn(b)),
                        vec![Inst::Store(op, rd, b, imm)],
                        "store",
                    );
                }
            }
            for op in lops {
                add(
                    format!("{} {}, ({})", op.name(), rn(rd), rn(b)),
                    vec![Inst::Load(op, rd, b, 0)],
                    "load-noimm",
                );
            }
            for op in sops {
                add(
                    format!("{} {}, ({})", op.name(), rn(rd), rn(b)),
                    vec![Inst::Store(op, rd, b, 0)],
                    "store-noimm",
                );
            }
        }
        // load from label: auipc rd / l{b|h|w} rd, off(rd)
        for op in lops {
            add(
                format!("{} {}, D", op.name(), rn(rd)),
                vec![Inst::La(rd, "D".into()), Inst::Load(op, rd, rd, 0)],
                "load-label",
            );
        }
        // store to label through a temporary
        for op in sops {
            add(
                format!("{} {}, D, t1", op.name(), rn(rd)),
                vec![Inst::La(6, "D".into()), Inst::Store(op, rd, 6, 0)],
                "store-label",
            );
        }
    }
    // store to an absolute address through a temporary: `lui tmp, %hi(A)` / `s{b|h|w} rs2, %lo(A)(tmp)`;
    // %hi rounds (the store adds a *sign-extended* %lo), so bit 11 of A matters
    for op in sops {
        for &rd in &[5u8, 10, 0] {
            for addr in [
                0u32, 4, 0x7fc, 0x800, 0x804, 0xffc, 0x1000, 0x17fc, 0x1800, 0x1ffc, 0x10010000, 0x10010804, 0x100107fc,
                0x7ffff7fc, 0x7ffff800, 0x7ffffffc,
            ] {
                let lo = ((addr << 20) as i32) >> 20;
                let hi = (addr.wrapping_sub(lo as u32) >> 12) as i32;
                add(
                    format!("{} {}, {}, t1", op.name(), rn(rd), addr),
                    vec![Inst::Lui(6, hi), Inst::Store(op, rd, 6, lo)],
                    "store-abs",
                );
                add(
                    format!("{} {}, {:#x}, t1", op.name(), rn(rd), addr),
                    vec![Inst::Lui(6, hi), Inst::Store(op, rd, 6, lo)],
                    "store-abs",
                );
            }
        }
    }
    // branches and branch pseudo-instructions
    for &a in &REGS {
        for &b in &REGS {
            for op in ALL_BOPS {
                add(
                    format!("{} {}, {}, L", op.name(), rn(a), rn(b)),
                    vec![Inst::Branch(op, a, b, "L".into())],
                    "branch",
                );
            }
            for (name, op) in [
                ("bgt", BOp::Blt),
                ("ble", BOp::Bge),
                ("bgtu", BOp::Bltu),
                ("bleu", BOp::Bgeu),
            ] {
                add(
                    format!("{name} {}, {}, L", rn(a), rn(b)),
                    vec![Inst::Branch(op, b, a, "L".into())],
                    "branch-swapped",
                );
            }
        }
        add(format!("beqz {}, L", rn(a)), vec![Inst::Branch(BOp::Beq, a, 0, "L".into())], "beqz");
        add(format!("bnez {}, L", rn(a)), vec![Inst::Branch(BOp::Bne, a, 0, "L".into())], "bnez");
        add(format!("bltz {}, L", rn(a)), vec![Inst::Branch(BOp::Blt, a, 0, "L".into())], "bltz");
        add(format!("bgez {}, L", rn(a)), vec![Inst::Branch(BOp::Bge, a, 0, "L".into())], "bgez");
        add(format!("bgtz {}, L", rn(a)), vec![Inst::Branch(BOp::Blt, 0, a, "L".into())], "bgtz");
        add(format!("blez {}, L", rn(a)), vec![Inst::Branch(BOp::Bge, 0, a, "L".into())], "blez");
        // jumps
        add(format!("jal {}, L", rn(a)), vec![Inst::Jal(a, "L".into())], "jal-rd");
        add(format!("jalr {}", rn(a)), vec![Inst::Jalr(1, a, 0)], "jalr-rs");
        add(format!("jr {}", rn(a)), vec![Inst::Jalr(0, a, 0)], "jr");
        for &b in &REGS {
            for imm in [0, 4, -4, 2047, -2048] {
                add(
                    format!("jalr {}, {}, {}", rn(a), rn(b), imm),
                    vec![Inst::Jalr(a, b, imm)],
                    "jalr-3",
                );
                add(
                    format!("jalr {}, {}({})", rn(a), imm, rn(b)),
                    vec![Inst::Jalr(a, b, imm)],
                    "jalr-paren",
                );
            }
            add(
                format!("jalr {}, ({})", rn(a), rn(b)),
                vec![Inst::Jalr(a, b, 0)],
                "jalr-paren-noimm",
            );
            // register pseudo-instructions
            add(format!("mv {}, {}", rn(a), rn(b)), vec![Inst::I(IOp::Addi, a, b, 0)], "mv");
            add(format!("neg {}, {}", rn(a), rn(b)), vec![Inst::R(ROp::Sub, a, 0, b)], "neg");
            add(format!("not {}, {}", rn(a), rn(b)), vec![Inst::I(IOp::Xori, a, b, -1)], "not");
            add(format!("seqz {}, {}", rn(a), rn(b)), vec![Inst::I(IOp::Sltiu, a, b, 1)], "seqz");
            add(format!("snez {}, {}", rn(a), rn(b)), vec![Inst::R(ROp::Sltu, a, 0, b)], "snez");
            add(format!("sltz {}, {}", rn(a), rn(b)), vec![Inst::R(ROp::Slt, a, b, 0)], "sltz");
            add(format!("sgtz {}, {}", rn(a), rn(b)), vec![Inst::R(ROp::Slt, a, 0, b)], "sgtz");
            // CSR
            for csr in [0u32, 5, 64, 3072] {
                for (name, op) in [("csrrw", CsrOp::Rw), ("csrrs", CsrOp::Rs), ("csrrc", CsrOp::Rc)] {
                    add(
                        format!("{name} {}, {}, {}", rn(a), csr, rn(b)),
                        vec![Inst::Csr(op, a, csr, b)],
                        "csr",
                    );
                }
            }
        }
        add(format!("la {}, D", rn(a)), vec![Inst::La(a, "D".into())], "la");
        for imm in [0, 1, -1, 2047, -2048, 2048, 0x12345678, i32::MAX, i32::MIN + 1] {
            add(format!("li {}, {}", rn(a), imm), vec![Inst::Li(a, imm)], "li");
        }
        for csr in [0u32, 5, 64, 3072] {
            add(
                format!("csrr {}, {}", rn(a), csr),
                vec![Inst::Csr(CsrOp::Rs, a, csr, 0)],
                "csrr",
            );
            for imm in [0u32, 1, 31] {
                for (name, op) in [("csrrwi", CsrOp::Rw), ("csrrsi", CsrOp::Rs), ("csrrci", CsrOp::Rc)] {
                    add(
                        format!("{name} {}, {}, {}", rn(a), csr, imm),
                        vec![Inst::CsrI(op, a, csr, imm)],
                        "csri",
                    );
                }
            }
        }
        add(
            format!("csrrw {}, utvec, t0", rn(a)),
            vec![Inst::Csr(CsrOp::Rw, a, 5, 5)],
            "csr-name",
        );
    }
    add("jal L".into(), vec![Inst::Jal(1, "L".into())], "jal-label");
    add("call L".into(), vec![Inst::Jal(1, "L".into())], "call");
    add("j L".into(), vec![Inst::Jal(0, "L".into())], "j");
    add("ret".into(), vec![Inst::Jalr(0, 1, 0)], "ret");
    add("RET".into(), vec![Inst::Jalr(0, 1, 0)], "ret");
    add("nop".into(), vec![Inst::I(IOp::Addi, 0, 0, 0)], "nop");
    add("ecall".into(), vec![Inst::Ecall], "ecall");
    t
}

/// Operand values for the folding check.
fn fold_operands(extra: bool) -> Vec<u32> {
    let mut v = grid();
    if extra {
        for i in 0..32 {
            v.push(1u32 << i);
            v.push(3u32.rotate_left(i));
            v.push(!(1u32 << i));
        }
        v.sort_unstable();
        v.dedup();
    }
    v
}

const FOLD_MNEMONICS: [(&str, ROp); 27] = [
    ("add", ROp::Add),
    ("sub", ROp::Sub),
    ("and", ROp::And),
    ("or", ROp::Or),
    ("xor", ROp::Xor),
    ("sll", ROp::Sll),
    ("srl", ROp::Srl),
    ("sra", ROp::Sra),
    ("slt", ROp::Slt),
    ("sltu", ROp::Sltu),
    ("mul", ROp::Mul),
    ("mulh", ROp::Mulh),
    ("mulhsu", ROp::Mulhsu),
    ("mulhu", ROp::Mulhu),
    ("div", ROp::Div),
    ("divu", ROp::Divu),
    ("rem", ROp::Rem),
    ("remu", ROp::Remu),
    ("addi", ROp::Add),
    ("andi", ROp::And),
    ("ori", ROp::Or),
    ("xori", ROp::Xor),
    ("slli", ROp::Sll),
    ("srli", ROp::Srl),
    ("srai", ROp::Sra),
    ("slti", ROp::Slt),
    ("sltiu", ROp::Sltu),
];

impl C08 {
    pub fn new() -> C08 {
        let mut fold_q = Vec::new();
        let mut fold_t = Vec::new();
        for (m, op) in FOLD_MNEMONICS {
            for a in fold_operands(false) {
                fold_q.push(FoldCase {
                    mnemonic: m,
                    op,
                    a,
                    extra: false,
                });
            }
            for a in fold_operands(true) {
                fold_t.push(FoldCase {
                    mnemonic: m,
                    op,
                    a,
                    extra: true,
                });
            }
        }
        C08 {
            decode: decode_table(),
            fold_q,
            fold_t,
        }
    }

    fn folds(&self, tier: Tier) -> &Vec<FoldCase> {
        tier.pick(&self.fold_q, &self.fold_t)
    }

    fn run_decode(&self, case: u64, dc: &DecodeCase, acc: &mut Acc) {
        acc.count("decode_cases", 1);
        let src = format!("{}\nL:\n    nop\n.data\nD:\n.word 7\n", dc.text);
        let parsed = catch_unwind(AssertUnwindSafe(|| {
            imp::parse(imp::MemReader::single(&src), "base.s")
        }));
        let witness = |what: &str, detail: Value| {
            json!({"kind": "decode", "text": dc.text, "form": dc.form,
                   "expected": dc.expected.iter().map(|i| i.base_text()).collect::<Vec<_>>(),
                   "what": what, "detail": detail})
        };
        let mnemonic = dc.text.split_whitespace().next().unwrap_or("").to_lowercase();
        let (_, nodes, errs) = match parsed {
            Ok(x) => x,
            Err(e) => {
                acc.violation(
                    format!("C08|decode-panic|{}|{}", dc.form, mnemonic),
                    case,
                    witness("panic", json!(imp::panic_message(e))),
                );
                return;
            }
        };
        if dc.form == "not-in-the-manual" {
            if errs.is_empty() {
                acc.violation(
                    format!("C08|accepted-form-the-manual-does-not-have|{mnemonic}"),
                    case,
                    witness("the parser accepts this spelling and gives it a meaning", json!(nodes.iter().skip(1).map(|n| n.to_string()).collect::<Vec<_>>())),
                );
            } else {
                acc.outcome(&format!("rejected-as-it-should-be:{mnemonic}"), case);
            }
            return;
        }
        if !errs.is_empty() {
            // The property speaks of accepted forms; a rejected manual form is
            // informational only.
            acc.count("rejected_manual_forms", 1);
            acc.outcome(&format!("rejected:{}:{}", dc.form, mnemonic), case);
            return;
        }
        // nodes: ProgramEntry, then the statement's nodes, then nop (+ directive nodes)
        let body: Vec<&ParserNode> = nodes
            .iter()
            .skip(1)
            .filter(|n| n.is_instruction())
            .collect();
        let got_nodes: Vec<&ParserNode> = body[..body.len().saturating_sub(1)].to_vec();
        let got: Vec<Option<Inst>> = got_nodes.iter().map(|n| node_to_inst(n)).collect();
        if got.len() != dc.expected.len() || got.iter().any(|g| g.is_none()) {
            acc.violation(
                format!("C08|decode-shape|{}|{}", dc.form, mnemonic),
                case,
                witness(
                    "node count or untranslatable node",
                    json!(got_nodes.iter().map(|n| n.to_string()).collect::<Vec<_>>()),
                ),
            );
            return;
        }
        let got: Vec<Inst> = got.into_iter().flatten().collect();
        acc.count("traces", 1);
        if got == dc.expected {
            acc.outcome(&format!("structural:{}", dc.form), case);
        } else {
            // semantic comparison by execution over the grid
            let vals = grid();
            match equivalent(&got, &dc.expected, &vals) {
                Ok(n) => {
                    acc.count("equivalence_states", n);
                    acc.outcome(&format!("semantic:{}", dc.form), case);
                }
                Err(cex) => {
                    acc.violation(
                        format!("C08|expansion-differs|{}|{}", dc.form, mnemonic),
                        case,
                        witness(
                            "built instruction computes something else than the official expansion",
                            json!({"built": got.iter().map(|i| i.base_text()).collect::<Vec<_>>(), "counterexample": cex}),
                        ),
                    );
                    return;
                }
            }
        }
        // architectural reads/writes/control properties (x0 is not a register read or written)
        for (node, exp) in got_nodes.iter().zip(dc.expected.iter()) {
            let reads: BTreeSet<Reg> = node
                .reads_from()
                .iter()
                .map(|r| reg_num(r.get()))
                .filter(|r| *r != 0)
                .collect();
            let writes: BTreeSet<Reg> = node
                .writes_to()
                .iter()
                .map(|r| reg_num(r.get()))
                .filter(|r| *r != 0)
                .collect();
            // expected from the *built* semantic (already shown equivalent), using the
            // official expansion's registers
            let exp_reads: BTreeSet<Reg> = exp.sources().into_iter().collect();
            let exp_writes: BTreeSet<Reg> = exp.dest().into_iter().collect();
            if reads != exp_reads || writes != exp_writes {
                acc.violation(
                    format!("C08|reads-writes|{}|{}", dc.form, mnemonic),
                    case,
                    witness(
                        "reads_from/writes_to differ from the architectural registers",
                        json!({"reads": reads, "expected_reads": exp_reads, "writes": writes, "expected_writes": exp_writes}),
                    ),
                );
                return;
            }
            let exp_jump = match exp {
                Inst::Branch(_, _, _, l) => Some(l.clone()),
                Inst::Jal(rd, l) if *rd != 1 => Some(l.clone()),
                _ => None,
            };
            let exp_call = match exp {
                Inst::Jal(1, l) => Some(l.clone()),
                _ => None,
            };
            // an instruction may be called an unconditional jump only if it transfers
            // control for all operand values
            if node.is_unconditional_jump() {
                let always = match exp {
                    Inst::Jal(..) | Inst::Jalr(..) => true,
                    Inst::Branch(op, a, b, _) => {
                        let g = grid();
                        g.iter().all(|x| {
                            g.iter().all(|y| {
                                let va = if *a == 0 { 0 } else { *x };
                                let vb = if *b == 0 { 0 } else if b == a { *x } else { *y };
                                op.taken(va, vb)
                            })
                        })
                    }
                    _ => false,
                };
                if !always {
                    acc.violation(
                        format!("C08|called-unconditional-but-conditional|{}|{}", dc.form, mnemonic),
                        case,
                        witness("is_unconditional_jump() holds for an instruction that can fall through", json!(exp.base_text())),
                    );
                    return;
                }
            }
            let got_jump = node.jumps_to().map(|l| l.get().as_str().to_string());
            let got_call = node.calls_to().map(|l| l.get().as_str().to_string());
            if exp_jump != got_jump || exp_call != got_call || exp.is_ret() != node.is_return() {
                acc.violation(
                    format!("C08|control-props|{}|{}", dc.form, mnemonic),
                    case,
                    witness(
                        "jumps_to/calls_to/is_return differ",
                        json!({"jumps_to": got_jump, "calls_to": got_call, "is_return": node.is_return()}),
                    ),
                );
                return;
            }
        }
    }

    fn run_fold(&self, case: u64, fc: &FoldCase, acc: &mut Acc) {
        acc.count("fold_cases", 1);
        let Ok(rinst) = RInst::from_str(fc.mnemonic) else {
            acc.violation(
                format!("C08|fold-unknown-mnemonic|{}", fc.mnemonic),
                case,
                json!({"kind": "fold", "mnemonic": fc.mnemonic}),
            );
            return;
        };
        let Some(mop) = rinst.math_op() else {
            acc.violation(
                format!("C08|fold-no-mathop|{}", fc.mnemonic),
                case,
                json!({"kind": "fold", "mnemonic": fc.mnemonic}),
            );
            return;
        };
        // scalar_op must exist exactly for add/addi/sub ("orig + k" arithmetic)
        let scalar = rinst.scalar_op();
        let scalar_expected = matches!(fc.mnemonic, "add" | "addi" | "sub");
        if scalar.is_some() != scalar_expected {
            acc.violation(
                format!("C08|scalar-op-presence|{}", fc.mnemonic),
                case,
                json!({"kind": "fold", "mnemonic": fc.mnemonic, "scalar_op_present": scalar.is_some()}),
            );
        }
        let a = fc.a;
        for b in fold_operands(fc.extra) {
            let want = alu32(fc.op, a, b);
            acc.count("fold_pairs", 1);
            let got = catch_unwind(AssertUnwindSafe(|| mop.operate(a as i32, b as i32)));
            let why = match got {
                Ok(v) if v as u32 == want => {
                    if let Some(sop) = &scalar {
                        let g2 = catch_unwind(AssertUnwindSafe(|| sop.operate(a as i32, b as i32)));
                        match g2 {
                            Ok(v2) if v2 as u32 == want => None,
                            Ok(_) => Some("scalar-wrong-value".to_string()),
                            Err(_) => Some(format!("scalar-panic-{}", crate::profile())),
                        }
                    } else {
                        None
                    }
                }
                Ok(_) => Some("wrong-value".to_string()),
                Err(_) => Some(format!("panic-{}", crate::profile())),
            };
            if let Some(why) = why {
                let got_s = match catch_unwind(AssertUnwindSafe(|| mop.operate(a as i32, b as i32))) {
                    Ok(v) => format!("{:#x}", v as u32),
                    Err(e) => format!("panic: {}", imp::panic_message(e)),
                };
                acc.violation(
                    format!("C08|fold|{}|{}", fc.mnemonic, why),
                    case,
                    json!({"kind": "fold", "mnemonic": fc.mnemonic, "a": a, "b": b,
                           "a_hex": format!("{a:#x}"), "b_hex": format!("{b:#x}"),
                           "expected": format!("{want:#x}"), "got": got_s, "profile": crate::profile()}),
                );
            } else {
                acc.count("traces", 1);
            }
        }
        acc.outcome(&format!("fold:{}", fc.mnemonic), case);
    }
}

impl Property for C08 {
    fn id(&self) -> &'static str {
        "C08"
    }
    fn cases(&self, tier: Tier) -> u64 {
        (self.decode.len() + self.folds(tier).len()) as u64
    }
    fn chunk(&self, _tier: Tier) -> u64 {
        400
    }
    fn profiles(&self, _tier: Tier) -> Vec<&'static str> {
        vec!["release", "checked"]
    }
    fn run_case(&self, tier: Tier, case: u64, acc: &mut Acc) {
        acc.count("cases", 1);
        let i = case as usize;
        if i < self.decode.len() {
            let dc = &self.decode[i];
            if i % 977 == 0 {
                acc.sample(json!({"decode": dc.text, "expected": dc.expected.iter().map(|x| x.base_text()).collect::<Vec<_>>()}));
            }
            self.run_decode(case, dc, acc);
        } else {
            let fc = &self.folds(tier)[i - self.decode.len()];
            if (i - self.decode.len()) % 501 == 0 {
                acc.sample(json!({"fold": fc.mnemonic, "a": fc.a, "b": "every grid value"}));
            }
            self.run_fold(case, fc, acc);
        }
    }
    fn replay(&self, w: &Value, acc: &mut Acc) {
        match w["kind"].as_str() {
            Some("decode") => {
                let text = w["text"].as_str().unwrap_or("");
                if let Some(dc) = self.decode.iter().find(|d| d.text == text) {
                    self.run_decode(0, dc, acc);
                }
            }
            Some("fold") => {
                let m = w["mnemonic"].as_str().unwrap_or("");
                let a = w["a"].as_u64().unwrap_or(0) as u32;
                if let Some(fc) = self
                    .fold_t
                    .iter()
                    .find(|f| f.mnemonic == m && f.a == a)
                {
                    self.run_fold(0, fc, acc);
                }
            }
            _ => {}
        }
    }
    fn info(&self, tier: Tier) -> Info {
        Info {
            rule: "every entry of the decode table (mnemonic x operand form x registers {x0,ra,sp,t0,s11,t6,a7} x boundary immediates) is parsed by the real parser and compared with the manual's meaning, structurally or by executing both on every pair of grid values; every foldable mnemonic x every pair of grid values through MathOp::operate. Non-trivial = distinct decode cases accepted by the parser plus fold rows compared".into(),
            bounds: json!({"decode_cases": self.decode.len(), "fold_rows": self.folds(tier).len(), "grid": fold_operands(tier == Tier::Thorough).len(), "profiles": "release and checked"}),
            assumptions: vec![
                "decode table and ALU transcribed by hand from the RISC-V manual; the two ALU implementations are cross-checked on the grid at start-up".into(),
                "manual forms the parser rejects are counted, not reported (the property speaks of accepted forms)".into(),
                "CSR pseudo-instructions with RARS operand order (csrw rs, csr) and sgez have no official meaning and are not in the table".into(),
            ],
            states_counter: "cases",
            transitions_counter: "transitions",
            traces_counter: "traces",
            nontrivial_counter: "traces",
            exhaustive: true,
        }
    }
    fn finish(&self, _tier: Tier, acc: &mut Acc) {
        let t = acc.get("fold_pairs") + acc.get("decode_cases") + acc.get("equivalence_states");
        acc.count("transitions", t);
    }
}
