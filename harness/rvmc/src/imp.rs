//! Adapter to the implementation under test (the real riscv_analysis crate).

use riscv_analysis::cfg::Cfg;
use riscv_analysis::parser::{ParseError, ParserNode, RVParser, Range};
use riscv_analysis::passes::{
    CfgError, DiagnosticItem, DiagnosticLocation, DiagnosticManager, DiagnosticMessage, Manager,
    SeverityLevel,
};
use riscv_analysis::reader::{FileReader, FileReaderError};
use riscv_analysis::verif;
use serde::{Deserialize, Serialize};
use std::panic::{catch_unwind, AssertUnwindSafe};
use uuid::Uuid;

/// Answer of the in-memory reader to one import request.
#[derive(Clone, Copy, Debug, PartialEq, Eq, Serialize, Deserialize)]
pub enum Answer {
    Ok,
    InvalidPath,
    IOErr,
    FileAlreadyRead,
    InternalFileNotFound,
    Unexpected,
}
pub const FAULTS: [Answer; 5] = [
    Answer::InvalidPath,
    Answer::IOErr,
    Answer::FileAlreadyRead,
    Answer::InternalFileNotFound,
    Answer::Unexpected,
];

/// In-memory file reader owned by the harness. File `i` gets the UUID
/// `uuid_order[i] + 1` so that the relative order of file UUIDs is a decision
/// of the harness.
#[derive(Clone)]
pub struct MemReader {
    pub files: Vec<(String, String)>,
    pub uuid_order: Vec<u128>,
    /// answers[k] overrides the k-th import request (default Ok / not found)
    pub answers: Vec<Answer>,
    pub imports: Vec<(String, Uuid, usize)>, // (name, uuid, file index)
    pub requests: usize,
    pub base: Option<Uuid>,
    /// detect repeated inclusion of a file that is still open or was read before
    pub detect_reread: bool,
    /// refuse every import request beyond this number (0 = unlimited): keeps an
    /// unbounded include expansion finite so that it can be reported
    pub import_limit: usize,
}

impl MemReader {
    pub fn new(files: Vec<(String, String)>) -> MemReader {
        let n = files.len();
        MemReader {
            files,
            uuid_order: (0..n as u128).collect(),
            answers: vec![],
            imports: vec![],
            requests: 0,
            base: None,
            detect_reread: false,
            import_limit: 0,
        }
    }
    pub fn single(text: &str) -> MemReader {
        MemReader::new(vec![("base.s".to_string(), text.to_string())])
    }
    pub fn rank_of(&self, u: Uuid) -> Option<usize> {
        self.imports.iter().position(|(_, x, _)| *x == u)
    }
    pub fn file_index_of(&self, u: Uuid) -> Option<usize> {
        self.imports.iter().find(|(_, x, _)| *x == u).map(|x| x.2)
    }
}

impl FileReader for MemReader {
    fn import_file(
        &mut self,
        path: &str,
        _parent: Option<Uuid>,
    ) -> Result<(Uuid, String), FileReaderError> {
        let k = self.requests;
        self.requests += 1;
        if self.import_limit > 0 && self.requests > self.import_limit {
            return Err(FileReaderError::IOErr("import limit of the harness reached".into()));
        }
        match self.answers.get(k).copied().unwrap_or(Answer::Ok) {
            Answer::Ok => {}
            Answer::InvalidPath => return Err(FileReaderError::InvalidPath),
            Answer::IOErr => return Err(FileReaderError::IOErr("injected".into())),
            Answer::FileAlreadyRead => {
                return Err(FileReaderError::FileAlreadyRead(path.to_string()))
            }
            Answer::InternalFileNotFound => return Err(FileReaderError::InternalFileNotFound),
            Answer::Unexpected => return Err(FileReaderError::Unexpected),
        }
        let Some(i) = self.files.iter().position(|(n, _)| n == path) else {
            return Err(FileReaderError::IOErr("No such file or directory (os error 2)".to_string()));
        };
        if self.detect_reread && self.imports.iter().any(|(_, _, fi)| *fi == i) {
            return Err(FileReaderError::FileAlreadyRead(path.to_string()));
        }
        let rank = self.imports.len();
        // a file imported several times gets a fresh UUID each time (like the CLI reader)
        let ord = self.uuid_order.get(i).copied().unwrap_or(i as u128);
        let uuid = Uuid::from_u128(ord * 1000 + rank as u128 + 1);
        self.imports.push((path.to_string(), uuid, i));
        if self.base.is_none() {
            self.base = Some(uuid);
        }
        verif::register_file(uuid, rank);
        Ok((uuid, self.files[i].1.clone()))
    }
    fn get_text(&self, uuid: Uuid) -> Option<String> {
        self.file_index_of(uuid).map(|i| self.files[i].1.clone())
    }
    fn get_filename(&self, uuid: Uuid) -> Option<String> {
        self.file_index_of(uuid).map(|i| self.files[i].0.clone())
    }
    fn get_base_file(&self) -> Option<Uuid> {
        self.base
    }
}

/// Normalized, UUID-free view of one diagnostic.
#[derive(Clone, Debug, PartialEq, Eq, PartialOrd, Ord, Serialize, Deserialize, Hash)]
pub struct Diag {
    pub code: String,
    pub title: String,
    pub level: String,
    /// index of the file in the reader's file list; -1 = nil/unknown UUID
    pub file: i64,
    pub start_raw: usize,
    pub end_raw: usize,
    pub start_line: usize,
    pub start_col: usize,
    pub end_line: usize,
    pub end_col: usize,
    pub description: String,
    pub related: Vec<(i64, usize, usize, String)>,
    pub raw_text: String,
    /// which import of the file (rank of the import request; a file included twice is two
    /// instances of the same text); -1 = unknown
    #[serde(default)]
    pub instance: i64,
}

pub fn level_name(l: &SeverityLevel) -> &'static str {
    match l {
        SeverityLevel::Error => "Error",
        SeverityLevel::Warning => "Warning",
        SeverityLevel::Information => "Info",
        SeverityLevel::Hint => "Hint",
    }
}

fn mk_diag(
    reader: &MemReader,
    code: &str,
    title: String,
    level: &SeverityLevel,
    file: Uuid,
    range: &Range,
    description: String,
    related: Vec<(i64, usize, usize, String)>,
    raw_text: String,
) -> Diag {
    Diag {
        code: code.to_string(),
        title,
        level: level_name(level).to_string(),
        file: reader.file_index_of(file).map(|x| x as i64).unwrap_or(-1),
        start_raw: range.start().raw_index(),
        end_raw: range.end().raw_index(),
        start_line: range.start().zero_idx_line(),
        start_col: range.start().zero_idx_column(),
        end_line: range.end().zero_idx_line(),
        end_col: range.end().zero_idx_column(),
        description,
        related,
        raw_text,
        instance: reader.rank_of(file).map(|x| x as i64).unwrap_or(-1),
    }
}

pub fn parse_error_code(e: &ParseError) -> &'static str {
    match e {
        ParseError::Expected(..) => "parse-expected",
        ParseError::Unsupported(_) => "parse-unsupported",
        ParseError::UnexpectedToken(_) => "parse-unexpected-token",
        ParseError::UnexpectedError(_) => "parse-unexpected-error",
        ParseError::IncompleteStatement(_) => "parse-incomplete-statement",
        ParseError::UnknownDirective(_) => "parse-unknown-directive",
        ParseError::CyclicDependency(_) => "parse-cyclic-dependency",
        ParseError::FileNotFound(_) => "parse-file-not-found",
        ParseError::IOError(..) => "parse-io-error",
        ParseError::InvalidString(..) => "parse-invalid-string",
    }
}

pub fn cfg_error_code(e: &CfgError) -> &'static str {
    match e {
        CfgError::LabelsNotDefined(_) => "cfg-labels-not-defined",
        CfgError::DuplicateLabel(_) => "cfg-duplicate-label",
        CfgError::MultipleLabelsForReturn(..) => "cfg-multiple-labels-for-return",
        CfgError::NoLabelForReturn(_) => "cfg-no-label-for-return",
        CfgError::LabelWithoutInstruction(_) => "cfg-label-without-instruction",
        CfgError::FunctionWithoutReturn(_) => "cfg-function-without-return",
        CfgError::UnexpectedError => "cfg-unexpected-error",
        CfgError::AssertionError => "cfg-assertion-error",
    }
}

pub fn parse_error_diag(reader: &MemReader, e: &ParseError) -> Diag {
    mk_diag(
        reader,
        parse_error_code(e),
        e.title(),
        &e.level(),
        e.file(),
        &e.range(),
        e.description(),
        vec![],
        e.raw_text(),
    )
}

pub fn cfg_error_diag(reader: &MemReader, e: &CfgError) -> Diag {
    mk_diag(
        reader,
        cfg_error_code(e),
        e.title(),
        &e.level(),
        e.file(),
        &e.range(),
        e.description(),
        vec![],
        e.raw_text(),
    )
}

pub fn lint_diags(reader: &MemReader, dm: &DiagnosticManager) -> Vec<Diag> {
    dm.iter()
        .map(|d| {
            let related = d
                .get_related_information()
                .map(|it| {
                    it.map(|r| {
                        (
                            reader.file_index_of(r.file()).map(|x| x as i64).unwrap_or(-1),
                            r.range().start().raw_index(),
                            r.range().end().raw_index(),
                            r.get_description(),
                        )
                    })
                    .collect()
                })
                .unwrap_or_default();
            mk_diag(
                reader,
                d.get_error_code(),
                d.get_title().to_string(),
                &d.get_severity(),
                d.file(),
                &d.range(),
                d.get_long_description(),
                related,
                d.raw_text(),
            )
        })
        .collect()
}

pub fn item_diag(reader: &MemReader, d: &DiagnosticItem) -> Diag {
    mk_diag(
        reader,
        "",
        d.title.clone(),
        &d.level,
        d.file,
        &d.range,
        d.description.clone(),
        d.related
            .as_ref()
            .map(|v| {
                v.iter()
                    .map(|r| {
                        (
                            reader.file_index_of(r.file).map(|x| x as i64).unwrap_or(-1),
                            r.range.start().raw_index(),
                            r.range.end().raw_index(),
                            r.description.clone(),
                        )
                    })
                    .collect()
            })
            .unwrap_or_default(),
        String::new(),
    )
}

/// Everything one controlled run of the pipeline produced.
pub struct Run {
    pub reader: MemReader,
    pub nodes: Vec<ParserNode>,
    pub parse_errors: Vec<ParseError>,
    pub cfg: Result<Cfg, Box<CfgError>>,
    /// parse errors, then lints (or the CFG error), unsorted
    pub diags: Vec<Diag>,
    pub report: verif::Report,
}

/// A finished CFG is a graph of `Rc` cycles and would never be freed: break the
/// cycles the public API lets us break (edges, function bodies and exits).
pub fn dispose(cfg: &Cfg) {
    let mut seen: Vec<std::rc::Rc<riscv_analysis::cfg::Function>> = Vec::new();
    for f in cfg.functions().values() {
        if !seen.iter().any(|x| std::rc::Rc::ptr_eq(x, f)) {
            seen.push(std::rc::Rc::clone(f));
        }
    }
    for f in seen {
        let _ = f.set_nodes(vec![]);
        let _ = f.set_exit(f.entry());
    }
    for n in cfg.nodes() {
        n.clear_nexts();
        n.clear_prevs();
    }
}

impl Drop for Run {
    fn drop(&mut self) {
        if let Ok(cfg) = &self.cfg {
            dispose(cfg);
        }
    }
}

#[derive(Debug, Clone)]
pub struct Panicked(pub String);

pub fn panic_message(e: Box<dyn std::any::Any + Send>) -> String {
    if let Some(s) = e.downcast_ref::<&str>() {
        (*s).to_string()
    } else if let Some(s) = e.downcast_ref::<String>() {
        s.clone()
    } else {
        "panic".to_string()
    }
}

/// Run `f` under a controlled schedule, catching panics.
pub fn controlled<T>(schedule: &[u32], f: impl FnOnce() -> T) -> Result<(T, verif::Report), Panicked> {
    verif::clear_files();
    verif::begin(schedule);
    let r = catch_unwind(AssertUnwindSafe(f));
    match r {
        Ok(v) => {
            let rep = catch_unwind(AssertUnwindSafe(verif::end));
            match rep {
                Ok(rep) => Ok((v, rep)),
                Err(e) => {
                    verif::abort();
                    Err(Panicked(panic_message(e)))
                }
            }
        }
        Err(e) => {
            verif::abort();
            Err(Panicked(panic_message(e)))
        }
    }
}

/// Parse `base` through the in-memory reader.
pub fn parse(reader: MemReader, base: &str) -> (MemReader, Vec<ParserNode>, Vec<ParseError>) {
    let mut parser = RVParser::new(reader);
    let (nodes, errs) = parser.parse_from_file(base, false);
    (parser.reader, nodes, errs)
}

/// parse + gen_full_cfg under a schedule.
pub fn analyze(reader: MemReader, base: &str, schedule: &[u32]) -> Result<Run, Panicked> {
    let base = base.to_string();
    let ((reader, nodes, parse_errors, cfg, diags), report) = controlled(schedule, move || {
        let (reader, nodes, errs) = parse(reader, &base);
        let cfg = Manager::gen_full_cfg(nodes.clone());
        let mut diags: Vec<Diag> = errs.iter().map(|e| parse_error_diag(&reader, e)).collect();
        match &cfg {
            Ok(cfg) => {
                let mut dm = DiagnosticManager::new();
                Manager::run_diagnostics(cfg, &mut dm);
                diags.extend(lint_diags(&reader, &dm));
            }
            Err(e) => diags.push(cfg_error_diag(&reader, e)),
        }
        (reader, nodes, errs, cfg, diags)
    })?;
    Ok(Run {
        reader,
        nodes,
        parse_errors,
        cfg,
        diags,
        report,
    })
}

pub fn analyze_text(text: &str) -> Result<Run, Panicked> {
    analyze(MemReader::single(text), "base.s", &[])
}

/// The library entry point used by the editor integration, under a schedule:
/// `RVParser::run`. Returns normalized items in reported order.
pub fn run_library(reader: MemReader, base: &str, schedule: &[u32]) -> Result<(Vec<Diag>, verif::Report, MemReader), Panicked> {
    let base = base.to_string();
    let ((items, reader), rep) = controlled(schedule, move || {
        let mut parser = RVParser::new(reader);
        let items = parser.run(&base);
        (items, parser.reader)
    })?;
    let diags = items.iter().map(|d| item_diag(&reader, d)).collect();
    Ok((diags, rep, reader))
}

/// Full pipeline with codes, mirroring `RVParser::run` (parse errors + lints or
/// CFG error, stable sort by (file uuid, range)); one schedule for everything.
pub fn run_full(reader: MemReader, base: &str, schedule: &[u32]) -> Result<(Vec<Diag>, verif::Report, MemReader, bool), Panicked> {
    let base = base.to_string();
    let ((diags, reader, cfg_ok), rep) = controlled(schedule, move || {
        let (reader, nodes, errs) = parse(reader, &base);
        let mut keyed: Vec<(Uuid, Range, Diag)> = errs
            .iter()
            .map(|e| (e.file(), e.range(), parse_error_diag(&reader, e)))
            .collect();
        let mut cfg_ok = true;
        match Manager::run(nodes) {
            Ok(dm) => {
                for (d, raw) in lint_diags(&reader, &dm).into_iter().zip(dm.iter()) {
                    keyed.push((raw.file(), raw.range(), d));
                }
            }
            Err(e) => {
                cfg_ok = false;
                keyed.push((e.file(), e.range(), cfg_error_diag(&reader, &e)));
            }
        }
        keyed.sort_by(|a, b| {
            (reader.get_filename(a.0), &a.1).cmp(&(reader.get_filename(b.0), &b.1))
        });
        (keyed.into_iter().map(|x| x.2).collect::<Vec<_>>(), reader, cfg_ok)
    })?;
    Ok((diags, rep, reader, cfg_ok))
}
