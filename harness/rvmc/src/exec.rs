//! Execute a harness program with the reference interpreter *along* the
//! implementation's CFG: every executed instruction is bound to its CFG node,
//! an activation monitor keeps one frame per function activation and decides
//! when an execution leaves the supported subset of a property.

use crate::model::*;
use riscv_analysis::cfg::{Cfg, CfgNode};
use riscv_analysis::parser::InstructionProperties;
use std::rc::Rc;

pub struct Binding {
    pub program_entry: Rc<CfgNode>,
    /// CFG node of the i-th instruction
    pub inst_nodes: Vec<Rc<CfgNode>>,
    /// synthetic function-entry node directly in front of the i-th instruction
    pub entry_before: Vec<Option<Rc<CfgNode>>>,
    /// index in cfg.nodes() of the i-th instruction
    pub node_index: Vec<usize>,
}

pub fn bind(cfg: &Cfg, prog: &Program) -> Result<Binding, String> {
    let nodes = cfg.nodes();
    let n_inst = prog.insts().len();
    let mut program_entry = None;
    let mut inst_nodes = Vec::new();
    let mut entry_before = Vec::new();
    let mut node_index = Vec::new();
    let mut pending_entry: Option<Rc<CfgNode>> = None;
    for (k, n) in nodes.iter().enumerate() {
        if n.is_program_entry() {
            if k != 0 {
                return Err("program entry is not the first node".into());
            }
            program_entry = Some(Rc::clone(n));
        } else if n.is_function_entry() {
            pending_entry = Some(Rc::clone(n));
        } else if n.is_instruction() {
            inst_nodes.push(Rc::clone(n));
            entry_before.push(pending_entry.take());
            node_index.push(k);
        } else {
            return Err(format!("unexpected node kind at {k}"));
        }
    }
    if inst_nodes.len() != n_inst {
        return Err(format!(
            "node/instruction count mismatch: {} nodes, {} instructions",
            inst_nodes.len(),
            n_inst
        ));
    }
    Ok(Binding {
        program_entry: program_entry.ok_or("no program entry")?,
        inst_nodes,
        entry_before,
        node_index,
    })
}

#[derive(Clone, Debug)]
pub struct Frame {
    /// register values when this activation started (function entry / program start)
    pub snapshot: [u32; 32],
    /// instruction index the activation must return to (None for the outermost)
    pub ret_to: Option<usize>,
    /// index of the call instruction that created the activation
    pub call_index: Option<usize>,
    /// registers right after the call instruction executed (for the callee check)
    pub at_call: [u32; 32],
    /// the callee wrote into its caller's frame (address >= sp at call)
    pub wrote_caller_frame: bool,
    /// serial number of the activation
    pub serial: u64,
}

#[derive(Debug)]
pub enum Event<'a> {
    ProgramStart,
    /// passed the function-entry node in front of instruction `idx`
    EnterFunction {
        idx: usize,
        via_call: bool,
        /// instruction executed just before (None at program start)
        from: Option<usize>,
    },
    /// about to execute instruction idx (top frame is its activation)
    Before { idx: usize, from: Option<usize>, via_call_return: bool },
    /// executed instruction idx
    After { idx: usize, info: &'a StepInfo },
    /// a callee activation returned properly to the instruction after `call_idx`;
    /// the machine is in the caller's activation again
    Returned { call_idx: usize, callee_reads: u32, callee_entry_idx: usize },
    /// about to execute `ret` of an activation that was created by a call
    LeftSubset(&'static str),
    Stopped(&'a Stop),
}

pub struct Limits {
    pub horizon: usize,
    /// leave the subset when a callee returns with sp / saved registers changed
    /// or after writing its caller's frame (C01); when false only the return
    /// target matters (C02, C03)
    pub require_callee_convention: bool,
}

pub fn in_stack_region(a: u32) -> bool {
    a >= STACK_TOP - 0x10000 && a < STACK_TOP.wrapping_add(0x10000)
}

/// Run; `on` sees every event together with the machine and the frame stack.
/// Returns the number of executed instructions.
pub fn run_traced(
    img: &Image,
    b: &Binding,
    m: &mut Machine,
    env: &mut Env,
    lim: &Limits,
    on: &mut dyn FnMut(&Event, &Machine, &[Frame]),
) -> usize {
    let mut frames: Vec<Frame> = vec![Frame {
        snapshot: m.regs,
        ret_to: None,
        call_index: None,
        at_call: m.regs,
        wrote_caller_frame: false,
        serial: 0,
    }];
    let mut serial = 0u64;
    on(&Event::ProgramStart, m, &frames);
    let mut steps = 0usize;
    let mut prev: Option<usize> = None;
    let mut pending_call: Option<usize> = None; // call instruction just executed
    let mut just_returned = false;
    m.pc = 0;
    loop {
        if steps >= lim.horizon {
            on(&Event::Stopped(&Stop::Horizon), m, &frames);
            return steps;
        }
        let idx = m.pc;
        if idx >= img.insts.len() {
            on(&Event::Stopped(&Stop::FellOffEnd), m, &frames);
            return steps;
        }
        // function-entry node in front of this instruction?
        if b.entry_before[idx].is_some() {
            let via_call = pending_call.is_some();
            if let Some(ci) = pending_call {
                serial += 1;
                frames.push(Frame {
                    snapshot: m.regs,
                    ret_to: Some(ci + 1),
                    call_index: Some(ci),
                    at_call: m.regs,
                    wrote_caller_frame: false,
                    serial,
                });
            } else if let Some(top) = frames.last_mut() {
                // A function entry passed along an edge (a branch back to the function's
                // label, a fall-through or jump from other code) re-bases "value at entry
                // to the enclosing function": the repository's own test
                // no-invalid-assign-for-ret pins this reading (main falls into `other`
                // with ra changed and `ret` must not be blamed).
                top.snapshot = m.regs;
            }
            on(
                &Event::EnterFunction {
                    idx,
                    via_call,
                    from: prev,
                },
                m,
                &frames,
            );
        } else if pending_call.is_some() {
            // call to a label that has no function entry: not expected
            on(&Event::LeftSubset("call target without function entry"), m, &frames);
            return steps;
        }
        pending_call = None;
        on(
            &Event::Before {
                idx,
                from: prev,
                via_call_return: just_returned,
            },
            m,
            &frames,
        );
        just_returned = false;
        let inst = img.insts[idx];
        let is_ret = inst.is_ret();
        // indirect jumps other than ret are outside every supported subset
        if matches!(inst, Inst::Jalr(..)) && !is_ret {
            on(&Event::LeftSubset("indirect jump"), m, &frames);
            return steps;
        }
        let sp_before = m.get(SP);
        let res = step(img, m, env);
        steps += 1;
        let info = match res {
            Ok(i) => i,
            Err(stop) => {
                on(&Event::Stopped(&stop), m, &frames);
                return steps;
            }
        };
        // stack discipline
        if let Some((addr, _bytes, is_store)) = info.mem {
            if is_store && in_stack_region(addr) {
                if info.base_reg != Some(SP) {
                    if lim.require_callee_convention {
                        // the step that leaves the subset is not checked any more
                        on(
                            &Event::LeftSubset("stack written through a register other than sp"),
                            m,
                            &frames,
                        );
                        return steps;
                    }
                }
                if let Some(top) = frames.last_mut() {
                    if top.call_index.is_some() && addr >= top.at_call[SP as usize] {
                        top.wrote_caller_frame = true;
                    }
                }
            }
        }
        let _ = sp_before;
        on(&Event::After { idx, info: &info }, m, &frames);
        if info.is_call {
            pending_call = Some(idx);
        }
        if is_ret {
            // return from an activation created by a call
            let top = frames.last().cloned();
            match top {
                Some(f) if f.call_index.is_some() => {
                    let ok_target = info.next == f.ret_to;
                    let mut ok_regs = m.get(SP) == f.at_call[SP as usize];
                    for r in 0..32u8 {
                        if is_saved(r) && m.get(r) != f.at_call[r as usize] {
                            ok_regs = false;
                        }
                    }
                    if !ok_target
                        || (lim.require_callee_convention && (!ok_regs || f.wrote_caller_frame))
                    {
                        on(&Event::LeftSubset("callee does not respect the convention"), m, &frames);
                        return steps;
                    }
                    let call_idx = f.call_index.unwrap_or(0);
                    frames.pop();
                    just_returned = true;
                    on(
                        &Event::Returned {
                            call_idx,
                            callee_reads: 0,
                            callee_entry_idx: 0,
                        },
                        m,
                        &frames,
                    );
                }
                _ => {
                    // ret in the outermost activation that did not halt: a jump through ra
                    on(&Event::LeftSubset("ret outside a called function"), m, &frames);
                    return steps;
                }
            }
        }
        prev = Some(idx);
    }
}
