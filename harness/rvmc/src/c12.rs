//! C12 — analysis results are a stable fixed point of the pass pipeline.
//!
//! Per program a transition system is explored with stateright (BFS):
//! states = canonical dump of the CFG facts + diagnostics, transitions = the
//! real `AvailableValuePass::run`, `EcallTerminationPass::run`,
//! `LivenessPass::run` applied to the finished graph. A state can only be
//! re-created by re-execution (a Cfg is an Rc graph), so a state carries the
//! action history that reaches it and is keyed by its full dump.

use crate::driver::*;
use crate::dump::canon_dump;
use crate::gen::*;
use crate::imp;
use riscv_analysis::analysis::{AvailableValuePass, LivenessPass};
use riscv_analysis::gen::EcallTerminationPass;
use riscv_analysis::passes::{DiagnosticManager, GenerationPass, Manager};
use serde_json::{json, Value};
use stateright::{Checker, Model, Property as SrProperty};
use std::hash::{Hash, Hasher};
use std::sync::atomic::{AtomicU64, Ordering};

#[derive(Clone, Copy, Debug, PartialEq, Eq, Hash)]
pub enum Act {
    Values,
    EcallCut,
    Liveness,
}
const ACTS: [Act; 3] = [Act::Values, Act::EcallCut, Act::Liveness];

#[derive(Clone, Debug)]
pub struct St {
    pub history: Vec<Act>,
    pub dump: String,
    pub diags: String,
}
impl PartialEq for St {
    fn eq(&self, o: &St) -> bool {
        self.dump == o.dump && self.diags == o.diags
    }
}
impl Eq for St {}
impl Hash for St {
    fn hash<H: Hasher>(&self, h: &mut H) {
        self.dump.hash(h);
        self.diags.hash(h);
    }
}

pub struct PassModel {
    pub text: String,
    pub init: St,
    pub transitions: AtomicU64,
}

/// Re-create the state reached by `history` from the source text.
pub fn materialize(text: &str, history: &[Act]) -> Result<Option<(St, Vec<riscv_analysis::verif::PassRun>, usize)>, String> {
    materialize_under(text, history, &[]).map(|o| o.map(|(s, p, n, _)| (s, p, n)))
}

/// The same under a hash-order schedule (prefix of decisions, canonical afterwards); also
/// returns the decisions taken.
#[allow(clippy::type_complexity)]
pub fn materialize_under(
    text: &str,
    history: &[Act],
    schedule: &[u32],
) -> Result<Option<(St, Vec<riscv_analysis::verif::PassRun>, usize, Vec<riscv_analysis::verif::Decision>)>, String> {
    let r = imp::controlled(schedule, || {
        let (reader, nodes, errs) = imp::parse(imp::MemReader::single(text), "base.s");
        if !errs.is_empty() {
            return Err("parse errors".to_string());
        }
        let mut cfg = match Manager::gen_full_cfg(nodes) {
            Ok(c) => c,
            Err(_) => return Ok(None),
        };
        for a in history {
            let r = match a {
                Act::Values => AvailableValuePass::run(&mut cfg),
                Act::EcallCut => EcallTerminationPass::run(&mut cfg),
                Act::Liveness => LivenessPass::run(&mut cfg),
            };
            if r.is_err() {
                return Err(format!("pass {a:?} failed"));
            }
        }
        let mut dm = DiagnosticManager::new();
        Manager::run_diagnostics(&cfg, &mut dm);
        let mut d: Vec<String> = imp::lint_diags(&reader, &dm)
            .iter()
            .map(|x| format!("{}@{}-{}:{}", x.code, x.start_raw, x.end_raw, x.title))
            .collect();
        d.sort();
        let n = cfg.nodes().len();
        Ok(Some((canon_dump(&cfg), d.join("\n"), n)))
    });
    match r {
        Ok((Ok(Some((dump, diags, n))), rep)) => Ok(Some((
            St {
                history: history.to_vec(),
                dump,
                diags,
            },
            rep.passes,
            n,
            rep.decisions,
        ))),
        Ok((Ok(None), _)) => Ok(None),
        Ok((Err(e), _)) => Err(e),
        Err(p) => Err(format!("panic: {}", p.0)),
    }
}

impl Model for PassModel {
    type State = St;
    type Action = Act;
    fn init_states(&self) -> Vec<St> {
        vec![self.init.clone()]
    }
    fn actions(&self, _s: &St, out: &mut Vec<Act>) {
        out.extend(ACTS);
    }
    fn next_state(&self, s: &St, a: Act) -> Option<St> {
        self.transitions.fetch_add(1, Ordering::Relaxed);
        let mut h = s.history.clone();
        h.push(a);
        match materialize(&self.text, &h) {
            Ok(Some((st, _, _))) => Some(st),
            // a failing extra pass run is itself a change of state
            Ok(None) => None,
            Err(e) => Some(St {
                history: h,
                dump: format!("ERROR {e}"),
                diags: String::new(),
            }),
        }
    }
    fn properties(&self) -> Vec<SrProperty<Self>> {
        vec![SrProperty::always("stable fixed point", |m: &PassModel, s: &St| {
            s.dump == m.init.dump && s.diags == m.init.diags
        })]
    }
}

pub struct C12 {
    quick: KernelSpace,
    thorough: KernelSpace,
}

impl C12 {
    pub fn new() -> C12 {
        C12 {
            // five pipeline runs plus a BFS per program: the quick tier takes the
            // control-flow sequences one symbol shorter than the other checks
            quick: KernelSpace::new(KernelBounds {
                ctl_len: 3,
                ..KernelBounds::for_tier(Tier::Quick)
            }),
            thorough: KernelSpace::new(KernelBounds {
                ctl_len: 4,
                ..KernelBounds::for_tier(Tier::Thorough)
            }),
        }
    }
    fn space(&self, tier: Tier) -> &KernelSpace {
        tier.pick(&self.quick, &self.thorough)
    }
    /// quick: control-flow part + every 7th of the rest; thorough: everything
    fn map_case(&self, tier: Tier, case: u64) -> u64 {
        let sp = self.space(tier);
        let (off, n) = sp.control_part();
        if case < n {
            off + case
        } else {
            (case - n) * self.stride(tier)
        }
    }
    fn stride(&self, tier: Tier) -> u64 {
        tier.pick(11, 5)
    }

    fn run_program(&self, tier: Tier, case: u64, k: &Kernel, acc: &mut Acc) {
        let text = k.program.text();
        let (init, passes, n_nodes) = match materialize(&text, &[]) {
            Ok(Some(x)) => x,
            Ok(None) => {
                acc.count("cfg_rejected", 1);
                acc.outcome("cfg-error", case);
                return;
            }
            Err(e) => {
                if e.contains("sweep limit") {
                    acc.violation(
                        "C12|sweep-limit-exceeded",
                        case,
                        json!({"source": text, "what": e, "case": case}),
                    );
                } else {
                    acc.count("analysis_panicked", 1);
                    acc.outcome(&format!("error:{}", e.chars().take(50).collect::<String>()), case);
                }
                return;
            }
        };
        acc.count("programs_analysed", 1);
        // sweeps of every pass run of the standard pipeline
        let mut worst = 0usize;
        for p in &passes {
            worst = worst.max(p.sweeps);
            acc.count("pass_runs", 1);
            acc.count("sweeps", p.sweeps as u64);
        }
        acc.outcome(&format!("max-sweeps:{worst}"), case);
        let _ = n_nodes;
        // the same parsed program analysed twice gives the same facts
        match materialize(&text, &[]) {
            Ok(Some((again, _, _))) => {
                acc.count("traces", 1);
                if again != init {
                    acc.violation(
                        "C12|second-analysis-differs",
                        case,
                        json!({"source": text, "case": case, "first": init.dump, "second": again.dump}),
                    );
                    return;
                }
            }
            _ => {
                acc.violation("C12|second-analysis-fails", case, json!({"source": text, "case": case}));
                return;
            }
        }
        // ... and so does an analysis under any other iteration order of the hash sets: every
        // schedule with at most one deviation from the canonical order (capped)
        {
            let mut run = |prefix: &[u32]| -> Option<(St, Vec<riscv_analysis::verif::Decision>)> {
                match materialize_under(&text, &[], prefix) {
                    Ok(Some((s, _, _, d))) => Some((s, d)),
                    _ => None,
                }
            };
            let ex = crate::sched::explore(&mut run, 1, 24, tier.pick(48, 256));
            acc.count("hash_order_schedules", ex.runs.len() as u64);
            acc.count("traces", ex.runs.len() as u64);
            if let Some(d) = &ex.replay_divergence {
                acc.violation("C12|analysis-fails-or-diverges-under-a-hash-order", case, json!({"source": text, "case": case, "what": d}));
                return;
            }
            if let Some((sch, other)) = ex.runs.iter().find(|(_, s)| *s != init) {
                let (what, a, b) = diff_kind(&init, other);
                acc.violation(
                    format!("C12|facts-depend-on-hash-order|{what}"),
                    case,
                    json!({"source": text, "case": case, "schedule": sch, "canonical": a, "under_schedule": b}),
                );
                return;
            }
        }
        let has_cycle_or_call = text.contains("jal ") || text.contains("L1") || text.contains("L2");
        if has_cycle_or_call {
            acc.count("nontrivial", 1);
        }
        let model = PassModel {
            text: text.clone(),
            init,
            transitions: AtomicU64::new(0),
        };
        let depth = tier.pick(3, 5);
        let checker = model
            .checker()
            .threads(1)
            .target_max_depth(depth)
            .spawn_bfs()
            .join();
        acc.count("states", checker.unique_state_count() as u64);
        acc.count("transitions", checker.model().transitions.load(Ordering::Relaxed));
        acc.count("traces", checker.model().transitions.load(Ordering::Relaxed));
        if let Some(path) = checker.discovery("stable fixed point") {
            let actions: Vec<String> = path.into_actions().iter().map(|a| format!("{a:?}")).collect();
            // which facts changed? (narrow class: the pass that moved the state first)
            let first = actions.last().cloned().unwrap_or_default();
            let hist: Vec<Act> = actions
                .iter()
                .map(|a| match a.as_str() {
                    "Values" => Act::Values,
                    "EcallCut" => Act::EcallCut,
                    _ => Act::Liveness,
                })
                .collect();
            let after = materialize(&text, &hist).ok().flatten().map(|x| x.0);
            let (what, before_line, after_line) = match &after {
                Some(a) => diff_kind(&checker.model().init, a),
                None => ("pass-failed".to_string(), String::new(), String::new()),
            };
            acc.violation(
                format!("C12|not-a-fixed-point|{first}|{what}"),
                case,
                json!({"source": text, "case": case, "actions": actions, "changed": what,
                       "before": before_line, "after": after_line}),
            );
        }
    }
}

/// First differing line of two dumps, classified by the kind of fact.
fn diff_kind(a: &St, b: &St) -> (String, String, String) {
    if a.dump == b.dump {
        return ("diagnostics".into(), a.diags.clone(), b.diags.clone());
    }
    for (x, y) in a.dump.lines().zip(b.dump.lines()) {
        if x != y {
            let field = |s: &str, key: &str| -> String {
                s.split(key).nth(1).map(|r| r.split(" ").next().unwrap_or("").to_string()).unwrap_or_default()
            };
            for key in ["nexts=", "prevs=", "funcs=", "rin=", "rout=", "min=", "mout=", "live_in=", "live_out=", "u_def="] {
                // fields may contain spaces; compare the text between this key and the next key
                let seg = |s: &str| -> String {
                    let start = s.find(key).map(|i| i + key.len()).unwrap_or(s.len());
                    let rest = &s[start..];
                    let end = [" nexts=", " prevs=", " funcs=", " rin=", " rout=", " min=", " mout=", " live_in=", " live_out=", " u_def="]
                        .iter()
                        .filter_map(|k| rest.find(k))
                        .min()
                        .unwrap_or(rest.len());
                    rest[..end].to_string()
                };
                if seg(x) != seg(y) {
                    let _ = field;
                    return (key.trim_end_matches('=').to_string(), x.to_string(), y.to_string());
                }
            }
            return ("node".into(), x.to_string(), y.to_string());
        }
    }
    ("length".into(), String::new(), String::new())
}

impl Property for C12 {
    fn id(&self) -> &'static str {
        "C12"
    }
    fn cases(&self, tier: Tier) -> u64 {
        let sp = self.space(tier);
        let (off, n) = sp.control_part();
        n + off.div_ceil(self.stride(tier))
    }
    fn chunk(&self, tier: Tier) -> u64 {
        tier.pick(150, 1000)
    }
    fn run_case(&self, tier: Tier, case: u64, acc: &mut Acc) {
        acc.count("cases", 1);
        let k = self.space(tier).get(self.map_case(tier, case));
        if case % 9001 == 0 {
            acc.sample(json!({"case": case, "family": k.family, "source": k.program.text(),
                              "actions": ["AvailableValuePass::run", "EcallTerminationPass::run", "LivenessPass::run"]}));
        }
        self.run_program(tier, case, &k, acc);
    }
    fn show(&self, tier: Tier, case: u64) -> String {
        self.space(tier).get(self.map_case(tier, case)).program.text()
    }
    fn replay(&self, w: &Value, acc: &mut Acc) {
        if let Some(case) = w["case"].as_u64() {
            for tier in [Tier::Quick, Tier::Thorough] {
                if case < self.cases(tier) {
                    let k = self.space(tier).get(self.map_case(tier, case));
                    if Some(k.program.text().as_str()) == w["source"].as_str() {
                        self.run_program(tier, case, &k, acc);
                        return;
                    }
                }
            }
        }
        acc.notes.push("replay: case index does not reproduce the recorded source".into());
    }
    fn info(&self, tier: Tier) -> Info {
        Info {
            rule: "per program (every control-flow kernel program and skeleton, plus every 11th/5th program of the single-transfer and sequence sub-families) stateright BFS over the transition system whose transitions are the real value-analysis / ecall-termination / liveness passes applied to the finished graph; invariant: every reachable state (canonical dump of edges, six fact maps, function annotations, plus sorted diagnostics) equals the initial one; additionally a second analysis of the same program gives the same dump and every pass run stays below 4*nodes+32 sweeps. Non-trivial = programs with a label or a call".into(),
            bounds: json!({"bfs_depth": tier.pick(3, 5), "actions": 3, "sweep_limit": "4*nodes+32", "ctl_len": tier.pick(3, 4), "parts": self.space(tier).parts}),
            assumptions: vec![
                "states with equal dumps are merged: every pass is a function of exactly the dumped facts".into(),
                "hash order is canonical (all-default schedule) in the pass-sequence exploration; the second-analysis comparison covers every schedule with at most one deviation (capped at 48 / 256 runs per program)".into(),
            ],
            states_counter: "states",
            transitions_counter: "transitions",
            traces_counter: "traces",
            nontrivial_counter: "nontrivial",
            exhaustive: true,
        }
    }
}
