//! Bounded-exhaustive, index-addressable program families (DESIGN 2.5, family K).
//! `count()` and `get(i)` are pure; shorter programs come first.

use crate::driver::Tier;
use crate::model::*;

/// All sequences over an alphabet of `a` symbols with length in `min..=max`,
/// shortest first; index-addressable.
#[derive(Clone, Copy, Debug)]
pub struct SeqSpace {
    pub a: u64,
    pub min: u32,
    pub max: u32,
}
impl SeqSpace {
    pub fn count(&self) -> u64 {
        (self.min..=self.max).map(|l| self.a.pow(l)).sum()
    }
    pub fn decode(&self, mut i: u64) -> Vec<usize> {
        for l in self.min..=self.max {
            let n = self.a.pow(l);
            if i < n {
                let mut v = vec![0usize; l as usize];
                for k in (0..l as usize).rev() {
                    v[k] = (i % self.a) as usize;
                    i /= self.a;
                }
                return v;
            }
            i -= n;
        }
        panic!("SeqSpace index out of range");
    }
}

pub type Snippet = Vec<Stmt>;

fn r(op: ROp, rd: Reg, a: Reg, b: Reg) -> Stmt {
    inst(Inst::R(op, rd, a, b))
}
fn i(op: IOp, rd: Reg, a: Reg, imm: i32) -> Stmt {
    inst(Inst::I(op, rd, a, imm))
}
fn br(op: BOp, a: Reg, b: Reg, l: &str) -> Stmt {
    inst(Inst::Branch(op, a, b, l.to_string()))
}

/// A convention-respecting callee that clobbers temporaries, a0 and its own
/// frame below the caller's stack pointer.
pub fn callee_g() -> Snippet {
    vec![
        label("g"),
        addi(SP, SP, -8),
        sw(RA, 4, SP),
        li(T0, 99),
        li(T1, 98),
        li(T2, 97),
        sw(T0, 0, SP),
        // the callee keeps to the register convention - which says nothing about CSRs
        inst(Inst::CsrI(CsrOp::Rw, ZERO, 64, 9)),
        li(A0, 55),
        lw(RA, 4, SP),
        addi(SP, SP, 8),
        ret(),
    ]
}

fn data_section() -> Snippet {
    vec![
        Stmt::Directive(".data".into()),
        label("D"),
        Stmt::Directive(".word 7, 9".into()),
    ]
}

fn exit_seq() -> Snippet {
    vec![li(A7, 10), ecall()]
}

#[derive(Clone, Copy, Debug, PartialEq, Eq)]
pub enum Context {
    /// body runs as the main program, followed by an exit ecall
    Main,
    /// body is the function f, called once from main
    Callee,
}

/// Wrap a body into a complete program.
pub fn wrap(body: &[Stmt], ctx: Context, uses_g: bool, trailing_labels: &[&str]) -> Program {
    let mut s: Vec<Stmt> = Vec::new();
    match ctx {
        Context::Main => {
            s.push(label("main"));
            s.extend_from_slice(body);
            for l in trailing_labels {
                s.push(label(l));
            }
            s.extend(exit_seq());
        }
        Context::Callee => {
            s.push(label("main"));
            s.push(li(T0, 11));
            s.push(li(T1, 12));
            s.push(li(S0, 13));
            s.push(call("f"));
            s.extend(exit_seq());
            s.push(label("f"));
            s.extend_from_slice(body);
            for l in trailing_labels {
                s.push(label(l));
            }
            s.push(ret());
        }
    }
    if uses_g {
        s.extend(callee_g());
    }
    s.extend(data_section());
    Program { stmts: s }
}

fn uses_label(body: &[Stmt], l: &str) -> bool {
    body.iter().any(|s| match s {
        Stmt::Inst(_, Inst::Jal(_, t)) | Stmt::Inst(_, Inst::Branch(_, _, _, t)) => t == l,
        _ => false,
    })
}
fn defines_label(body: &[Stmt], l: &str) -> bool {
    body.iter().any(|s| matches!(s, Stmt::Label(t) if t == l))
}

/// Complete a body: undefined L1/L2 are placed at its end.
pub fn finish(body: Vec<Stmt>, ctx: Context) -> Program {
    let g = uses_label(&body, "g");
    let mut trailing = Vec::new();
    for l in ["L1", "L2"] {
        if uses_label(&body, l) && !defines_label(&body, l) {
            trailing.push(l);
        }
    }
    wrap(&body, ctx, g, &trailing)
}

// ------------------------------------------------------------------ alphabets

/// 27-symbol alphabet of the sequence sub-family (one representative per branch
/// of the transfer functions and rewrite rules).
pub fn seq_alphabet() -> Vec<Snippet> {
    vec![
        vec![li(T0, 7)],
        vec![li(T1, -1)],
        vec![mv(T0, T1)],
        vec![addi(T0, T0, 4)],
        vec![r(ROp::Add, T2, T0, T1)],
        vec![r(ROp::Sub, T2, T0, T1)],
        vec![addi(SP, SP, -8)],
        vec![addi(SP, SP, 8)],
        vec![sw(T0, 0, SP)],
        vec![sw(T0, 4, SP)],
        vec![sw(RA, 4, SP)],
        vec![sw(S0, 0, SP)],
        vec![lw(T0, 0, SP)],
        vec![lw(S0, 0, SP)],
        vec![lw(RA, 4, SP)],
        vec![lw(T1, 4, SP)],
        vec![li(S0, 3)],
        vec![mv(S0, T0)],
        vec![call("g")],
        vec![li(A7, 5), ecall()],
        vec![inst(Inst::Store(SOp::Sb, T0, SP, 0))],
        vec![inst(Inst::La(T0, "D".into()))],
        vec![lw(T1, 0, T0)],
        vec![sw(ZERO, 0, SP)],
        vec![li(A0, 3)],
        vec![inst(Inst::Store(SOp::Sb, T1, SP, 1))],
        vec![inst(Inst::Store(SOp::Sh, T1, SP, 6))],
    ]
}

/// Prefix alphabet of the single-transfer sub-family (state-setting snippets).
pub fn prefix_alphabet() -> Vec<Snippet> {
    vec![
        vec![li(T0, i32::MAX), li(T1, 1)],
        vec![li(T0, i32::MIN), li(T1, -1)],
        vec![li(T0, 5), li(T1, 0)],
        vec![li(T0, -7), li(T1, 33)],
        vec![li(T0, 0x1234_5678), li(T1, 16)],
        vec![addi(SP, SP, -8)],
        vec![addi(SP, SP, -8), sw(T0, 0, SP), sw(RA, 4, SP)],
        vec![inst(Inst::La(T0, "D".into()))],
        vec![mv(T0, SP)],
        vec![li(T0, 7), sw(T0, -4, SP)],
        vec![call("g")],
        vec![li(A7, 5), ecall()],
        vec![inst(Inst::Csr(CsrOp::Rw, 0, 64, T0))],
        vec![sw(S0, -4, SP), li(S0, 1)],
        vec![li(A0, 3), li(A1, 4)],
    ]
}

/// Large alphabet: one instruction each.
pub fn big_alphabet() -> Vec<Snippet> {
    let mut v: Vec<Snippet> = Vec::new();
    let srcs = [ZERO, T0, T1, SP];
    for op in ALL_ROPS {
        for rd in [T2, S0, SP] {
            for a in srcs {
                for b in srcs {
                    v.push(vec![r(op, rd, a, b)]);
                }
            }
        }
    }
    for op in ALL_IOPS {
        let imms: &[i32] = match op {
            IOp::Slli | IOp::Srli | IOp::Srai => &[0, 1, 31],
            _ => &[0, 1, -1, 4, -4, 2047, -2048],
        };
        for rd in [T2, S0, SP] {
            for a in [ZERO, T0, SP] {
                for &imm in imms {
                    v.push(vec![i(op, rd, a, imm)]);
                }
            }
        }
    }
    for imm in [0, 1, 0xfffff, 0x80000] {
        v.push(vec![inst(Inst::Lui(T2, imm))]);
    }
    for imm in [0, -1, 2048, 0x1234_5678, i32::MAX, i32::MIN + 1] {
        v.push(vec![li(T2, imm)]);
    }
    for op in [LOp::Lb, LOp::Lbu, LOp::Lh, LOp::Lhu, LOp::Lw] {
        for rd in [T2, S0, RA] {
            for base in [SP, T0] {
                for off in [-8, -4, 0, 4] {
                    v.push(vec![inst(Inst::Load(op, rd, base, off))]);
                }
            }
        }
    }
    // a word loaded through a register that merely still holds its entry value (s0, ra) is not
    // a load from the stack, whatever its offset
    for base in [S0, RA] {
        for off in [-8, -4, 0, 4] {
            v.push(vec![inst(Inst::Load(LOp::Lw, T2, base, off))]);
        }
    }
    for op in [SOp::Sb, SOp::Sh, SOp::Sw] {
        for val in [T0, RA, S0, ZERO, A0] {
            for base in [SP, T0] {
                for off in [-8, -4, 0, 4] {
                    v.push(vec![inst(Inst::Store(op, val, base, off))]);
                }
            }
        }
    }
    // sub-word accesses that land strictly inside a word (a tracked slot must not survive
    // a partial overwrite; a partial read is not the slot's value)
    for off in [-7, -6, -5, -3, -2, -1, 1, 2, 3, 5, 6, 7] {
        v.push(vec![inst(Inst::Store(SOp::Sb, T1, SP, off))]);
        v.push(vec![inst(Inst::Load(LOp::Lbu, T2, SP, off))]);
        if off % 2 == 0 {
            v.push(vec![inst(Inst::Store(SOp::Sh, T1, SP, off))]);
            v.push(vec![inst(Inst::Load(LOp::Lh, T2, SP, off))]);
        }
    }
    // the zero register as destination: the instruction still reads its sources and x0 stays 0
    for op in ALL_ROPS {
        for (a, b) in [(T0, T1), (ZERO, T0), (T1, ZERO), (ZERO, ZERO)] {
            v.push(vec![r(op, ZERO, a, b)]);
        }
    }
    for op in ALL_IOPS {
        for a in [ZERO, T0] {
            v.push(vec![i(op, ZERO, a, 5)]);
        }
    }
    v.push(vec![li(ZERO, 5)]);
    v.push(vec![inst(Inst::Lui(ZERO, 1))]);
    v.push(vec![inst(Inst::La(ZERO, "D".into()))]);
    v.push(vec![inst(Inst::Load(LOp::Lw, ZERO, SP, 0))]);
    v.push(vec![inst(Inst::Load(LOp::Lw, ZERO, T0, 0))]);
    // jal with a link register other than ra: a jump that writes that register
    for rd in [T0, T1, T2, S0, A0] {
        v.push(vec![inst(Inst::Jal(rd, "J".into())), label("J")]);
    }
    v.push(vec![inst(Inst::La(T2, "D".into()))]);
    // the three-operand store: the temporary is set by `auipc` / `lui` alone and holds the upper
    // part of the address (the low part goes into the store)
    v.push(vec![
        Stmt::Inst("sw t1, D, t2".into(), Inst::LaUpper(T2, "D".into(), 8)),
        Stmt::Inst(String::new(), Inst::Store(SOp::Sw, T1, T2, 8)),
    ]);
    v.push(vec![
        Stmt::Inst(format!("sw t1, {}, t2", DATA_BASE + 20), Inst::Lui(T2, (DATA_BASE >> 12) as i32)),
        Stmt::Inst(String::new(), Inst::Store(SOp::Sw, T1, T2, 20)),
    ]);
    v.push(vec![inst(Inst::Csr(CsrOp::Rw, T2, 64, T0))]);
    v.push(vec![inst(Inst::Csr(CsrOp::Rs, T2, 64, ZERO))]);
    v.push(vec![inst(Inst::CsrI(CsrOp::Rw, T2, 64, 5))]);
    v.push(vec![inst(Inst::Csr(CsrOp::Rw, ZERO, 5, T0))]);
    v.push(vec![call("g")]);
    for n in [1, 4, 5, 8, 9, 11, 12, 30, 42, 51, 54, 55, 64, 77] {
        v.push(vec![li(A7, n), ecall()]);
    }
    v.push(vec![ecall()]);
    v
}

/// CSR alphabet: a CSR as a register (write / set / clear / read) and as a pointer to a save
/// area (the interrupt-handler idiom): loads and stores of several widths through it.
pub fn csr_alphabet() -> Vec<Snippet> {
    const CSR: u32 = 64;
    vec![
        vec![inst(Inst::CsrI(CsrOp::Rw, ZERO, CSR, 1))],
        vec![inst(Inst::CsrI(CsrOp::Rs, ZERO, CSR, 4))],
        vec![inst(Inst::CsrI(CsrOp::Rc, ZERO, CSR, 1))],
        vec![inst(Inst::Csr(CsrOp::Rw, ZERO, CSR, T1))],
        vec![inst(Inst::Csr(CsrOp::Rs, ZERO, CSR, T1))],
        vec![li(T1, 0x1ff)],
        vec![inst(Inst::Csr(CsrOp::Rs, T0, CSR, ZERO))],
        vec![sw(T1, 0, T0)],
        vec![sw(ZERO, 0, T0)],
        vec![lw(T2, 0, T0)],
        vec![inst(Inst::Load(LOp::Lb, T2, T0, 0))],
        vec![inst(Inst::Store(SOp::Sb, T1, T0, 1))],
        vec![inst(Inst::La(T0, "D".into())), inst(Inst::Csr(CsrOp::Rw, ZERO, CSR, T0))],
        vec![call("g")],
    ]
}

/// Extreme-stack alphabet: positions whose distance from the entry sp does not fit 32 bits.
pub fn xstack_alphabet() -> Vec<Snippet> {
    vec![
        vec![li(T2, 0x7fff_fff8), r(ROp::Sub, SP, SP, T2)],
        vec![sw(T0, -16, SP)],
        vec![inst(Inst::Store(SOp::Sb, T1, SP, -16))],
        vec![lw(T2, -16, SP)],
        vec![call("g")],
        vec![li(T0, 7)],
        vec![addi(SP, SP, -16)],
        vec![sw(T0, 0, SP)],
    ]
}

/// Follow-up observers appended after the instruction under test so that the
/// facts it produced are consulted by later transfers.
fn observers() -> Snippet {
    vec![lw(T1, 0, SP), r(ROp::Add, A0, T2, T1), r(ROp::Add, A1, T0, ZERO), r(ROp::Or, 12, ZERO, S0)]
}

/// 13-symbol control-flow alphabet.
pub fn ctl_alphabet() -> Vec<Snippet> {
    vec![
        vec![label("L1")],
        vec![label("L2")],
        vec![br(BOp::Beq, T0, ZERO, "L1")],
        vec![br(BOp::Bne, T0, T1, "L2")],
        vec![j("L1")],
        vec![j("L2")],
        vec![call("g")],
        vec![li(T0, 1)],
        vec![addi(T0, T0, -1)],
        vec![mv(A0, T0)],
        vec![addi(SP, SP, -4), sw(S0, 0, SP)],
        vec![lw(S0, 0, SP), addi(SP, SP, 4)],
        vec![inst(Inst::Jal(T0, "L2".into()))],
    ]
}

/// Extra symbols only used in the callee context of the control-flow family.
pub fn ctl_alphabet_callee() -> Vec<Snippet> {
    let mut a = ctl_alphabet();
    a.push(vec![ret()]);
    a.push(vec![li(S0, 2)]);
    a
}

// ------------------------------------------------------------------ skeletons

/// Hand-shaped control skeletons with up to 4 slots filled from a small
/// filler alphabet: loops, diamonds, irreducible flow, recursion, multi-return.
pub fn skeleton_fillers() -> Vec<Snippet> {
    vec![
        vec![],
        vec![li(T0, 1)],
        vec![addi(T0, T0, -1)],
        vec![mv(A0, T0)],
        vec![call("g")],
        vec![addi(SP, SP, -4), sw(S0, 0, SP), li(S0, 5), lw(S0, 0, SP), addi(SP, SP, 4)],
        vec![li(A7, 1), ecall()],
    ]
}

pub const N_SKELETONS: usize = 19;

/// Build skeleton `k` with slots `s` (4 entries, indices into fillers).
pub fn skeleton(k: usize, s: &[usize]) -> Program {
    let f = skeleton_fillers();
    let sl = |n: usize| -> Snippet { f[s[n] % f.len()].clone() };
    let mut b: Vec<Stmt> = Vec::new();
    let mut ctx = Context::Main;
    match k {
        0 => {
            // simple loop
            b.extend(sl(0));
            b.push(label("L1"));
            b.extend(sl(1));
            b.push(addi(T1, T1, -1));
            b.push(br(BOp::Bne, T1, ZERO, "L1"));
            b.extend(sl(2));
            b.extend(sl(3));
        }
        1 => {
            // diamond
            b.extend(sl(0));
            b.push(br(BOp::Beq, T0, ZERO, "L1"));
            b.extend(sl(1));
            b.push(j("L2"));
            b.push(label("L1"));
            b.extend(sl(2));
            b.push(label("L2"));
            b.extend(sl(3));
        }
        2 => {
            // loop with if inside
            b.push(label("L1"));
            b.extend(sl(0));
            b.push(br(BOp::Beq, T0, T1, "L2"));
            b.extend(sl(1));
            b.push(label("L2"));
            b.extend(sl(2));
            b.push(addi(A0, A0, -1));
            b.push(br(BOp::Blt, ZERO, A0, "L1"));
            b.extend(sl(3));
        }
        3 => {
            // irreducible: two entries into a cycle
            b.push(br(BOp::Beq, T0, ZERO, "L2"));
            b.push(label("L1"));
            b.extend(sl(0));
            b.push(addi(T1, T1, -1));
            b.push(label("L2"));
            b.extend(sl(1));
            b.push(addi(T1, T1, -1));
            b.push(br(BOp::Blt, ZERO, T1, "L1"));
            b.extend(sl(2));
            b.extend(sl(3));
        }
        4 => {
            // callee with two returns
            ctx = Context::Callee;
            b.extend(sl(0));
            b.push(br(BOp::Beq, A0, ZERO, "L1"));
            b.extend(sl(1));
            b.push(ret());
            b.push(label("L1"));
            b.extend(sl(2));
            b.extend(sl(3));
        }
        5 => {
            // callee with three returns and a shared tail
            ctx = Context::Callee;
            b.push(br(BOp::Beq, A0, ZERO, "L1"));
            b.push(br(BOp::Blt, A0, ZERO, "L2"));
            b.extend(sl(0));
            b.push(ret());
            b.push(label("L1"));
            b.extend(sl(1));
            b.push(ret());
            b.push(label("L2"));
            b.extend(sl(2));
            b.extend(sl(3));
        }
        6 => {
            // recursion: f calls itself with a frame
            ctx = Context::Callee;
            b.push(addi(SP, SP, -8));
            b.push(sw(RA, 4, SP));
            b.push(sw(S0, 0, SP));
            b.extend(sl(0));
            b.push(br(BOp::Bge, ZERO, A0, "L1"));
            b.push(addi(A0, A0, -1));
            b.push(call("f"));
            b.extend(sl(1));
            b.push(label("L1"));
            b.extend(sl(2));
            b.push(lw(S0, 0, SP));
            b.push(lw(RA, 4, SP));
            b.push(addi(SP, SP, 8));
            b.extend(sl(3));
        }
        7 => {
            // nested loops
            b.push(label("L1"));
            b.extend(sl(0));
            b.push(label("L2"));
            b.extend(sl(1));
            b.push(addi(T1, T1, -1));
            b.push(br(BOp::Blt, ZERO, T1, "L2"));
            b.extend(sl(2));
            b.push(addi(T0, T0, -1));
            b.push(br(BOp::Blt, ZERO, T0, "L1"));
            b.extend(sl(3));
        }
        8 => {
            // exit in the middle, code after it reachable by a branch
            b.push(br(BOp::Beq, T0, ZERO, "L1"));
            b.extend(sl(0));
            b.push(li(A7, 10));
            b.push(ecall());
            b.push(label("L1"));
            b.extend(sl(1));
            b.extend(sl(2));
            b.extend(sl(3));
        }
        9 => {
            // an exit ecall reached over two paths that disagree on a7, one of them the
            // fall-through out of another exit ecall (value analysis and ecall
            // termination have to alternate to settle this)
            b.extend(sl(0));
            b.push(li(A7, 10));
            b.push(br(BOp::Beq, T0, ZERO, "L1"));
            b.push(li(A7, 93));
            b.push(ecall());
            b.push(label("L1"));
            b.push(ecall());
            b.extend(sl(1));
            b.extend(sl(2));
            b.extend(sl(3));
        }
        10 => {
            // the ecall number is set differently on two branches that join in front of it
            b.push(br(BOp::Beq, T0, ZERO, "L1"));
            b.push(li(A7, 10));
            b.push(j("L2"));
            b.push(label("L1"));
            b.push(li(A7, 1));
            b.extend(sl(0));
            b.push(label("L2"));
            b.push(ecall());
            b.extend(sl(1));
            b.extend(sl(2));
            b.extend(sl(3));
        }
        12 => {
            // a spill, then nested loops in which the stack position is unknown (memory facts
            // keep changing after the register facts have settled)
            b.extend(sl(0));
            b.push(addi(SP, SP, -16));
            b.push(sw(S1, 12, SP));
            b.push(r(ROp::Sub, SP, SP, A0));
            b.push(label("L1"));
            b.push(addi(A1, A1, -1));
            b.push(label("L2"));
            b.push(br(BOp::Beq, 12, ZERO, "L3"));
            b.extend(sl(1));
            b.push(addi(12, 12, -1));
            b.push(j("L2"));
            b.push(label("L3"));
            b.extend(sl(2));
            b.push(br(BOp::Bne, A1, ZERO, "L1"));
            b.extend(sl(3));
        }
        13 => {
            // a branch back to the function's own label, with the stack pointer moved and a
            // value in tp (a register of neither class) at the time of the branch
            ctx = Context::Callee;
            b.extend(sl(0));
            b.push(addi(SP, SP, -8));
            b.push(sw(S0, 0, SP));
            b.push(li(4, 4));
            b.extend(sl(1));
            b.push(addi(A0, A0, -1));
            b.push(br(BOp::Blt, ZERO, A0, "f"));
            b.extend(sl(2));
            b.push(lw(S0, 0, SP));
            b.push(addi(SP, SP, 8));
            b.extend(sl(3));
        }
        14 => {
            // a cycle two of whose edges point backwards in program order: L1 -> L2 -> L3 -> L1
            // (facts need two sweeps to travel round it)
            b.push(label("L1"));
            b.extend(sl(0));
            b.push(br(BOp::Beq, T0, T1, "L2"));
            b.extend(sl(1));
            b.push(li(A7, 10));
            b.push(ecall());
            b.push(label("L3"));
            b.extend(sl(3));
            b.push(j("L1"));
            b.push(label("L2"));
            b.extend(sl(2));
            b.push(j("L3"));
        }
        15 => {
            // a loop L1 -> L2 -> L1 entered in its middle by a later jump that writes a register
            b.push(j("L3"));
            b.push(label("L1"));
            b.extend(sl(0));
            b.push(label("L2"));
            b.extend(sl(1));
            b.push(j("L1"));
            b.push(label("L3"));
            b.push(inst(Inst::Jal(T2, "L2".into())));
            b.extend(sl(2));
            b.extend(sl(3));
        }
        16 => {
            // words kept behind a CSR-held pointer decide two ecall numbers, one of them an exit
            b.push(inst(Inst::Csr(CsrOp::Rs, T0, 64, ZERO)));
            b.push(sw(ZERO, 8, T0));
            b.push(sw(ZERO, 12, T0));
            b.push(lw(A1, 8, T0));
            b.extend(sl(0));
            b.push(br(BOp::Bne, A0, ZERO, "L1"));
            b.push(sw(T1, 12, T0));
            b.push(addi(A7, A1, 10));
            b.push(ecall());
            b.extend(sl(1));
            b.push(label("L1"));
            b.push(lw(12, 12, T0));
            b.push(addi(A7, 12, 1));
            b.push(ecall());
            b.extend(sl(2));
            b.extend(sl(3));
        }
        17 => {
            // a function that calls another one and then falls into it: the value the first
            // function leaves in a0 is read by the second
            ctx = Context::Callee;
            b.push(addi(SP, SP, -4));
            b.push(sw(RA, 0, SP));
            b.extend(sl(0));
            b.push(call("h"));
            b.push(lw(RA, 0, SP));
            b.push(addi(SP, SP, 4));
            b.extend(sl(1));
            b.push(addi(A0, A0, 1));
            b.extend(sl(2));
            b.push(label("h"));
            b.push(addi(A0, A0, 2));
            b.extend(sl(3));
        }
        18 => {
            // a callee leaves a value in tp (a register of neither class) that its caller reads
            // after the call: live at the callee's exit only through the call site's live-out
            ctx = Context::Callee;
            b.push(addi(SP, SP, -4));
            b.push(sw(RA, 0, SP));
            b.extend(sl(0));
            b.push(call("h"));
            b.extend(sl(1));
            b.push(r(ROp::Add, A0, A0, 4));
            b.push(lw(RA, 0, SP));
            b.push(addi(SP, SP, 4));
            b.extend(sl(2));
            b.push(ret());
            b.push(label("h"));
            b.push(li(4, 7));
            b.extend(sl(3));
        }
        _ => {
            // frame around a call inside a loop
            b.push(addi(SP, SP, -8));
            b.push(sw(RA, 4, SP));
            b.push(label("L1"));
            b.extend(sl(0));
            b.push(call("g"));
            b.extend(sl(1));
            b.push(addi(S0, S0, -1));
            b.push(br(BOp::Blt, ZERO, S0, "L1"));
            b.extend(sl(2));
            b.push(lw(RA, 4, SP));
            b.push(addi(SP, SP, 8));
            b.extend(sl(3));
        }
    }
    finish(b, ctx)
}

// ------------------------------------------------------------------ the family

#[derive(Clone, Debug)]
pub struct Kernel {
    pub family: &'static str,
    pub program: Program,
}

pub struct KernelSpace {
    seq_a: Vec<Snippet>,
    pre_a: Vec<Snippet>,
    big_a: Vec<Snippet>,
    ctl_main: Vec<Snippet>,
    ctl_callee: Vec<Snippet>,
    seq: SeqSpace,
    pre: SeqSpace,
    ctl_m: SeqSpace,
    ctl_c: SeqSpace,
    skel_fill: u64,
    skel_slots: u32,
    csr_a: Vec<Snippet>,
    csr: SeqSpace,
    xst_a: Vec<Snippet>,
    xst: SeqSpace,
    pub parts: Vec<(&'static str, u64)>,
}

#[derive(Clone, Copy, Debug)]
pub struct KernelBounds {
    pub seq_len: u32,
    pub prefix_len: u32,
    pub ctl_len: u32,
    pub skel_slots: u32,
}

impl KernelBounds {
    pub fn for_tier(t: Tier) -> KernelBounds {
        match t {
            Tier::Quick => KernelBounds {
                seq_len: 3,
                prefix_len: 1,
                ctl_len: 4,
                skel_slots: 3,
            },
            Tier::Thorough => KernelBounds {
                seq_len: 4,
                prefix_len: 2,
                ctl_len: 5,
                skel_slots: 4,
            },
        }
    }
}

impl KernelSpace {
    pub fn new(b: KernelBounds) -> KernelSpace {
        let seq_a = seq_alphabet();
        let pre_a = prefix_alphabet();
        let big_a = big_alphabet();
        let ctl_main = ctl_alphabet();
        let ctl_callee = ctl_alphabet_callee();
        let seq = SeqSpace {
            a: seq_a.len() as u64,
            min: 1,
            max: b.seq_len,
        };
        let pre = SeqSpace {
            a: pre_a.len() as u64,
            min: 0,
            max: b.prefix_len,
        };
        let ctl_m = SeqSpace {
            a: ctl_main.len() as u64,
            min: 1,
            max: b.ctl_len,
        };
        let ctl_c = SeqSpace {
            a: ctl_callee.len() as u64,
            min: 1,
            max: b.ctl_len,
        };
        let skel_fill = skeleton_fillers().len() as u64;
        let csr_a = csr_alphabet();
        let csr = SeqSpace {
            a: csr_a.len() as u64,
            min: 1,
            max: b.seq_len,
        };
        let xst_a = xstack_alphabet();
        let xst = SeqSpace {
            a: xst_a.len() as u64,
            min: 1,
            max: b.seq_len + 1,
        };
        let parts = vec![
            ("single-main", pre.count() * big_a.len() as u64),
            ("single-callee", pre.count() * big_a.len() as u64),
            ("seq-main", seq.count()),
            ("seq-callee", seq.count()),
            ("ctl-main", ctl_m.count()),
            ("ctl-callee", ctl_c.count()),
            (
                "skeleton",
                N_SKELETONS as u64 * skel_fill.pow(b.skel_slots),
            ),
            ("csr", csr.count()),
            ("extreme-stack", xst.count()),
        ];
        KernelSpace {
            seq_a,
            pre_a,
            big_a,
            ctl_main,
            ctl_callee,
            seq,
            pre,
            ctl_m,
            ctl_c,
            skel_fill,
            skel_slots: b.skel_slots,
            csr_a,
            csr,
            xst_a,
            xst,
            parts,
        }
    }

    pub fn count(&self) -> u64 {
        self.parts.iter().map(|p| p.1).sum()
    }

    /// Only the control-flow oriented part (ctl-*, skeleton): (offset, count)
    pub fn control_part(&self) -> (u64, u64) {
        let off: u64 = self.parts.iter().take(4).map(|p| p.1).sum();
        let n: u64 = self.parts.iter().skip(4).map(|p| p.1).sum();
        (off, n)
    }

    fn cat(alpha: &[Snippet], idx: &[usize]) -> Vec<Stmt> {
        idx.iter().flat_map(|i| alpha[*i].clone()).collect()
    }

    pub fn get(&self, mut i: u64) -> Kernel {
        for (pi, (name, n)) in self.parts.iter().enumerate() {
            if i >= *n {
                i -= n;
                continue;
            }
            let program = match pi {
                0 | 1 => {
                    let ctx = if pi == 0 { Context::Main } else { Context::Callee };
                    let big = (i % self.big_a.len() as u64) as usize;
                    let pre = self.pre.decode(i / self.big_a.len() as u64);
                    let mut body = Self::cat(&self.pre_a, &pre);
                    body.extend(self.big_a[big].clone());
                    body.extend(observers());
                    finish(body, ctx)
                }
                2 | 3 => {
                    let ctx = if pi == 2 { Context::Main } else { Context::Callee };
                    finish(Self::cat(&self.seq_a, &self.seq.decode(i)), ctx)
                }
                4 => finish(Self::cat(&self.ctl_main, &self.ctl_m.decode(i)), Context::Main),
                5 => finish(
                    Self::cat(&self.ctl_callee, &self.ctl_c.decode(i)),
                    Context::Callee,
                ),
                7 => finish(Self::cat(&self.csr_a, &self.csr.decode(i)), Context::Main),
                8 => finish(Self::cat(&self.xst_a, &self.xst.decode(i)), Context::Main),
                _ => {
                    let k = (i % N_SKELETONS as u64) as usize;
                    let mut rest = i / N_SKELETONS as u64;
                    let mut slots = vec![0usize; 4];
                    for s in slots.iter_mut().take(self.skel_slots as usize) {
                        *s = (rest % self.skel_fill) as usize;
                        rest /= self.skel_fill;
                    }
                    skeleton(k, &slots)
                }
            };
            return Kernel {
                family: name,
                program,
            };
        }
        panic!("kernel index out of range");
    }
}
