//! Locator: independent (line, column) bookkeeping over the source text.
//! Raw offsets are character indices (the lexer works on `Vec<char>`).

pub struct Locator {
    pub chars: Vec<char>,
    /// character index of the first character of every line
    pub line_starts: Vec<usize>,
}

impl Locator {
    pub fn new(text: &str) -> Locator {
        let chars: Vec<char> = text.chars().collect();
        let mut line_starts = vec![0];
        for (i, c) in chars.iter().enumerate() {
            if *c == '\n' {
                line_starts.push(i + 1);
            }
        }
        Locator { chars, line_starts }
    }
    pub fn len(&self) -> usize {
        self.chars.len()
    }
    /// zero-based line of a character offset
    pub fn line_of(&self, raw: usize) -> usize {
        match self.line_starts.binary_search(&raw) {
            Ok(i) => i,
            Err(i) => i - 1,
        }
    }
    /// zero-based column of a character offset
    pub fn col_of(&self, raw: usize) -> usize {
        raw - self.line_starts[self.line_of(raw)]
    }
    pub fn n_lines(&self) -> usize {
        self.line_starts.len()
    }
    /// text of line `l` without its line terminator
    pub fn line_text(&self, l: usize) -> String {
        let s = self.line_starts[l];
        let e = if l + 1 < self.line_starts.len() {
            self.line_starts[l + 1] - 1
        } else {
            self.chars.len()
        };
        self.chars[s..e.max(s)].iter().collect::<String>().trim_end_matches('\r').to_string()
    }
    pub fn slice(&self, start: usize, end_inclusive: usize) -> String {
        if start >= self.chars.len() || end_inclusive < start {
            return String::new();
        }
        let e = (end_inclusive + 1).min(self.chars.len());
        self.chars[start..e].iter().collect()
    }
}
