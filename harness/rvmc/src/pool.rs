//! Program pool shared by the relational checks (C13, C14, C15, C18): clean
//! members of S and, for each of them, one injected violation per class.

use crate::c05::{inject, CLASSES};
use crate::driver::Tier;
use crate::model::Program;
use crate::sfam::SSpace;

pub struct Pool {
    space: SSpace,
    stride: u64,
}

impl Pool {
    pub fn new(stride: u64) -> Pool {
        Pool {
            space: SSpace::new(Tier::Quick),
            stride,
        }
    }
    pub fn bases(&self) -> u64 {
        self.space.count().div_ceil(self.stride)
    }
    /// programs per base: the clean one + one per violation class
    pub const PER_BASE: u64 = 1 + CLASSES.len() as u64;
    pub fn count(&self) -> u64 {
        self.bases() * Self::PER_BASE
    }
    /// (program, tag); None when the combination does not exist
    pub fn get(&self, i: u64) -> Option<(Program, String)> {
        let b = (i / Self::PER_BASE) * self.stride;
        let k = (i % Self::PER_BASE) as usize;
        let base = self.space.get(b)?;
        if k == 0 {
            return Some((base.program.clone(), "clean".into()));
        }
        // first admissible site of the class
        let inj = inject(&base, k - 1, 0)?;
        Some((inj.program, CLASSES[k - 1].to_string()))
    }
}
