//! Running the real `rva` binary (built from the working tree with the
//! rva_verif hooks) on files materialised under /verif/.scratch.

use crate::driver::{scratch_dir, verif_root};
use serde_json::{json, Value};
use std::io::Read;
use std::path::{Path, PathBuf};
use std::process::{Command, Stdio};
use std::sync::atomic::{AtomicU64, Ordering};
use std::time::{Duration, Instant};

pub fn rva_bin(profile: &str) -> PathBuf {
    verif_root()
        .join("harness")
        .join("target-repo")
        .join(profile)
        .join("rva")
}

#[derive(Clone, Debug)]
pub enum Entry {
    File(String, Vec<u8>),
    Dir(String),
    /// (name, target) - a symbolic link
    Link(String, String),
}

#[derive(Clone, Debug)]
pub struct CliCase {
    pub name: String,
    pub entries: Vec<Entry>,
    pub base: String,
}

pub fn text_case(name: &str, files: &[(&str, &str)]) -> CliCase {
    CliCase {
        name: name.to_string(),
        entries: files
            .iter()
            .map(|(n, t)| Entry::File(n.to_string(), t.as_bytes().to_vec()))
            .collect(),
        base: files[0].0.to_string(),
    }
}

static COUNTER: AtomicU64 = AtomicU64::new(0);

/// A file name; `raw:<hex>` stands for the bytes given in hex (names that are not UTF-8).
pub fn os_name(name: &str) -> std::ffi::OsString {
    use std::os::unix::ffi::OsStringExt;
    match name.strip_prefix("raw:") {
        Some(hex) => {
            let bytes: Vec<u8> = (0..hex.len() / 2).filter_map(|i| u8::from_str_radix(&hex[2 * i..2 * i + 2], 16).ok()).collect();
            std::ffi::OsString::from_vec(bytes)
        }
        None => name.into(),
    }
}

/// Write the case's files into a fresh directory; returns the directory.
pub fn materialize(c: &CliCase) -> PathBuf {
    let n = COUNTER.fetch_add(1, Ordering::Relaxed);
    let d = scratch_dir().join(format!("cli-{}-{n}", std::process::id()));
    let _ = std::fs::create_dir_all(&d);
    for e in &c.entries {
        match e {
            Entry::File(name, bytes) => {
                let p = d.join(os_name(name));
                if let Some(parent) = p.parent() {
                    let _ = std::fs::create_dir_all(parent);
                }
                let _ = std::fs::write(p, bytes);
            }
            Entry::Dir(name) => {
                let _ = std::fs::create_dir_all(d.join(name));
            }
            Entry::Link(name, target) => {
                let p = d.join(name);
                if let Some(parent) = p.parent() {
                    let _ = std::fs::create_dir_all(parent);
                }
                let _ = std::os::unix::fs::symlink(target, p);
            }
        }
    }
    d
}

pub struct Output {
    pub code: Option<i32>,
    pub signal: Option<i32>,
    pub stdout: String,
    pub stderr: String,
    pub timed_out: bool,
    pub seconds: f64,
}

pub fn run_rva(
    profile: &str,
    dir: &Path,
    base: &str,
    flags: &[&str],
    envs: &[(&str, String)],
    timeout: Duration,
) -> Result<Output, String> {
    let bin = rva_bin(profile);
    if !bin.exists() {
        return Err(format!("{} is missing (run ./check, which builds it)", bin.display()));
    }
    let mut cmd = Command::new(bin);
    cmd.arg("lint")
        .arg(dir.join(os_name(base)))
        .args(flags)
        .current_dir(dir)
        .stdin(Stdio::null())
        .stdout(Stdio::piped())
        .stderr(Stdio::piped())
        .env_remove("RVA_VERIF_SCHEDULE")
        .env_remove("RVA_VERIF_FILE_ORDER")
        .env_remove("RVA_VERIF_TRACE_OUT")
        .env("NO_COLOR", "0");
    for (k, v) in envs {
        cmd.env(k, v);
    }
    unsafe {
        use std::os::unix::process::CommandExt;
        cmd.pre_exec(|| {
            let lim = libc::rlimit {
                rlim_cur: 3 << 30,
                rlim_max: 3 << 30,
            };
            libc::setrlimit(libc::RLIMIT_AS, &lim);
            Ok(())
        });
    }
    let start = Instant::now();
    let mut child = cmd.spawn().map_err(|e| e.to_string())?;
    let mut so = child.stdout.take().ok_or("stdout")?;
    let mut se = child.stderr.take().ok_or("stderr")?;
    let t1 = std::thread::spawn(move || {
        let mut b = Vec::new();
        let _ = so.read_to_end(&mut b);
        b
    });
    let t2 = std::thread::spawn(move || {
        let mut b = Vec::new();
        let _ = se.read_to_end(&mut b);
        b
    });
    let mut timed_out = false;
    let status = loop {
        match child.try_wait() {
            Ok(Some(s)) => break s,
            Ok(None) => {
                // the allowance is CPU time of the child; wall time only catches a blocked child
                let cpu = crate::driver::proc_cpu_secs(child.id()).unwrap_or(0.0);
                if cpu > timeout.as_secs_f64() || start.elapsed() > timeout * crate::driver::WALL_FACTOR {
                    timed_out = true;
                    let _ = child.kill();
                    break child.wait().map_err(|e| e.to_string())?;
                }
                std::thread::sleep(Duration::from_millis(2));
            }
            Err(e) => return Err(e.to_string()),
        }
    };
    use std::os::unix::process::ExitStatusExt;
    let stdout = String::from_utf8_lossy(&t1.join().unwrap_or_default()).to_string();
    let stderr = String::from_utf8_lossy(&t2.join().unwrap_or_default()).to_string();
    Ok(Output {
        code: status.code(),
        signal: status.signal(),
        stdout,
        stderr,
        timed_out,
        seconds: start.elapsed().as_secs_f64(),
    })
}

pub const MODES: [&[&str]; 9] = [
    &[],
    &["--compact"],
    &["--json"],
    &["--no-color"],
    &["--all-files"],
    &["--yaml"],
    &["--debug"],
    &["--compact", "--all-files"],
    &["--json", "--all-files"],
];

/// Hostile inputs for the CLI: include graphs on disk and texts that stress
/// the pretty printer.
pub fn hostile_cases() -> Vec<CliCase> {
    let mut v = vec![
        text_case("self-include", &[("a.s", "main:\n    .include \"a.s\"\n    li a7, 10\n    ecall\n")]),
        text_case(
            "two-cycle",
            &[
                ("a.s", "main:\n    .include \"b.s\"\n    li a7, 10\n    ecall\n"),
                ("b.s", "    addi t0, t0, 1\n    .include \"a.s\"\n"),
            ],
        ),
        text_case(
            "three-cycle",
            &[
                ("a.s", "main:\n    .include \"b.s\"\n    li a7, 10\n    ecall\n"),
                ("b.s", "    .include \"c.s\"\n"),
                ("c.s", "    .include \"a.s\"\n"),
            ],
        ),
        text_case("missing-include", &[("a.s", "main:\n    .include \"nope.s\"\n    li a7, 10\n    ecall\n")]),
        text_case(
            "diamond",
            &[
                ("a.s", "main:\n    .include \"b.s\"\n    .include \"c.s\"\n    li a7, 10\n    ecall\n"),
                ("b.s", "    .include \"d.s\"\n"),
                ("c.s", "    .include \"d.s\"\n"),
                ("d.s", "    addi t0, t0, 1\n"),
            ],
        ),
        text_case("empty", &[("a.s", "")]),
        text_case("only-newline", &[("a.s", "\n")]),
        text_case("multibyte-space-paren", &[("a.s", ".byte '\u{3000}'(\n")]),
        text_case("error-in-included-file", &[("a.s", "main:\n    .include \"b.s\"\n    li a7, 10\n    ecall\n"), ("b.s", "    addi t0, t0, t1\n    add zero, a0, a1\n")]),
        text_case("undefined-label", &[("a.s", "main:\n    j nowhere\n")]),
        text_case("function-without-return", &[("a.s", "main:\n    jal f\n    li a7, 10\n    ecall\nf:\n    j f\n")]),
    ];
    // the same file under several spellings: a cycle must be recognised through '..' and '.'
    v.push(CliCase {
        name: "cycle-through-dotdot".into(),
        entries: vec![
            Entry::File("d/main.s".into(), b"main:\n    .include \"a.s\"\n    li a7, 10\n    ecall\n".to_vec()),
            Entry::File("d/a.s".into(), b"    .include \"../d/a.s\"\n    .include \"../d/a.s\"\n    addi t0, t0, t1\n".to_vec()),
        ],
        base: "d/main.s".into(),
    });
    v.push(text_case("cycle-through-dot", &[("a.s", "main:\n    .include \"./a.s\"\n    .include \"./a.s\"\n    li a7, 10\n    ecall\n")]));
    v.push(CliCase {
        name: "two-cycle-through-subdirectory".into(),
        entries: vec![
            Entry::File("a.s".into(), b"main:\n    .include \"sub/b.s\"\n    .include \"sub/../sub/b.s\"\n    li a7, 10\n    ecall\n".to_vec()),
            Entry::File("sub/b.s".into(), b"    addi t0, t0, t1\n    .include \"../a.s\"\n    .include \"../sub/../a.s\"\n".to_vec()),
        ],
        base: "a.s".into(),
    });
    // one file included several times, many diagnostics (ordering code sees equal names)
    for (times, lines) in [(2usize, 3usize), (4, 3), (4, 6), (8, 3), (3, 9)] {
        let mut base = String::from("main:\n");
        for _ in 0..times {
            base.push_str("    .include \"lib.s\"\n");
            base.push_str("    add zero, a0, a1\n");
        }
        base.push_str("    li a7, 10\n    ecall\n");
        let mut lib = String::new();
        for k in 0..lines {
            lib.push_str(["    addi t0, t0, t1\n", "    add zero, a0, a1\n", "    frobnicate t0\n"][k % 3]);
        }
        v.push(text_case(&format!("repeated-include:{times}x{lines}"), &[("a.s", &base), ("lib.s", &lib)]));
    }
    // extreme immediates through every mode (the debug dump prints offsets)
    v.push(text_case(
        "extreme-offsets",
        &[(
            "a.s",
            "main:\n    sw t0, -2147483648(sp)\n    lw t1, 2147483647(sp)\n    addi sp, sp, -2048\n    sw t0, -2147483648(sp)\n    csrrw t0, 64, t0\n    sw t1, -2147483648(t0)\n    li t2, -2147483648\n    add sp, sp, t2\n    sw t1, 0(sp)\n    li a7, 10\n    ecall\n",
        )],
    ));
    v.push(CliCase {
        name: "include-a-directory".into(),
        entries: vec![
            Entry::File("a.s".into(), b"main:\n    .include \"d\"\n    li a7, 10\n    ecall\n".to_vec()),
            Entry::Dir("d".into()),
        ],
        base: "a.s".into(),
    });
    v.push(CliCase {
        name: "base-is-a-directory".into(),
        entries: vec![Entry::Dir("a.s".into())],
        base: "a.s".into(),
    });
    v.push(CliCase {
        name: "base-missing".into(),
        entries: vec![],
        base: "a.s".into(),
    });
    v.push(CliCase {
        name: "not-utf8".into(),
        entries: vec![Entry::File("a.s".into(), vec![0x6d, 0x3a, 0x0a, 0xff, 0xfe, 0x20, 0x61, 0x0a])],
        base: "a.s".into(),
    });
    // a base file whose name is not UTF-8 (the text is fine)
    v.push(CliCase {
        name: "file-name-not-utf8".into(),
        entries: vec![Entry::File("raw:61ff2e73".into(), b"main:\n    add zero, a0, a1\n    li a7, 10\n    ecall\n".to_vec())],
        base: "raw:61ff2e73".into(),
    });
    // all strings of length <= 3 over an alphabet of wide / whitespace / quote
    // characters, each after a statement that draws a diagnostic on that line
    let alpha = ['a', ' ', '\t', '(', '\u{3000}', '\u{e9}', '"', '\''];
    let sp = crate::gen::SeqSpace {
        a: alpha.len() as u64,
        min: 1,
        max: 3,
    };
    for i in 0..sp.count() {
        let s: String = sp.decode(i).into_iter().map(|k| alpha[k]).collect();
        v.push(CliCase {
            name: format!("printer:{}", s.escape_debug()),
            entries: vec![Entry::File(
                "a.s".into(),
                format!("{s}add zero, a0, a1 {s}\n{s}(\n    li a7, 10\n    ecall\n").into_bytes(),
            )],
            base: "a.s".into(),
        });
    }
    v
}

/// Run one case through every mode and both binaries; each element is a
/// violation (class, witness) or None.
pub fn run_all_modes(c: &CliCase, case: u64) -> Vec<Option<(String, Value)>> {
    let dir = materialize(c);
    let mut out = Vec::new();
    let kind = c.name.split(':').next().unwrap_or("").to_string();
    let printer_family = c.name.starts_with("printer:");
    'outer: for profile in ["release", "debug"] {
        for (mi, mode) in MODES.iter().enumerate() {
            // the big printer family only goes through the rendering modes
            if printer_family && !(mi <= 1 || mi == 3) {
                continue;
            }
            let r = run_rva(profile, &dir, &c.base, mode, &[], Duration::from_secs(10));
            let w = |what: &str, o: &Output| {
                json!({"case": case, "name": c.name, "entries": format!("{:?}", c.entries).chars().take(600).collect::<String>(),
                       "base": c.base, "flags": mode, "binary": profile, "what": what,
                       "exit_code": o.code, "signal": o.signal,
                       "stderr": o.stderr.chars().take(400).collect::<String>()})
            };
            match r {
                Err(e) => {
                    out.push(Some((
                        "C06|machinery|cannot-run-rva".to_string(),
                        json!({"error": e}),
                    )));
                    break 'outer;
                }
                Ok(o) => {
                    if o.timed_out {
                        out.push(Some((format!("C06|cli-hang|{kind}"), w("no result within 10 s", &o))));
                        break 'outer;
                    } else if o.signal.is_some() {
                        out.push(Some((format!("C06|cli-killed|{kind}|signal-{}", o.signal.unwrap_or(0)), w("killed by a signal", &o))));
                    } else if o.code == Some(101) || o.stderr.contains("panicked") {
                        // "thread 'main' (12345) panicked at <file>:<line>:<col>:" -> "<file>"
                        // (no thread id, no line numbers: a class must not vary from run to run)
                        let msg: String = o
                            .stderr
                            .lines()
                            .find(|l| l.contains("panicked"))
                            .and_then(|l| l.split("panicked at ").nth(1))
                            .unwrap_or("")
                            .split(':')
                            .next()
                            .unwrap_or("")
                            .rsplit('/')
                            .take(2)
                            .collect::<Vec<_>>()
                            .into_iter()
                            .rev()
                            .collect::<Vec<_>>()
                            .join("/");
                        let next: String = o.stderr.lines().skip_while(|l| !l.contains("panicked")).nth(1).unwrap_or("").replace(|ch: char| ch.is_ascii_digit(), "N").chars().take(50).collect();
                        out.push(Some((format!("C06|cli-panic|{kind}|{msg}|{next}"), w("the binary panicked", &o))));
                    } else {
                        out.push(None);
                    }
                }
            }
        }
    }
    let _ = std::fs::remove_dir_all(dir);
    out
}
