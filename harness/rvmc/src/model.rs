//! Reference models that share no code with /repo: an assembly AST with a
//! printer, two independently written RV32IM ALUs, and an interpreter with
//! an activation (calling-convention) monitor.

use std::collections::HashMap;

pub type Reg = u8;

pub const ZERO: Reg = 0;
pub const RA: Reg = 1;
pub const SP: Reg = 2;
pub const T0: Reg = 5;
pub const T1: Reg = 6;
pub const T2: Reg = 7;
pub const S0: Reg = 8;
pub const S1: Reg = 9;
pub const A0: Reg = 10;
pub const A1: Reg = 11;
pub const A7: Reg = 17;

pub const ABI: [&str; 32] = [
    "zero", "ra", "sp", "gp", "tp", "t0", "t1", "t2", "s0", "s1", "a0", "a1", "a2", "a3", "a4",
    "a5", "a6", "a7", "s2", "s3", "s4", "s5", "s6", "s7", "s8", "s9", "s10", "s11", "t3", "t4",
    "t5", "t6",
];

pub fn rn(r: Reg) -> &'static str {
    ABI[r as usize]
}

pub fn is_temp(r: Reg) -> bool {
    matches!(r, 5..=7 | 28..=31)
}
pub fn is_saved(r: Reg) -> bool {
    matches!(r, 8 | 9 | 18..=27)
}
pub fn is_arg(r: Reg) -> bool {
    matches!(r, 10..=17)
}
pub fn is_caller_saved(r: Reg) -> bool {
    is_temp(r) || is_arg(r)
}

#[derive(Clone, Copy, PartialEq, Eq, Hash, Debug)]
pub enum ROp {
    Add,
    Sub,
    And,
    Or,
    Xor,
    Sll,
    Srl,
    Sra,
    Slt,
    Sltu,
    Mul,
    Mulh,
    Mulhsu,
    Mulhu,
    Div,
    Divu,
    Rem,
    Remu,
}
pub const ALL_ROPS: [ROp; 18] = [
    ROp::Add,
    ROp::Sub,
    ROp::And,
    ROp::Or,
    ROp::Xor,
    ROp::Sll,
    ROp::Srl,
    ROp::Sra,
    ROp::Slt,
    ROp::Sltu,
    ROp::Mul,
    ROp::Mulh,
    ROp::Mulhsu,
    ROp::Mulhu,
    ROp::Div,
    ROp::Divu,
    ROp::Rem,
    ROp::Remu,
];
impl ROp {
    pub fn name(self) -> &'static str {
        match self {
            ROp::Add => "add",
            ROp::Sub => "sub",
            ROp::And => "and",
            ROp::Or => "or",
            ROp::Xor => "xor",
            ROp::Sll => "sll",
            ROp::Srl => "srl",
            ROp::Sra => "sra",
            ROp::Slt => "slt",
            ROp::Sltu => "sltu",
            ROp::Mul => "mul",
            ROp::Mulh => "mulh",
            ROp::Mulhsu => "mulhsu",
            ROp::Mulhu => "mulhu",
            ROp::Div => "div",
            ROp::Divu => "divu",
            ROp::Rem => "rem",
            ROp::Remu => "remu",
        }
    }
}

#[derive(Clone, Copy, PartialEq, Eq, Hash, Debug)]
pub enum IOp {
    Addi,
    Andi,
    Ori,
    Xori,
    Slli,
    Srli,
    Srai,
    Slti,
    Sltiu,
}
pub const ALL_IOPS: [IOp; 9] = [
    IOp::Addi,
    IOp::Andi,
    IOp::Ori,
    IOp::Xori,
    IOp::Slli,
    IOp::Srli,
    IOp::Srai,
    IOp::Slti,
    IOp::Sltiu,
];
impl IOp {
    pub fn name(self) -> &'static str {
        match self {
            IOp::Addi => "addi",
            IOp::Andi => "andi",
            IOp::Ori => "ori",
            IOp::Xori => "xori",
            IOp::Slli => "slli",
            IOp::Srli => "srli",
            IOp::Srai => "srai",
            IOp::Slti => "slti",
            IOp::Sltiu => "sltiu",
        }
    }
    pub fn rop(self) -> ROp {
        match self {
            IOp::Addi => ROp::Add,
            IOp::Andi => ROp::And,
            IOp::Ori => ROp::Or,
            IOp::Xori => ROp::Xor,
            IOp::Slli => ROp::Sll,
            IOp::Srli => ROp::Srl,
            IOp::Srai => ROp::Sra,
            IOp::Slti => ROp::Slt,
            IOp::Sltiu => ROp::Sltu,
        }
    }
}

#[derive(Clone, Copy, PartialEq, Eq, Hash, Debug)]
pub enum LOp {
    Lb,
    Lbu,
    Lh,
    Lhu,
    Lw,
}
impl LOp {
    pub fn name(self) -> &'static str {
        match self {
            LOp::Lb => "lb",
            LOp::Lbu => "lbu",
            LOp::Lh => "lh",
            LOp::Lhu => "lhu",
            LOp::Lw => "lw",
        }
    }
}
#[derive(Clone, Copy, PartialEq, Eq, Hash, Debug)]
pub enum SOp {
    Sb,
    Sh,
    Sw,
}
impl SOp {
    pub fn name(self) -> &'static str {
        match self {
            SOp::Sb => "sb",
            SOp::Sh => "sh",
            SOp::Sw => "sw",
        }
    }
}
#[derive(Clone, Copy, PartialEq, Eq, Hash, Debug)]
pub enum BOp {
    Beq,
    Bne,
    Blt,
    Bge,
    Bltu,
    Bgeu,
}
pub const ALL_BOPS: [BOp; 6] = [BOp::Beq, BOp::Bne, BOp::Blt, BOp::Bge, BOp::Bltu, BOp::Bgeu];
impl BOp {
    pub fn name(self) -> &'static str {
        match self {
            BOp::Beq => "beq",
            BOp::Bne => "bne",
            BOp::Blt => "blt",
            BOp::Bge => "bge",
            BOp::Bltu => "bltu",
            BOp::Bgeu => "bgeu",
        }
    }
    pub fn taken(self, a: u32, b: u32) -> bool {
        match self {
            BOp::Beq => a == b,
            BOp::Bne => a != b,
            BOp::Blt => (a as i32) < (b as i32),
            BOp::Bge => (a as i32) >= (b as i32),
            BOp::Bltu => a < b,
            BOp::Bgeu => a >= b,
        }
    }
}

#[derive(Clone, Copy, PartialEq, Eq, Hash, Debug)]
pub enum CsrOp {
    Rw,
    Rs,
    Rc,
}

/// Semantic (base) instruction.
#[derive(Clone, PartialEq, Eq, Hash, Debug)]
pub enum Inst {
    R(ROp, Reg, Reg, Reg),
    I(IOp, Reg, Reg, i32),
    /// rd = imm20 << 12
    Lui(Reg, i32),
    /// auipc rd, imm20: rd = pc + (imm20 << 12)
    Auipc(Reg, i32),
    /// rd = 32-bit constant (the `li` pseudo-instruction)
    Li(Reg, i32),
    Load(LOp, Reg, Reg, i32),
    /// (op, rs2 = value, rs1 = base, imm)
    Store(SOp, Reg, Reg, i32),
    Branch(BOp, Reg, Reg, String),
    Jal(Reg, String),
    Jalr(Reg, Reg, i32),
    La(Reg, String),
    /// the `auipc` half of a pc-relative access to a label whose low part is `lo`:
    /// rd = address(label) - lo
    LaUpper(Reg, String, i32),
    Ecall,
    /// csr op with register source: (op, rd, csr, rs1)
    Csr(CsrOp, Reg, u32, Reg),
    /// csr op with immediate source
    CsrI(CsrOp, Reg, u32, u32),
}

impl Inst {
    pub fn base_text(&self) -> String {
        match self {
            Inst::R(op, rd, a, b) => format!("{} {}, {}, {}", op.name(), rn(*rd), rn(*a), rn(*b)),
            Inst::I(op, rd, a, imm) => format!("{} {}, {}, {}", op.name(), rn(*rd), rn(*a), imm),
            Inst::Lui(rd, imm) => format!("lui {}, {}", rn(*rd), imm),
            Inst::Auipc(rd, imm) => format!("auipc {}, {}", rn(*rd), imm),
            Inst::Li(rd, imm) => format!("li {}, {}", rn(*rd), imm),
            Inst::Load(op, rd, b, imm) => format!("{} {}, {}({})", op.name(), rn(*rd), imm, rn(*b)),
            Inst::Store(op, v, b, imm) => format!("{} {}, {}({})", op.name(), rn(*v), imm, rn(*b)),
            Inst::Branch(op, a, b, l) => format!("{} {}, {}, {}", op.name(), rn(*a), rn(*b), l),
            Inst::Jal(rd, l) => format!("jal {}, {}", rn(*rd), l),
            Inst::Jalr(rd, rs, imm) => format!("jalr {}, {}, {}", rn(*rd), rn(*rs), imm),
            Inst::La(rd, l) => format!("la {}, {}", rn(*rd), l),
            Inst::LaUpper(rd, l, lo) => format!("auipc {}, %pcrel_hi({}) # low part {}", rn(*rd), l, lo),
            Inst::Ecall => "ecall".to_string(),
            Inst::Csr(op, rd, csr, rs) => format!(
                "{} {}, {}, {}",
                match op {
                    CsrOp::Rw => "csrrw",
                    CsrOp::Rs => "csrrs",
                    CsrOp::Rc => "csrrc",
                },
                rn(*rd),
                csr,
                rn(*rs)
            ),
            Inst::CsrI(op, rd, csr, imm) => format!(
                "{} {}, {}, {}",
                match op {
                    CsrOp::Rw => "csrrwi",
                    CsrOp::Rs => "csrrsi",
                    CsrOp::Rc => "csrrci",
                },
                rn(*rd),
                csr,
                imm
            ),
        }
    }

    /// architectural destination register (None when x0 or no destination)
    pub fn dest(&self) -> Option<Reg> {
        let d = match self {
            Inst::R(_, rd, _, _)
            | Inst::I(_, rd, _, _)
            | Inst::Lui(rd, _)
            | Inst::Auipc(rd, _)
            | Inst::Li(rd, _)
            | Inst::Load(_, rd, _, _)
            | Inst::Jal(rd, _)
            | Inst::Jalr(rd, _, _)
            | Inst::La(rd, _)
            | Inst::LaUpper(rd, _, _)
            | Inst::Csr(_, rd, _, _)
            | Inst::CsrI(_, rd, _, _) => *rd,
            Inst::Store(..) | Inst::Branch(..) | Inst::Ecall => return None,
        };
        if d == 0 {
            None
        } else {
            Some(d)
        }
    }

    /// architectural source registers (x0 excluded)
    pub fn sources(&self) -> Vec<Reg> {
        let v: Vec<Reg> = match self {
            Inst::R(_, _, a, b) => vec![*a, *b],
            Inst::I(_, _, a, _) => vec![*a],
            Inst::Load(_, _, b, _) => vec![*b],
            Inst::Store(_, v, b, _) => vec![*b, *v],
            Inst::Branch(_, a, b, _) => vec![*a, *b],
            Inst::Jalr(_, rs, _) => vec![*rs],
            Inst::Csr(_, _, _, rs) => vec![*rs],
            Inst::Lui(..) | Inst::Auipc(..) | Inst::Li(..) | Inst::Jal(..) | Inst::La(..) | Inst::LaUpper(..) | Inst::Ecall
            | Inst::CsrI(..) => vec![],
        };
        let mut out = Vec::new();
        for r in v {
            if r != 0 && !out.contains(&r) {
                out.push(r);
            }
        }
        out
    }

    pub fn is_ret(&self) -> bool {
        matches!(self, Inst::Jalr(0, 1, 0))
    }
    pub fn is_call(&self) -> bool {
        matches!(self, Inst::Jal(1, _))
    }
}

/// One source statement: the text as written plus its meaning.
#[derive(Clone, PartialEq, Eq, Hash, Debug)]
pub enum Stmt {
    Label(String),
    /// (text as written, semantic instruction)
    Inst(String, Inst),
    /// `.data`, `.text`, `.word 1, 2` ... (text as written)
    Directive(String),
}

pub fn inst(i: Inst) -> Stmt {
    let t = i.base_text();
    Stmt::Inst(t, i)
}
pub fn pseudo(text: impl Into<String>, i: Inst) -> Stmt {
    Stmt::Inst(text.into(), i)
}
pub fn label(l: &str) -> Stmt {
    Stmt::Label(l.to_string())
}
pub fn li(rd: Reg, v: i32) -> Stmt {
    pseudo(format!("li {}, {}", rn(rd), v), Inst::Li(rd, v))
}
pub fn mv(rd: Reg, rs: Reg) -> Stmt {
    pseudo(format!("mv {}, {}", rn(rd), rn(rs)), Inst::I(IOp::Addi, rd, rs, 0))
}
pub fn ret() -> Stmt {
    pseudo("ret", Inst::Jalr(0, 1, 0))
}
pub fn j(l: &str) -> Stmt {
    pseudo(format!("j {l}"), Inst::Jal(0, l.to_string()))
}
pub fn call(l: &str) -> Stmt {
    pseudo(format!("jal {l}"), Inst::Jal(1, l.to_string()))
}
pub fn ecall() -> Stmt {
    inst(Inst::Ecall)
}
pub fn addi(rd: Reg, rs: Reg, v: i32) -> Stmt {
    inst(Inst::I(IOp::Addi, rd, rs, v))
}
pub fn sw(v: Reg, off: i32, base: Reg) -> Stmt {
    inst(Inst::Store(SOp::Sw, v, base, off))
}
pub fn lw(rd: Reg, off: i32, base: Reg) -> Stmt {
    inst(Inst::Load(LOp::Lw, rd, base, off))
}

#[derive(Clone, Debug, PartialEq, Eq, Hash)]
pub struct Program {
    pub stmts: Vec<Stmt>,
}

impl Program {
    pub fn text(&self) -> String {
        let mut s = String::new();
        for st in &self.stmts {
            match st {
                Stmt::Label(l) => {
                    s.push_str(l);
                    s.push_str(":\n");
                }
                Stmt::Inst(t, _) => {
                    s.push_str("    ");
                    s.push_str(t);
                    s.push('\n');
                }
                Stmt::Directive(d) => {
                    s.push_str(d);
                    s.push('\n');
                }
            }
        }
        s
    }

    pub fn insts(&self) -> Vec<&Inst> {
        self.stmts
            .iter()
            .filter_map(|s| match s {
                Stmt::Inst(_, i) => Some(i),
                _ => None,
            })
            .collect()
    }
}

// ------------------------------------------------------------------ ALU (two ways)

/// First implementation: 32-bit wrapping operations.
pub fn alu32(op: ROp, a: u32, b: u32) -> u32 {
    let sa = a as i32;
    let sb = b as i32;
    match op {
        ROp::Add => a.wrapping_add(b),
        ROp::Sub => a.wrapping_sub(b),
        ROp::And => a & b,
        ROp::Or => a | b,
        ROp::Xor => a ^ b,
        ROp::Sll => a.wrapping_shl(b & 31),
        ROp::Srl => a.wrapping_shr(b & 31),
        ROp::Sra => (sa.wrapping_shr(b & 31)) as u32,
        ROp::Slt => (sa < sb) as u32,
        ROp::Sltu => (a < b) as u32,
        ROp::Mul => a.wrapping_mul(b),
        ROp::Mulh => (((sa as i64) * (sb as i64)) >> 32) as u32,
        ROp::Mulhsu => (((sa as i64).wrapping_mul(b as u64 as i64)) >> 32) as u32,
        ROp::Mulhu => (((a as u64) * (b as u64)) >> 32) as u32,
        ROp::Div => {
            if b == 0 {
                u32::MAX
            } else if sa == i32::MIN && sb == -1 {
                a
            } else {
                (sa / sb) as u32
            }
        }
        ROp::Divu => {
            if b == 0 {
                u32::MAX
            } else {
                a / b
            }
        }
        ROp::Rem => {
            if b == 0 {
                a
            } else if sa == i32::MIN && sb == -1 {
                0
            } else {
                (sa % sb) as u32
            }
        }
        ROp::Remu => {
            if b == 0 {
                a
            } else {
                a % b
            }
        }
    }
}

/// Second implementation: mathematical integers (i128), reduced mod 2^32.
pub fn alu_wide(op: ROp, a: u32, b: u32) -> u32 {
    let ua = a as i128;
    let ub = b as i128;
    let sa = (a as i32) as i128;
    let sb = (b as i32) as i128;
    let m: i128 = 1 << 32;
    let red = |x: i128| -> u32 { (x.rem_euclid(m)) as u32 };
    let sh = (b % 32) as u32;
    // truncated division of mathematical integers
    let tdiv = |x: i128, y: i128| -> i128 {
        let q = x.abs() / y.abs();
        if (x < 0) != (y < 0) {
            -q
        } else {
            q
        }
    };
    match op {
        ROp::Add => red(ua + ub),
        ROp::Sub => red(ua - ub),
        ROp::And => {
            let mut r = 0u32;
            for i in 0..32 {
                if (a >> i) & 1 == 1 && (b >> i) & 1 == 1 {
                    r |= 1 << i;
                }
            }
            r
        }
        ROp::Or => {
            let mut r = 0u32;
            for i in 0..32 {
                if (a >> i) & 1 == 1 || (b >> i) & 1 == 1 {
                    r |= 1 << i;
                }
            }
            r
        }
        ROp::Xor => {
            let mut r = 0u32;
            for i in 0..32 {
                if ((a >> i) & 1) != ((b >> i) & 1) {
                    r |= 1 << i;
                }
            }
            r
        }
        ROp::Sll => red(ua * (1i128 << sh)),
        ROp::Srl => red(ua / (1i128 << sh)),
        ROp::Sra => red(sa.div_euclid(1i128 << sh)),
        ROp::Slt => (sa < sb) as u32,
        ROp::Sltu => (ua < ub) as u32,
        ROp::Mul => red(ua * ub),
        ROp::Mulh => red((sa * sb).div_euclid(m)),
        ROp::Mulhsu => red((sa * ub).div_euclid(m)),
        ROp::Mulhu => red((ua * ub).div_euclid(m)),
        ROp::Div => {
            if b == 0 {
                red(-1)
            } else {
                red(tdiv(sa, sb))
            }
        }
        ROp::Divu => {
            if b == 0 {
                red(m - 1)
            } else {
                red(ua / ub)
            }
        }
        ROp::Rem => {
            if b == 0 {
                a
            } else {
                red(sa - sb * tdiv(sa, sb))
            }
        }
        ROp::Remu => {
            if b == 0 {
                a
            } else {
                red(ua - ub * (ua / ub))
            }
        }
    }
}

/// Boundary grid of 32-bit values.
pub fn grid() -> Vec<u32> {
    let mut v: Vec<i64> = vec![0, 1, -1, 2, -2, 3, 4, 5, 7, 8, 10, 31, 32, 33, 63, 64, 93, 100, 255, 256, 2047, -2048];
    for k in [4u32, 5, 11, 12, 15, 16, 30, 31] {
        let p = 1i64 << k;
        for d in [-1i64, 0, 1] {
            v.push(p + d);
            v.push(-p + d);
        }
    }
    v.extend([
        i32::MIN as i64,
        i32::MAX as i64,
        0x5555_5555,
        0xAAAA_AAAAu32 as i32 as i64,
        0x1234_5678,
        0xABCD_EF01u32 as i32 as i64,
        0xFFFF_0000u32 as i32 as i64,
        0x0000_FFFF,
    ]);
    let mut out: Vec<u32> = v.into_iter().map(|x| x as u32).collect();
    out.sort_unstable();
    out.dedup();
    out
}

/// Cross-check the two ALUs on the whole grid; returns number of comparisons.
pub fn alu_selfcheck() -> Result<u64, String> {
    let g = grid();
    let mut n = 0;
    for op in ALL_ROPS {
        for &a in &g {
            for &b in &g {
                let x = alu32(op, a, b);
                let y = alu_wide(op, a, b);
                if x != y {
                    return Err(format!("ALU disagreement {op:?} {a:#x} {b:#x}: {x:#x} vs {y:#x}"));
                }
                n += 1;
            }
        }
    }
    Ok(n)
}

// ------------------------------------------------------------------ interpreter

pub const TEXT_BASE: u32 = 0x0040_0000;
pub const DATA_BASE: u32 = 0x1001_0000;
pub const STACK_TOP: u32 = 0x7fff_eff0;
/// return address of the outermost activation (never a real instruction)
pub const HALT_ADDR: u32 = 0x0000_0004;

#[derive(Clone, Debug, PartialEq, Eq)]
pub enum Stop {
    /// exit ecall (10 or 93)
    Exit,
    /// returned from the outermost activation
    ReturnedFromMain,
    /// ran off the end of the text
    FellOffEnd,
    /// step horizon reached
    Horizon,
    /// jump to something that is not an instruction / misaligned access / unknown
    Fault(String),
}

#[derive(Clone, Debug)]
pub struct Machine {
    pub regs: [u32; 32],
    pub mem: HashMap<u32, u8>,
    pub csr: HashMap<u32, u32>,
    /// background value of untouched memory bytes: f(addr)
    pub fill: u32,
    pub pc: usize,
}

impl Machine {
    pub fn new(fill: u32) -> Machine {
        let mut regs = [0u32; 32];
        for (i, r) in regs.iter_mut().enumerate() {
            // pairwise distinct generic values, far from small constants and addresses
            *r = 0x0101_0101u32
                .wrapping_mul(i as u32 + 3)
                .wrapping_add(fill.wrapping_mul(0x9E37_79B9));
        }
        regs[0] = 0;
        regs[SP as usize] = STACK_TOP;
        regs[RA as usize] = HALT_ADDR;
        Machine {
            regs,
            mem: HashMap::new(),
            csr: HashMap::new(),
            fill,
            pc: 0,
        }
    }
    pub fn get(&self, r: Reg) -> u32 {
        if r == 0 {
            0
        } else {
            self.regs[r as usize]
        }
    }
    pub fn set(&mut self, r: Reg, v: u32) {
        if r != 0 {
            self.regs[r as usize] = v;
        }
    }
    pub fn load8(&self, a: u32) -> u8 {
        match self.mem.get(&a) {
            Some(b) => *b,
            None => (a.wrapping_mul(0x45d9_f3b).wrapping_add(self.fill) >> 7) as u8,
        }
    }
    pub fn load(&self, a: u32, bytes: u32) -> u32 {
        let mut v = 0u32;
        for i in 0..bytes {
            v |= (self.load8(a.wrapping_add(i)) as u32) << (8 * i);
        }
        v
    }
    pub fn store(&mut self, a: u32, bytes: u32, v: u32) {
        for i in 0..bytes {
            self.mem.insert(a.wrapping_add(i), (v >> (8 * i)) as u8);
        }
    }
}

/// Resolved program: instruction list with label -> index / data address.
pub struct Image<'a> {
    pub insts: Vec<&'a Inst>,
    pub text_labels: HashMap<String, usize>,
    pub data_labels: HashMap<String, u32>,
    pub data_init: Vec<(u32, u32, u32)>, // (addr, bytes, value)
}

impl<'a> Image<'a> {
    pub fn new(p: &'a Program) -> Image<'a> {
        let mut insts = Vec::new();
        let mut text_labels = HashMap::new();
        let mut data_labels = HashMap::new();
        let mut data_init = Vec::new();
        let mut in_data = false;
        let mut daddr = DATA_BASE;
        for st in &p.stmts {
            match st {
                Stmt::Label(l) => {
                    if in_data {
                        data_labels.insert(l.clone(), daddr);
                    } else {
                        text_labels.insert(l.clone(), insts.len());
                    }
                }
                Stmt::Inst(_, i) => insts.push(i),
                Stmt::Directive(d) => {
                    let d = d.trim();
                    if d == ".data" {
                        in_data = true;
                    } else if d == ".text" {
                        in_data = false;
                    } else if let Some(rest) = d.strip_prefix(".word") {
                        for tok in rest.split(|c: char| c == ',' || c.is_whitespace()) {
                            if let Ok(v) = tok.parse::<i64>() {
                                data_init.push((daddr, 4, v as u32));
                                daddr += 4;
                            }
                        }
                    } else if let Some(rest) = d.strip_prefix(".space") {
                        if let Ok(v) = rest.trim().parse::<u32>() {
                            daddr += v;
                        }
                    }
                }
            }
        }
        Image {
            insts,
            text_labels,
            data_labels,
            data_init,
        }
    }
    pub fn addr_of(&self, l: &str) -> Option<u32> {
        if let Some(i) = self.text_labels.get(l) {
            Some(TEXT_BASE + 4 * (*i as u32))
        } else {
            self.data_labels.get(l).copied()
        }
    }
    pub fn index_of_addr(&self, a: u32) -> Option<usize> {
        if a >= TEXT_BASE && (a - TEXT_BASE) % 4 == 0 {
            let i = ((a - TEXT_BASE) / 4) as usize;
            if i < self.insts.len() {
                return Some(i);
            }
        }
        None
    }
}

/// What one executed instruction did (for the monitors).
#[derive(Clone, Debug, Default)]
pub struct StepInfo {
    pub index: usize,
    pub reads: Vec<Reg>,
    pub write: Option<Reg>,
    /// (address, bytes, is_store)
    pub mem: Option<(u32, u32, bool)>,
    pub base_reg: Option<Reg>,
    pub next: Option<usize>,
    pub is_call: bool,
    pub is_ret: bool,
    pub branch_taken: Option<bool>,
    pub ecall_num: Option<u32>,
}

/// Environment answers for ecall results: the k-th result-producing ecall gets
/// `answers[k % len]`.
pub struct Env {
    pub answers: Vec<u32>,
    pub used: usize,
}
impl Env {
    pub fn new(answers: Vec<u32>) -> Env {
        Env { answers, used: 0 }
    }
    pub fn next(&mut self) -> u32 {
        let v = if self.answers.is_empty() {
            0
        } else {
            self.answers[self.used % self.answers.len()]
        };
        self.used += 1;
        v
    }
}

/// Result registers of the RARS environment calls (my own transcription of the
/// RARS 1.6 syscall table, integer registers only).
pub fn ecall_results(num: u32) -> &'static [Reg] {
    match num {
        5 | 9 | 12 | 17 | 41 | 42 | 50 | 62 | 63 | 64 | 1024 => &[10],
        30 => &[10, 11],
        51 | 52 | 53 => &[10, 11],
        54 => &[11],
        _ => &[],
    }
}

/// Argument registers of the RARS environment calls (same source, integer registers only;
/// None = a service this transcription does not cover).
pub fn ecall_arguments(num: u32) -> Option<&'static [Reg]> {
    Some(match num {
        5 | 10 | 12 | 30 => &[],
        1 | 4 | 9 | 11 | 32 | 34 | 35 | 36 | 41 | 50 | 51 | 57 | 93 => &[10],
        8 | 17 | 40 | 42 | 55 | 56 | 59 => &[10, 11],
        54 | 62 | 63 | 64 => &[10, 11, 12],
        31 | 33 => &[10, 11, 12, 13],
        _ => return None,
    })
}

pub fn step(img: &Image, m: &mut Machine, env: &mut Env) -> Result<StepInfo, Stop> {
    let idx = m.pc;
    let Some(inst) = img.insts.get(idx) else {
        return Err(Stop::FellOffEnd);
    };
    let mut info = StepInfo {
        index: idx,
        reads: inst.sources(),
        write: inst.dest(),
        next: Some(idx + 1),
        ..Default::default()
    };
    let target = |l: &str| -> Result<usize, Stop> {
        img.text_labels
            .get(l)
            .copied()
            .ok_or_else(|| Stop::Fault(format!("jump to non-text label {l}")))
    };
    match inst {
        Inst::R(op, rd, a, b) => {
            let v = alu32(*op, m.get(*a), m.get(*b));
            m.set(*rd, v);
        }
        Inst::I(op, rd, a, imm) => {
            let v = alu32(op.rop(), m.get(*a), *imm as u32);
            m.set(*rd, v);
        }
        Inst::Lui(rd, imm) => m.set(*rd, (*imm as u32) << 12),
        Inst::Auipc(rd, imm) => m.set(*rd, (TEXT_BASE + 4 * idx as u32).wrapping_add((*imm as u32) << 12)),
        Inst::Li(rd, imm) => m.set(*rd, *imm as u32),
        Inst::Load(op, rd, b, imm) => {
            let a = m.get(*b).wrapping_add(*imm as u32);
            let (bytes, signed) = match op {
                LOp::Lb => (1, true),
                LOp::Lbu => (1, false),
                LOp::Lh => (2, true),
                LOp::Lhu => (2, false),
                LOp::Lw => (4, false),
            };
            if a % bytes != 0 {
                return Err(Stop::Fault("misaligned load".into()));
            }
            let raw = m.load(a, bytes);
            let v = if signed {
                let sh = 32 - 8 * bytes;
                (((raw << sh) as i32) >> sh) as u32
            } else {
                raw
            };
            m.set(*rd, v);
            info.mem = Some((a, bytes, false));
            info.base_reg = Some(*b);
        }
        Inst::Store(op, v, b, imm) => {
            let a = m.get(*b).wrapping_add(*imm as u32);
            let bytes = match op {
                SOp::Sb => 1,
                SOp::Sh => 2,
                SOp::Sw => 4,
            };
            if a % bytes != 0 {
                return Err(Stop::Fault("misaligned store".into()));
            }
            let val = m.get(*v);
            m.store(a, bytes, val);
            info.mem = Some((a, bytes, true));
            info.base_reg = Some(*b);
        }
        Inst::Branch(op, a, b, l) => {
            let t = op.taken(m.get(*a), m.get(*b));
            info.branch_taken = Some(t);
            if t {
                info.next = Some(target(l)?);
            }
        }
        Inst::Jal(rd, l) => {
            let t = target(l)?;
            m.set(*rd, TEXT_BASE + 4 * (idx as u32 + 1));
            info.next = Some(t);
            info.is_call = *rd == RA;
        }
        Inst::Jalr(rd, rs, imm) => {
            let a = m.get(*rs).wrapping_add(*imm as u32) & !1;
            m.set(*rd, TEXT_BASE + 4 * (idx as u32 + 1));
            info.is_ret = inst.is_ret();
            if a == HALT_ADDR {
                info.next = None;
                m.pc = usize::MAX;
                return if info.is_ret {
                    Err(Stop::ReturnedFromMain)
                } else {
                    Err(Stop::Fault("indirect jump to halt address".into()))
                };
            }
            match img.index_of_addr(a) {
                Some(t) => info.next = Some(t),
                None => return Err(Stop::Fault(format!("indirect jump to {a:#x}"))),
            }
        }
        Inst::La(rd, l) => {
            let a = img
                .addr_of(l)
                .ok_or_else(|| Stop::Fault(format!("la of unknown label {l}")))?;
            m.set(*rd, a);
        }
        Inst::LaUpper(rd, l, lo) => {
            let a = img
                .addr_of(l)
                .ok_or_else(|| Stop::Fault(format!("address of unknown label {l}")))?;
            m.set(*rd, a.wrapping_sub(*lo as u32));
        }
        Inst::Ecall => {
            let num = m.get(A7);
            info.ecall_num = Some(num);
            if num == 10 || num == 93 {
                return Err(Stop::Exit);
            }
            for r in ecall_results(num) {
                let v = env.next();
                m.set(*r, v);
            }
        }
        Inst::Csr(op, rd, csr, rs) => {
            let old = m.csr.get(csr).copied().unwrap_or(0);
            let s = m.get(*rs);
            let new = match op {
                CsrOp::Rw => s,
                CsrOp::Rs => old | s,
                CsrOp::Rc => old & !s,
            };
            m.csr.insert(*csr, new);
            m.set(*rd, old);
        }
        Inst::CsrI(op, rd, csr, imm) => {
            let old = m.csr.get(csr).copied().unwrap_or(0);
            let new = match op {
                CsrOp::Rw => *imm,
                CsrOp::Rs => old | imm,
                CsrOp::Rc => old & !imm,
            };
            m.csr.insert(*csr, new);
            m.set(*rd, old);
        }
    }
    match info.next {
        Some(n) => m.pc = n,
        None => m.pc = usize::MAX,
    }
    Ok(info)
}
