//! C03 — the control-flow graph matches the program's real control flow.
//!
//! Every control-flow kernel program is analysed under every hash-order
//! schedule within the deviation bound; each resulting graph is checked
//! structurally (by node identity) and against every explored execution.

use crate::c01::{initial_machine, n_states, state_index};
use crate::driver::*;
use crate::exec::*;
use crate::gen::*;
use crate::imp;
use crate::model::*;
use crate::sched;
use riscv_analysis::cfg::{Cfg, CfgNode};
use riscv_analysis::parser::{InstructionProperties, ParserNode};
use serde_json::{json, Value};
use std::collections::{HashMap, HashSet};
use std::rc::Rc;

pub struct C03 {
    quick: KernelSpace,
    thorough: KernelSpace,
    /// every branch form (6 base and 10 pseudo mnemonics x operand pairs from {zero, t0, t1}),
    /// forwards and backwards, in main and in a called function
    branch_forms: Vec<Kernel>,
}

fn branch_forms() -> Vec<Kernel> {
    let regs = [ZERO, T0, T1];
    let mut forms: Vec<Stmt> = Vec::new();
    for a in regs {
        for b in regs {
            for op in ALL_BOPS {
                forms.push(inst(Inst::Branch(op, a, b, "L1".into())));
            }
            for (name, op) in [("bgt", BOp::Blt), ("ble", BOp::Bge), ("bgtu", BOp::Bltu), ("bleu", BOp::Bgeu)] {
                forms.push(pseudo(format!("{name} {}, {}, L1", rn(a), rn(b)), Inst::Branch(op, b, a, "L1".into())));
            }
        }
        for (name, op, swap) in [("beqz", BOp::Beq, false), ("bnez", BOp::Bne, false), ("bltz", BOp::Blt, false), ("bgez", BOp::Bge, false), ("bgtz", BOp::Blt, true), ("blez", BOp::Bge, true)] {
            let i = if swap { Inst::Branch(op, ZERO, a, "L1".into()) } else { Inst::Branch(op, a, ZERO, "L1".into()) };
            forms.push(pseudo(format!("{name} {}, L1", rn(a)), i));
        }
    }
    let mut out = Vec::new();
    for f in forms {
        for ctx in [Context::Main, Context::Callee] {
            // forward: the branch skips an instruction
            out.push(Kernel {
                family: "branch-form",
                program: finish(vec![f.clone(), li(A0, 2), label("L1"), li(A1, 3)], ctx),
            });
            // backward: a loop closed by the branch (the counter makes it terminate)
            out.push(Kernel {
                family: "branch-form",
                program: finish(vec![li(T0, 1), label("L1"), addi(T0, T0, -1), li(A0, 2), f.clone(), li(A1, 3)], ctx),
            });
        }
    }
    // a call that is the last instruction of the text and never comes back (its callee ends
    // the program on that path): an executed instruction without a successor
    for reached_by_jump in [false, true] {
        let mut stmts = vec![
            j("main"),
            label("exit_if_zero"),
            inst(Inst::Branch(BOp::Bne, A0, ZERO, "back".into())),
            li(A7, 10),
            ecall(),
            label("back"),
            ret(),
            label("main"),
            li(A0, 1),
            call("exit_if_zero"),
            li(A0, 0),
        ];
        if reached_by_jump {
            stmts.extend([j("last"), addi(T0, T0, 1), label("last")]);
        }
        stmts.push(call("exit_if_zero"));
        out.push(Kernel { family: "last-instruction-is-a-call", program: Program { stmts } });
    }
    out
}

pub fn ptr(n: &Rc<CfgNode>) -> usize {
    Rc::as_ptr(n) as usize
}

pub fn index_map(cfg: &Cfg) -> HashMap<usize, usize> {
    cfg.nodes()
        .iter()
        .enumerate()
        .map(|(i, n)| (ptr(n), i))
        .collect()
}

pub fn has_next(a: &Rc<CfgNode>, b: &Rc<CfgNode>) -> bool {
    a.nexts().iter().any(|x| Rc::ptr_eq(x, b))
}
pub fn has_prev(a: &Rc<CfgNode>, b: &Rc<CfgNode>) -> bool {
    a.prevs().iter().any(|x| Rc::ptr_eq(x, b))
}

pub fn is_rewritten_return(n: &CfgNode) -> bool {
    matches!(n.node(), ParserNode::JumpLink(ref j) if j.name.get().as_str() == "(return)")
}

pub fn node_desc(cfg: &Cfg, n: &Rc<CfgNode>) -> String {
    let idx = cfg.nodes().iter().position(|x| Rc::ptr_eq(x, n));
    format!("#{}:{}", idx.map(|i| i as i64).unwrap_or(-1), n.node())
}

/// Edge signature of a graph: sorted (from, to) index pairs.
pub fn edge_signature(cfg: &Cfg) -> Vec<(usize, usize)> {
    let im = index_map(cfg);
    let mut v = Vec::new();
    for (i, n) in cfg.nodes().iter().enumerate() {
        for m in n.nexts().iter() {
            v.push((i, im.get(&ptr(m)).copied().unwrap_or(usize::MAX)));
        }
    }
    v.sort_unstable();
    v
}

/// Structural clauses (i)-(iii); returns (clause, description) of the first failure.
pub fn structural(cfg: &Cfg) -> (u64, u64, Option<(String, String)>) {
    let im = index_map(cfg);
    let nodes = cfg.nodes();
    let mut edges = 0u64;
    let mut stale = 0u64;
    for (i, n) in nodes.iter().enumerate() {
        let nexts: Vec<Rc<CfgNode>> = n.nexts().iter().cloned().collect();
        let prevs: Vec<Rc<CfgNode>> = n.prevs().iter().cloned().collect();
        for m in &nexts {
            edges += 1;
            if !n.nexts().contains(m) {
                stale += 1;
            }
            let Some(&j) = im.get(&ptr(m)) else {
                return (edges, stale, Some(("edge-to-foreign-node".into(), node_desc(cfg, n))));
            };
            if !has_prev(m, n) {
                return (
                    edges,
                    stale,
                    Some((
                        "next-without-prev".into(),
                        format!("{} -> {}", node_desc(cfg, n), node_desc(cfg, m)),
                    )),
                );
            }
            let fall = j == i + 1 && !n.is_return() && !n.is_unconditional_jump();
            let by_label = n
                .jumps_to()
                .map(|l| m.labels.iter().any(|x| x.get() == l.get()))
                .unwrap_or(false);
            let merged_return = is_rewritten_return(n)
                && n.functions().iter().any(|f| Rc::ptr_eq(&f.exit(), m));
            if !(fall || by_label || merged_return) {
                return (
                    edges,
                    stale,
                    Some((
                        "unjustified-edge".into(),
                        format!("{} -> {}", node_desc(cfg, n), node_desc(cfg, m)),
                    )),
                );
            }
        }
        for p in &prevs {
            if !n.prevs().contains(p) {
                stale += 1;
            }
            if !im.contains_key(&ptr(p)) {
                return (edges, stale, Some(("edge-from-foreign-node".into(), node_desc(cfg, n))));
            }
            if !has_next(p, n) {
                return (
                    edges,
                    stale,
                    Some((
                        "prev-without-next".into(),
                        format!("{} <- {}", node_desc(cfg, n), node_desc(cfg, p)),
                    )),
                );
            }
        }
        if n.is_program_exit() {
            if !nexts.is_empty() {
                return (
                    edges,
                    stale,
                    Some(("edge-after-exit-ecall".into(), node_desc(cfg, n))),
                );
            }
            for other in nodes.iter() {
                if has_prev(other, n) {
                    return (
                        edges,
                        stale,
                        Some(("exit-ecall-still-a-predecessor".into(), node_desc(cfg, other))),
                    );
                }
            }
        }
    }
    (edges, stale, None)
}

/// Dynamic clause: every transfer of an explored execution is an edge and no
/// executed node is reported unreachable. Returns (transfers checked, failure).
pub fn dynamic(
    prog: &Program,
    cfg: &Cfg,
    b: &Binding,
    unreachable: &HashSet<(usize, usize)>,
    state: usize,
) -> (u64, String, Option<(String, Value)>) {
    let img = Image::new(prog);
    let mut m = initial_machine(state);
    for (a, bytes, v) in &img.data_init {
        m.store(*a, *bytes, *v);
    }
    let mut env = Env::new(vec![0x1234 + state as u32]);
    let lim = Limits {
        horizon: 256,
        require_callee_convention: false,
    };
    let mut transfers = 0u64;
    let mut failure: Option<(String, Value)> = None;
    let mut stop = String::new();
    let mut last_was_call = false;
    let mut last_call_idx: Option<usize> = None;
    let mut trace: Vec<usize> = Vec::new();
    let mut cb = |ev: &Event, _m: &Machine, _frames: &[Frame]| {
        if failure.is_some() {
            return;
        }
        match ev {
            Event::Before {
                idx,
                from,
                via_call_return,
            } => {
                let node = &b.inst_nodes[*idx];
                trace.push(*idx);
                let entry = b.entry_before[*idx].as_ref();
                let mut need: Vec<(Rc<CfgNode>, Rc<CfgNode>, &'static str)> = Vec::new();
                match from {
                    None => {
                        // program start
                        match entry {
                            Some(e) => {
                                need.push((Rc::clone(&b.program_entry), Rc::clone(e), "start"));
                                need.push((Rc::clone(e), Rc::clone(node), "entry"));
                            }
                            None => need.push((Rc::clone(&b.program_entry), Rc::clone(node), "start")),
                        }
                    }
                    Some(p) => {
                        if *via_call_return {
                            if let Some(c) = last_call_idx {
                                // (the instruction behind the call can head a function itself:
                                // the entry node stands in between then)
                                match entry {
                                    Some(e) => {
                                        need.push((Rc::clone(&b.inst_nodes[c]), Rc::clone(e), "call-return"));
                                        need.push((Rc::clone(e), Rc::clone(node), "entry"));
                                    }
                                    None => need.push((Rc::clone(&b.inst_nodes[c]), Rc::clone(node), "call-return")),
                                }
                            }
                        } else if last_was_call {
                            // call -> callee entry is not an intra-function transfer,
                            // but the entry node leads to the first instruction
                            if let Some(e) = entry {
                                need.push((Rc::clone(e), Rc::clone(node), "entry"));
                            }
                        } else {
                            let pn = &b.inst_nodes[*p];
                            match entry {
                                Some(e) => {
                                    need.push((Rc::clone(pn), Rc::clone(e), "transfer"));
                                    need.push((Rc::clone(e), Rc::clone(node), "entry"));
                                }
                                None => need.push((Rc::clone(pn), Rc::clone(node), "transfer")),
                            }
                        }
                    }
                }
                for (x, y, kind) in need {
                    transfers += 1;
                    if !has_next(&x, &y) || !has_prev(&y, &x) {
                        failure = Some((
                            format!("C03|missing-edge|{kind}|{}", crate::c01::mnemonic_of(&x)),
                            json!({"source": prog.text(), "initial_state": state, "executed": trace,
                                   "from": node_desc(cfg, &x), "to": node_desc(cfg, &y)}),
                        ));
                        return;
                    }
                }
                let r = node.node().token().clone();
                let _ = r;
                let range = riscv_analysis::passes::DiagnosticLocation::range(&node.node());
                if unreachable.contains(&(range.start().raw_index(), range.end().raw_index())) {
                    failure = Some((
                        format!("C03|executed-node-reported-unreachable|{}", crate::c01::mnemonic_of(node)),
                        json!({"source": prog.text(), "initial_state": state, "executed": trace,
                               "node": node_desc(cfg, node)}),
                    ));
                }
            }
            Event::After { idx, info } => {
                last_was_call = info.is_call;
                if info.is_call {
                    last_call_idx = Some(*idx);
                }
            }
            Event::Returned { call_idx, .. } => {
                last_call_idx = Some(*call_idx);
            }
            Event::Stopped(s) => {
                stop = match s {
                    Stop::Fault(_) => "fault".into(),
                    o => format!("{o:?}"),
                }
            }
            Event::LeftSubset(w) => stop = format!("left:{w}"),
            _ => {}
        }
    };
    run_traced(&img, b, &mut m, &mut env, &lim, &mut cb);
    (transfers, stop, failure)
}

impl C03 {
    pub fn new() -> C03 {
        C03 {
            quick: KernelSpace::new(KernelBounds::for_tier(Tier::Quick)),
            thorough: KernelSpace::new(KernelBounds::for_tier(Tier::Thorough)),
            branch_forms: branch_forms(),
        }
    }
    fn space(&self, tier: Tier) -> &KernelSpace {
        tier.pick(&self.quick, &self.thorough)
    }
    fn kernel(&self, tier: Tier, case: u64) -> Kernel {
        let nb = self.branch_forms.len() as u64;
        if case < nb {
            return self.branch_forms[case as usize].clone();
        }
        let sp = self.space(tier);
        sp.get(sp.control_part().0 + case - nb)
    }

    pub fn run_program(&self, tier: Tier, case: u64, k: &Kernel, acc: &mut Acc) {
        let text = k.program.text();
        let (bound, full_cap, bound_cap) = tier.pick((1, 64, 128), (2, 1024, 2048));
        let mut panicked: Option<String> = None;
        let mut run = |prefix: &[u32]| -> Option<(imp::Run, Vec<riscv_analysis::verif::Decision>)> {
            match imp::analyze(imp::MemReader::single(&text), "base.s", prefix) {
                Ok(r) => {
                    let d = r.report.decisions.clone();
                    Some((r, d))
                }
                Err(p) => {
                    panicked = Some(p.0);
                    None
                }
            }
        };
        let ex = sched::explore(&mut run, bound, full_cap, bound_cap);
        if let Some(msg) = panicked {
            // crashes are C06's subject; recorded here as an outcome only
            acc.count("analysis_panicked", 1);
            acc.outcome(&format!("panic:{}", msg.chars().take(60).collect::<String>()), case);
            return;
        }
        if let Some(d) = &ex.replay_divergence {
            acc.violation("C03|machinery|replay-divergence", case, json!({"source": text, "what": d}));
            return;
        }
        acc.count("schedules", ex.runs.len() as u64);
        if ex.complete {
            acc.count("programs_schedule_tree_complete", 1);
        }
        if ex.runs.len() > 1 {
            acc.count("programs_with_several_schedules", 1);
        }
        let mut seen_sigs: Vec<Vec<(usize, usize)>> = Vec::new();
        let mut nontrivial = ex.runs.len() > 1;
        for (schedule, run) in &ex.runs {
            let cfg = match &run.cfg {
                Ok(c) => c,
                Err(e) => {
                    acc.outcome(&format!("cfg-error:{}", imp::cfg_error_code(e)), case);
                    acc.count("cfg_rejected", 1);
                    return;
                }
            };
            acc.count("graphs", 1);
            let (edges, stale, bad) = structural(cfg);
            acc.count("edges_checked", edges);
            acc.count("stale_hash_members_informational", stale);
            if cfg.nodes().iter().any(|n| is_rewritten_return(n)) {
                nontrivial = true;
                acc.count("graphs_with_merged_returns", 1);
            }
            if let Some((clause, what)) = bad {
                acc.violation(
                    format!("C03|structural|{clause}"),
                    case,
                    json!({"source": text, "schedule": schedule, "what": what, "family": k.family, "case": case}),
                );
                return;
            }
            let sig = edge_signature(cfg);
            if seen_sigs.contains(&sig) {
                continue;
            }
            seen_sigs.push(sig);
            // dynamic clause on this distinct graph
            let b = match bind(cfg, &k.program) {
                Ok(b) => b,
                Err(e) => {
                    acc.violation("C03|machinery|binding", case, json!({"source": text, "error": e}));
                    return;
                }
            };
            let unreachable: HashSet<(usize, usize)> = run
                .diags
                .iter()
                .filter(|d| d.code == "unreachable-code")
                .map(|d| (d.start_raw, d.end_raw))
                .collect();
            let mut fails = Vec::new();
            let mut outside = false;
            for j in 0..n_states(tier) {
                let st = state_index(tier, j);
                let (t, stop, f) = dynamic(&k.program, cfg, &b, &unreachable, st);
                acc.count("executions", 1);
                acc.count("transfers_checked", t);
                acc.outcome(&format!("stop:{stop}"), case);
                if stop == "FellOffEnd" {
                    outside = true;
                }
                if let Some(f) = f {
                    fails.push(f);
                }
            }
            if outside {
                // some path of this program does not end in ret or an exit ecall
                acc.count("programs_outside_quantifier", 1);
                continue;
            }
            if let Some((class, mut w)) = fails.into_iter().next() {
                w["schedule"] = json!(schedule);
                w["family"] = json!(k.family);
                w["case"] = json!(case);
                acc.violation(class, case, w);
                return;
            }
        }
        acc.count("distinct_graphs", seen_sigs.len() as u64);
        if seen_sigs.len() > 1 {
            acc.count("programs_with_schedule_dependent_graph", 1);
        }
        if nontrivial {
            acc.count("nontrivial", 1);
        }
        acc.count("programs_analysed", 1);
    }
}

impl Property for C03 {
    fn id(&self) -> &'static str {
        "C03"
    }
    fn cases(&self, tier: Tier) -> u64 {
        self.branch_forms.len() as u64 + self.space(tier).control_part().1
    }
    fn chunk(&self, tier: Tier) -> u64 {
        // many schedules per program: keep worker lifetimes (and leaked graphs) short
        tier.pick(1500, 400)
    }
    fn run_case(&self, tier: Tier, case: u64, acc: &mut Acc) {
        acc.count("cases", 1);
        let k = self.kernel(tier, case);
        if case % 9973 == 0 {
            acc.sample(json!({"case": case, "family": k.family, "source": k.program.text()}));
        }
        self.run_program(tier, case, &k, acc);
    }
    fn show(&self, tier: Tier, case: u64) -> String {
        let k = self.kernel(tier, case);
        format!("[{}]\n{}", k.family, k.program.text())
    }
    fn replay(&self, w: &Value, acc: &mut Acc) {
        if let Some(case) = w["case"].as_u64() {
            for tier in [Tier::Quick, Tier::Thorough] {
                if case < self.cases(tier) {
                    let k = self.kernel(tier, case);
                    if Some(k.program.text().as_str()) == w["source"].as_str() {
                        self.run_program(tier, case, &k, acc);
                        return;
                    }
                }
            }
        }
        acc.notes.push("replay: case index does not reproduce the recorded source".into());
    }
    fn info(&self, tier: Tier) -> Info {
        let b = KernelBounds::for_tier(tier);
        Info {
            rule: "every branch form (6 base and 10 pseudo branch mnemonics x operand pairs over {zero, t0, t1}, forwards and as a loop, in main and in a called function) and every control-flow kernel program (all sequences over 12/14 symbols incl. labels, branches, jumps, calls, returns; 10 skeletons) is analysed under every hash-order schedule within the deviation bound (whole schedule tree when small); each graph is checked structurally by node identity (inverse relations, every edge justified, exit ecalls cut) and every transfer of every explored execution must be an edge, with no executed node reported unreachable. Non-trivial = programs with >= 2 explored schedules or a merged return".into(),
            bounds: json!({"ctl_len": b.ctl_len, "skeleton_slots": b.skel_slots, "deviation_bound": tier.pick(1, 2), "full_tree_below": tier.pick(64, 1024), "initial_states": n_states(tier), "step_horizon": 256}),
            assumptions: vec![
                "programs in which an explored execution falls off the end of the text are outside the quantifier (their dynamic verdicts are discarded)".into(),
                "stale hash-set members (a node whose key changed while inside a set) are counted, not reported: the statement is about the relations, not about hash lookups".into(),
            ],
            states_counter: "graphs",
            transitions_counter: "transfers_checked",
            traces_counter: "executions",
            nontrivial_counter: "nontrivial",
            exhaustive: true,
        }
    }
}
