//! Hash-order schedule explorer: stateless re-execution under the rva_verif
//! choice-point hooks, with an iterated deviation bound (a deviation is a
//! non-canonical choice), exactly like preemption bounding.

use riscv_analysis::verif::Decision;

pub struct Explored<T> {
    pub runs: Vec<(Vec<u32>, T)>,
    /// the whole schedule tree was explored
    pub complete: bool,
    pub max_deviations_completed: u32,
    pub choice_points_max: usize,
    pub replay_divergence: Option<String>,
}

/// `run(prefix)` executes the subject with decisions `prefix` followed by
/// canonical choices and returns the observation and all decisions taken.
/// First tries the full tree (if it stays below `full_cap` runs), otherwise
/// everything with at most `bound` deviations (capped at `bound_cap` runs).
pub fn explore<T>(
    run: &mut dyn FnMut(&[u32]) -> Option<(T, Vec<Decision>)>,
    bound: u32,
    full_cap: usize,
    bound_cap: usize,
) -> Explored<T> {
    // pass 1: full tree up to full_cap
    let mut out = Explored {
        runs: Vec::new(),
        complete: false,
        max_deviations_completed: 0,
        choice_points_max: 0,
        replay_divergence: None,
    };
    let full = explore_bounded(run, u32::MAX, full_cap, &mut out);
    if full {
        out.complete = true;
        out.max_deviations_completed = u32::MAX;
        return out;
    }
    // pass 2: iterate the deviation bound
    let mut best: Option<Explored<T>> = None;
    for b in 0..=bound {
        let mut o = Explored {
            runs: Vec::new(),
            complete: false,
            max_deviations_completed: b,
            choice_points_max: 0,
            replay_divergence: None,
        };
        let done = explore_bounded(run, b, bound_cap, &mut o);
        if !done {
            break;
        }
        best = Some(o);
    }
    match best {
        Some(b) => b,
        None => {
            out.runs.truncate(1);
            out.max_deviations_completed = 0;
            out
        }
    }
}

fn explore_bounded<T>(
    run: &mut dyn FnMut(&[u32]) -> Option<(T, Vec<Decision>)>,
    bound: u32,
    cap: usize,
    out: &mut Explored<T>,
) -> bool {
    let mut stack: Vec<Vec<u32>> = vec![vec![]];
    while let Some(prefix) = stack.pop() {
        if out.runs.len() >= cap {
            return false;
        }
        let Some((obs, decisions)) = run(&prefix) else {
            out.replay_divergence = Some(format!("run failed under schedule {prefix:?}"));
            return true;
        };
        // replay discipline: the prefix must have been consumed exactly as given
        for (i, c) in prefix.iter().enumerate() {
            match decisions.get(i) {
                Some(d) if d.chosen == *c => {}
                _ => {
                    out.replay_divergence =
                        Some(format!("prefix {prefix:?} diverged at decision {i}"));
                    return true;
                }
            }
        }
        out.choice_points_max = out.choice_points_max.max(decisions.len());
        let devs_prefix = prefix.iter().filter(|c| **c != 0).count() as u32;
        if devs_prefix < bound {
            for i in (prefix.len()..decisions.len()).rev() {
                for alt in (1..decisions[i].alternatives).rev() {
                    let mut p = prefix.clone();
                    p.resize(i, 0);
                    p.push(alt);
                    stack.push(p);
                }
            }
        }
        out.runs.push((prefix, obs));
    }
    true
}
