//! Canonical, hash-order-independent text dump of a finished CFG: edges by
//! node index, all six fact maps sorted, function annotations. Two graphs with
//! equal dumps have equal edges, facts and annotations.

use crate::c03::{index_map, ptr};
use riscv_analysis::cfg::Cfg;
use std::fmt::Write;

pub fn canon_dump(cfg: &Cfg) -> String {
    let im = index_map(cfg);
    let idx = |n: &std::rc::Rc<riscv_analysis::cfg::CfgNode>| -> i64 {
        im.get(&ptr(n)).map(|x| *x as i64).unwrap_or(-1)
    };
    let mut out = String::new();
    for (i, n) in cfg.nodes().iter().enumerate() {
        let _ = write!(out, "#{i} {}", n.node());
        let mut labels: Vec<String> = n.labels.iter().map(|l| l.get().as_str().to_string()).collect();
        labels.sort();
        let _ = write!(out, " labels={labels:?}");
        let mut nx: Vec<i64> = n.nexts().iter().map(&idx).collect();
        nx.sort_unstable();
        let mut pv: Vec<i64> = n.prevs().iter().map(&idx).collect();
        pv.sort_unstable();
        let _ = write!(out, " nexts={nx:?} prevs={pv:?}");
        let mut fs: Vec<(i64, i64)> = n
            .functions()
            .iter()
            .map(|f| (idx(&f.entry()), idx(&f.exit())))
            .collect();
        fs.sort_unstable();
        let _ = write!(out, " funcs={fs:?}");
        let mut ri: Vec<String> = n.reg_values_in().iter().map(|(r, v)| format!("{r}={v:?}")).collect();
        ri.sort();
        let mut ro: Vec<String> = n.reg_values_out().iter().map(|(r, v)| format!("{r}={v:?}")).collect();
        ro.sort();
        let mut mi: Vec<String> = n.memory_values_in().iter().map(|(r, v)| format!("{r:?}={v:?}")).collect();
        mi.sort();
        let mut mo: Vec<String> = n.memory_values_out().iter().map(|(r, v)| format!("{r:?}={v:?}")).collect();
        mo.sort();
        let _ = write!(out, " rin={ri:?} rout={ro:?} min={mi:?} mout={mo:?}");
        let _ = writeln!(
            out,
            " live_in={} live_out={} u_def={}",
            n.live_in(),
            n.live_out(),
            n.u_def()
        );
    }
    // function table: label -> (entry, exit), sorted by label
    let mut ft: Vec<String> = cfg
        .functions()
        .iter()
        .map(|(l, f)| {
            let mut body: Vec<i64> = f.nodes().iter().map(&idx).collect();
            body.sort_unstable();
            format!(
                "{}:entry={},exit={},args={},rets={},body={body:?}",
                l.get().as_str(),
                idx(&f.entry()),
                idx(&f.exit()),
                f.arguments(),
                f.returns()
            )
        })
        .collect();
    ft.sort();
    for l in ft {
        let _ = writeln!(out, "fn {l}");
    }
    out
}
