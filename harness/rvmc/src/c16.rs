//! C16 — every analysis failure is explained at a real place in the user's files.

use crate::cli;
use crate::driver::*;
use crate::gen::SeqSpace;
use crate::imp;
use crate::loc::Locator;
use serde_json::{json, Value};
use std::time::Duration;

pub struct C16 {
    alpha: Vec<&'static str>,
    quick: SeqSpace,
    thorough: SeqSpace,
}

fn alphabet() -> Vec<&'static str> {
    vec![
        "A:",
        "B:",
        "    j A",
        "    j B",
        "    beq t0, t1, A",
        "    jal A",
        "    jal B",
        "    la t0, A",
        "    la t0, U",
        "    j U",
        "    jal V",
        "    jal t0, A",
        "    jal t0, U",
        "    ret",
        "    addi t0, t0, 1",
        "    li a7, 10\n    ecall",
        ".data",
        "    .word 1",
        ".text",
    ]
}

/// Failing programs longer than the sequence space reaches: functions that never return, alone
/// and entangled with a function that does.
fn fixed_programs() -> Vec<&'static str> {
    vec![
        // a called function that loops forever
        "main:\n    jal ra, spin\n    li a7, 10\n    ecall\nspin:\n    addi a0, a0, -1\n    j spin\n",
        // the same, entered also by fall-through from an earlier function that returns on another path
        "main:\n    li a0, 1\n    jal ra, outer\n    jal ra, spin\n    li a7, 10\n    ecall\nouter:\n    beq a0, zero, done\nspin:\n    addi a0, a0, -1\n    j spin\ndone:\n    ret\n",
        // ... and by a jump from it
        "main:\n    jal ra, outer\n    jal ra, spin\n    li a7, 10\n    ecall\nouter:\n    beq a0, zero, done\n    j spin\ndone:\n    ret\nspin:\n    addi a0, a0, -1\n    j spin\n",
        // a never-returning function that calls a returning one
        "main:\n    jal ra, spin\n    li a7, 10\n    ecall\nspin:\n    jal ra, leaf\n    j spin\nleaf:\n    ret\n",
    ]
}

impl C16 {
    pub fn new() -> C16 {
        let alpha = alphabet();
        let a = alpha.len() as u64;
        C16 {
            alpha,
            quick: SeqSpace { a, min: 1, max: 4 },
            thorough: SeqSpace { a, min: 1, max: 5 },
        }
    }
    fn space(&self, tier: Tier) -> &SeqSpace {
        tier.pick(&self.quick, &self.thorough)
    }
    fn text(&self, tier: Tier, case: u64) -> String {
        let n = self.space(tier).count();
        if case >= n {
            return fixed_programs()[(case - n) as usize].to_string();
        }
        let mut s = String::new();
        for i in self.space(tier).decode(case) {
            s.push_str(self.alpha[i]);
            s.push('\n');
        }
        s
    }

    fn run_text(&self, case: u64, text: &str, with_cli: bool, acc: &mut Acc) {
        let run = match imp::analyze_text(text) {
            Ok(r) => r,
            Err(p) => {
                // a panic is an analysis failure explained nowhere in the user's files
                acc.count("analysis_panicked", 1);
                acc.violation(
                    "C16|analysis-failure-without-a-located-explanation|panic".to_string(),
                    case,
                    json!({"source": text, "panic": p.0.chars().take(200).collect::<String>()}),
                );
                return;
            }
        };
        if !run.parse_errors.is_empty() {
            acc.violation("C16|machinery|parse-errors", case, json!({"source": text}));
            return;
        }
        acc.count("traces", 1);
        let loc = Locator::new(text);
        // which labels are defined / used / duplicated, from the text itself
        let mut defs: Vec<(String, usize)> = Vec::new(); // (label, line)
        let mut uses: Vec<(String, usize)> = Vec::new();
        for (ln, line) in text.lines().enumerate() {
            let t = line.trim();
            if let Some(l) = t.strip_suffix(':') {
                defs.push((l.to_string(), ln));
            } else if let Some(l) = t.split_whitespace().last() {
                if ["j", "beq", "jal", "la"].contains(&t.split_whitespace().next().unwrap_or("")) {
                    uses.push((l.to_string(), ln));
                }
            }
        }
        let undefined: Vec<&(String, usize)> = uses.iter().filter(|(l, _)| !defs.iter().any(|(d, _)| d == l)).collect();
        let witness = |what: &str, d: Option<&imp::Diag>| json!({"source": text, "case": case, "what": what, "error": d});
        match &run.cfg {
            Ok(_) => {
                if !undefined.is_empty() {
                    acc.violation("C16|undefined-label-not-reported", case, witness("the program uses an undefined label but the analysis succeeded", None));
                    return;
                }
                // a label defined twice must stop the analysis with an error naming it
                if let Some((name, first, second)) = defs.iter().enumerate().find_map(|(i, (l, ln))| defs[..i].iter().find(|(p, _)| p == l).map(|(_, pl)| (l.clone(), *pl, *ln))) {
                    let between: Vec<&str> = text.lines().skip(first + 1).take(second - first - 1).map(|x| x.trim()).collect();
                    let shape = if between.iter().all(|x| x.is_empty() || x.ends_with(':')) {
                        "definitions-adjacent"
                    } else if between.iter().all(|x| x.is_empty() || x.ends_with(':') || x.starts_with('.')) {
                        "only-directives-between"
                    } else {
                        "code-between"
                    };
                    acc.violation(
                        format!("C16|duplicate-label-not-reported|{shape}"),
                        case,
                        witness(&format!("label {name} is defined on lines {} and {} but the analysis succeeded", first + 1, second + 1), None),
                    );
                    return;
                }
                acc.outcome("analysed", case);
            }
            Err(_) => {
                acc.count("nontrivial", 1);
                let d = run.diags.last().expect("cfg error diag");
                let code = d.code.as_str();
                let generic = code == "cfg-unexpected-error" || code == "cfg-assertion-error";
                if generic || d.file < 0 {
                    // narrow cause from the program's shape
                    let label_at_end = defs.iter().any(|(l, ln)| {
                        uses.iter().any(|(u, _)| u == l)
                            && text.lines().skip(ln + 1).all(|x| {
                                let x = x.trim();
                                x.is_empty() || x.ends_with(':') || x.starts_with('.')
                            })
                    });
                    let called: Vec<&String> = uses
                        .iter()
                        .filter(|(_, ln)| text.lines().nth(*ln).map(|x| x.trim().starts_with("jal")).unwrap_or(false))
                        .map(|(l, _)| l)
                        .collect();
                    let cause = if label_at_end {
                        "used-label-marks-no-instruction"
                    } else if !called.is_empty() {
                        "called-function-reaches-no-return"
                    } else {
                        "other"
                    };
                    acc.violation(
                        format!("C16|generic-error|{code}|{cause}"),
                        case,
                        witness("the analysis stopped with a generic error attached to no file", Some(d)),
                    );
                    return;
                }
                // a specific error must be located inside the file, on a real token
                if d.start_raw >= loc.len() || d.end_raw >= loc.len() || d.end_raw < d.start_raw {
                    acc.violation(format!("C16|error-located-outside-file|{code}"), case, witness("location outside the file", Some(d)));
                    return;
                }
                let designated = loc.slice(d.start_raw, d.end_raw);
                match code {
                    "cfg-labels-not-defined" => {
                        // names exactly the undefined labels, located at an occurrence of one of them
                        let mut names: Vec<String> = undefined.iter().map(|(l, _)| l.clone()).collect();
                        names.sort();
                        names.dedup();
                        // (the message lists them in the order of their first use)
                        let mut title_names: Vec<String> = d
                            .title
                            .trim_start_matches("Labels not defined: ")
                            .split(", ")
                            .map(|x| x.to_string())
                            .collect();
                        title_names.sort();
                        if names != title_names || names.is_empty() {
                            acc.violation("C16|labels-not-defined|wrong-names", case, witness("the error does not name exactly the undefined labels", Some(d)));
                            return;
                        }
                        let at_use = undefined.iter().any(|(l, ln)| *l == designated && *ln == loc.line_of(d.start_raw));
                        if !at_use {
                            acc.violation("C16|labels-not-defined|not-at-an-occurrence", case, witness("the error is not located at a use of an undefined label", Some(d)));
                            return;
                        }
                    }
                    "cfg-duplicate-label" => {
                        let name = designated.trim_end_matches(':').to_string();
                        let ds: Vec<usize> = defs.iter().filter(|(l, _)| *l == name).map(|(_, ln)| *ln).collect();
                        let line = loc.line_of(d.start_raw);
                        if ds.len() < 2 || !ds[1..].contains(&line) || !d.title.contains(&name) {
                            acc.violation("C16|duplicate-label|wrong-place-or-name", case, witness("not located at a later definition of the duplicated label", Some(d)));
                            return;
                        }
                    }
                    _ => {}
                }
                acc.outcome(&format!("explained:{code}"), case);
                // the same item is visible in the CLI's default output
                if with_cli {
                    let c = cli::text_case("c16", &[("a.s", text)]);
                    let dir = cli::materialize(&c);
                    if let Ok(o) = cli::run_rva("release", &dir, "a.s", &["--compact", "--no-color"], &[], Duration::from_secs(10)) {
                        acc.count("cli_runs", 1);
                        let first_line = d.title.lines().next().unwrap_or("").to_string();
                        if !o.stdout.contains(&first_line) {
                            acc.violation(
                                format!("C16|not-visible-in-default-output|{code}"),
                                case,
                                json!({"source": text, "case": case, "stdout": o.stdout, "expected_title": first_line}),
                            );
                        }
                    }
                    let _ = std::fs::remove_dir_all(dir);
                }
            }
        }
    }
}

impl Property for C16 {
    fn id(&self) -> &'static str {
        "C16"
    }
    fn cases(&self, tier: Tier) -> u64 {
        self.space(tier).count() + fixed_programs().len() as u64
    }
    fn chunk(&self, _tier: Tier) -> u64 {
        3000
    }
    fn run_case(&self, tier: Tier, case: u64, acc: &mut Acc) {
        acc.count("cases", 1);
        let text = self.text(tier, case);
        if case % 9001 == 0 {
            acc.sample(json!({"case": case, "source": text}));
        }
        // the CLI is consulted for every 50th failing program
        self.run_text(case, &text, case % 50 == 0, acc);
    }
    fn show(&self, tier: Tier, case: u64) -> String {
        self.text(tier, case)
    }
    fn replay(&self, w: &Value, acc: &mut Acc) {
        if let Some(t) = w["source"].as_str() {
            self.run_text(w["case"].as_u64().unwrap_or(0), t, true, acc);
        }
    }
    fn info(&self, tier: Tier) -> Info {
        Info {
            rule: "all programs of 1..4/5 lines over a 19-symbol label-structure alphabet (definitions of A and B - repeated symbols give duplicates -, uses of A, B and of undefined U, V in j / beq / jal / jal with another link register / la, ret, an instruction, an exit, .data / .word / .text); every member parses; Manager::run must succeed, or fail with 'labels not defined' naming exactly the undefined labels at one of their uses, with 'duplicate label' at a later definition, or with another specific error located on text of the file - never a generic unexpected/assertion error or the nil file; for every 50th failing program the error must be visible in the CLI's default output. Non-trivial = programs whose analysis fails".into(),
            bounds: json!({"max_lines": self.space(tier).max, "alphabet": self.alpha}),
            assumptions: vec!["label definitions/uses are recomputed from the text by the harness".into()],
            states_counter: "cases",
            transitions_counter: "traces",
            traces_counter: "traces",
            nontrivial_counter: "nontrivial",
            exhaustive: true,
        }
    }
}
