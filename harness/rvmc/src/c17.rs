//! C17 — numeric literals mean what they say.
//!
//! Space: boundary values x notation x sign x letter case x leading zeros,
//! all printable character literals and escapes, a list of malformed
//! spellings; each in four operand contexts, through lexer + parser (+ value
//! analysis for `li`). Oracle: literal semantics written here.

use crate::driver::*;
use crate::imp;
use riscv_analysis::analysis::AvailableValue;
use riscv_analysis::parser::{DirectiveType, ParserNode, Register};
use serde_json::{json, Value};
use std::panic::{catch_unwind, AssertUnwindSafe};

#[derive(Clone, Debug)]
pub struct Lit {
    pub spelling: String,
    /// mathematical value; None = malformed
    pub value: Option<i128>,
    pub kind: &'static str,
}

#[derive(Clone, Copy, Debug, PartialEq, Eq)]
pub enum Ctx {
    Li,
    Lui,
    Word,
    Csr,
    /// second operand of an I-type instruction: `addi t0, t1, <lit>`
    Addi,
    /// offset of a memory operand: `lw t0, <lit>(sp)`
    LoadOff,
    /// offset of the two-operand jalr form: `jalr t1, <lit>`
    JalrOff,
}
const CTXS: [Ctx; 7] = [Ctx::Li, Ctx::Lui, Ctx::Word, Ctx::Csr, Ctx::Addi, Ctx::LoadOff, Ctx::JalrOff];

pub struct C17 {
    lits: Vec<Lit>,
}

/// Independent literal semantics: value of a spelling as a mathematical integer.
pub fn lit_value(s: &str) -> Option<i128> {
    let (neg, rest) = match s.strip_prefix('-') {
        Some(r) => (true, r),
        None => (false, s),
    };
    let mag: i128 = if let Some(d) = rest.strip_prefix("0x").or_else(|| rest.strip_prefix("0X")) {
        if d.is_empty() || d.len() > 24 || !d.chars().all(|c| c.is_ascii_hexdigit()) {
            return None;
        }
        i128::from_str_radix(d, 16).ok()?
    } else if let Some(d) = rest.strip_prefix("0b").or_else(|| rest.strip_prefix("0B")) {
        if d.is_empty() || d.len() > 100 || !d.chars().all(|c| c == '0' || c == '1') {
            return None;
        }
        i128::from_str_radix(d, 2).ok()?
    } else {
        if rest.is_empty() || rest.len() > 30 || !rest.chars().all(|c| c.is_ascii_digit()) {
            return None;
        }
        rest.parse::<i128>().ok()?
    };
    Some(if neg { -mag } else { mag })
}

pub fn fits32(v: i128) -> bool {
    v >= -(1i128 << 31) && v <= (1i128 << 32) - 1
}

fn values() -> Vec<i128> {
    let mut v: Vec<i128> = vec![0, 1, 2, 3, 7, 9, 10, 15, 16, 93, 100, 255, 256, 2047, 2048, 4095, 4096];
    for k in 0..=33u32 {
        let p = 1i128 << k;
        v.extend([p, p - 1, p + 1]);
    }
    for i in 0..31u32 {
        v.push(3i128 << i);
    }
    v.extend([
        0x5555_5555,
        0xAAAA_AAAA,
        0x1234_5678,
        0x8000_0000,
        0x7FFF_FFFF,
        0xFFFF_FFFF,
        0x1_0000_0000,
        0xFFFF_0000,
        0x000F_FFFF,
        0x0010_0000,
        0xDEAD_BEEF,
        0xF000_000F,
        99_999_999_999,
    ]);
    v.sort_unstable();
    v.dedup();
    v
}

fn literals() -> Vec<Lit> {
    let mut out = Vec::new();
    let mut push = |spelling: String, kind: &'static str| {
        let value = lit_value(&spelling);
        out.push(Lit {
            spelling,
            value,
            kind,
        });
    };
    for m in values() {
        for neg in [false, true] {
            let s = if neg { "-" } else { "" };
            push(format!("{s}{m}"), "dec");
            for (pfx, upper) in [("0x", false), ("0X", false), ("0x", true)] {
                for zeros in ["", "0", "0000"] {
                    let d = if upper {
                        format!("{m:X}")
                    } else {
                        format!("{m:x}")
                    };
                    push(format!("{s}{pfx}{zeros}{d}"), "hex");
                }
            }
            for pfx in ["0b", "0B"] {
                for zeros in ["", "00"] {
                    push(format!("{s}{pfx}{zeros}{m:b}"), "bin");
                }
            }
        }
    }
    for bad in [
        "0x", "0X", "0b", "0B", "0b2", "0b12", "--1", "1-", "-", "0x-1", "0b-1", "12a", "0xg",
        "0x1g", "1_000", "_1", "1x0", "0x1_0", "-0x", "-0b", "0xx1", "0bb1", "1e3", "-a", "0o17",
        "1h", "ffh",
    ] {
        push(bad.to_string(), "malformed");
    }
    out
}

/// character literals: (spelling, value or None when malformed)
fn char_literals() -> Vec<Lit> {
    let mut out = Vec::new();
    for c in 0x20u8..0x7f {
        let ch = c as char;
        if ch == '\'' || ch == '\\' {
            continue;
        }
        out.push(Lit {
            spelling: format!("'{ch}'"),
            value: Some(c as i128),
            kind: "char",
        });
    }
    for (esc, v) in [
        ("\\\\", 0x5c),
        ("\\'", 0x27),
        ("\\\"", 0x22),
        ("\\n", 10),
        ("\\t", 9),
        ("\\r", 13),
        ("\\b", 8),
        ("\\f", 12),
        ("\\0", 0),
        ("\\u0041", 0x41),
        ("\\u00e9", 0xe9),
        // code points beyond one byte: the value is the code point, not its low byte
        ("\\u00ff", 0xff),
        ("\\u0100", 0x100),
        ("\\u03bb", 0x3bb),
        ("\\u03BB", 0x3bb),
        ("\\u20AC", 0x20ac),
        ("\\u7fff", 0x7fff),
        ("\\uffff", 0xffff),
    ] {
        out.push(Lit {
            spelling: format!("'{esc}'"),
            value: Some(v),
            kind: "char-escape",
        });
    }
    out.push(Lit {
        spelling: "'é'".into(),
        value: Some(0xe9),
        kind: "char",
    });
    for (ch, v) in [('\u{ff}', 0xff), ('\u{100}', 0x100), ('\u{3bb}', 0x3bb), ('\u{20ac}', 0x20ac), ('\u{3000}', 0x3000), ('\u{ffff}', 0xffff), ('\u{1f600}', 0x1f600), ('\u{10ffff}', 0x10ffff)] {
        out.push(Lit {
            spelling: format!("'{ch}'"),
            value: Some(v),
            kind: "char",
        });
    }
    for bad in ["''", "'ab'", "'a", "'\\q'", "'\\u00'", "'\\ud800'"] {
        out.push(Lit {
            spelling: bad.into(),
            value: None,
            kind: "char-malformed",
        });
    }
    out
}

impl C17 {
    pub fn new() -> C17 {
        let mut lits = literals();
        lits.extend(char_literals());
        C17 { lits }
    }

    fn source(ctx: Ctx, lit: &str) -> (String, usize) {
        // returns (source, byte/char offset of the literal); all ASCII before the literal
        let head = match ctx {
            Ctx::Li => "main:\n    li t0, ",
            Ctx::Lui => "main:\n    lui t0, ",
            Ctx::Word => "main:\n    li a7, 10\n    ecall\n.data\nv: .word ",
            Ctx::Csr => "main:\n    csrr t0, ",
            Ctx::Addi => "main:\n    addi t0, t1, ",
            Ctx::LoadOff => "main:\n    lw t0, ",
            Ctx::JalrOff => "main:\n    jalr t1, ",
        };
        let tail = match ctx {
            // a data directive that ends the file is lost altogether (a C07 matter),
            // so something follows it here
            Ctx::Word => "\n.text\n",
            Ctx::LoadOff => "(sp)\n    li a7, 10\n    ecall\n",
            _ => "\n    li a7, 10\n    ecall\n",
        };
        (format!("{head}{lit}{tail}"), head.chars().count())
    }

    fn run_one(&self, case: u64, lit: &Lit, ctx: Ctx, acc: &mut Acc) {
        let (src, off) = Self::source(ctx, &lit.spelling);
        let is_char = lit.kind.starts_with("char");
        if is_char && ctx == Ctx::Csr {
            // CSR operands are symbols only; character literals are not claimed there
            acc.count("skipped_char_csr", 1);
            return;
        }
        let witness = |what: &str, detail: Value| {
            json!({"literal": lit.spelling, "context": format!("{ctx:?}"), "source": src,
                   "expected_value": lit.value.map(|v| v.to_string()), "what": what, "detail": detail,
                   "profile": crate::profile()})
        };
        let shape = |l: &Lit| -> String {
            // narrow but value-independent description of the spelling
            let neg = l.spelling.starts_with('-');
            let big = match l.value {
                Some(v) if !fits32(v) => "overflow",
                Some(v) if v.unsigned_abs() >= (1u128 << 31) => "ge2^31",
                Some(_) => "small",
                None => "malformed",
            };
            format!("{}{}-{}", if neg { "neg-" } else { "" }, l.kind, big)
        };
        let r = catch_unwind(AssertUnwindSafe(|| imp::analyze_text(&src)));
        let run = match r {
            Ok(Ok(run)) => run,
            Ok(Err(p)) => {
                acc.violation(
                    format!("C17|panic|{ctx:?}|{}|{}", shape(lit), crate::profile()),
                    case,
                    witness("panic", json!(p.0)),
                );
                return;
            }
            Err(e) => {
                acc.violation(
                    format!("C17|panic|{ctx:?}|{}|{}", shape(lit), crate::profile()),
                    case,
                    witness("panic", json!(imp::panic_message(e))),
                );
                return;
            }
        };
        acc.count("traces", 1);
        // expected acceptance
        let expect_ok: Option<i128> = match (lit.value, ctx) {
            (Some(v), Ctx::Li | Ctx::Word | Ctx::Addi | Ctx::LoadOff | Ctx::JalrOff) if fits32(v) => Some(v),
            (Some(v), Ctx::Lui) if (0..(1i128 << 20)).contains(&v) => Some(v),
            (Some(v), Ctx::Csr) if (0..4096).contains(&v) => Some(v),
            _ => None,
        };
        // no verdict where the statement does not decide: lui with negative or
        // too large values must not be truncated silently => must be rejected;
        // csr numbers beyond 12 bits are left alone.
        let no_verdict = matches!((lit.value, ctx), (Some(v), Ctx::Csr) if !(0..4096).contains(&v) && fits32(v))
            || matches!((lit.value, ctx), (Some(v), Ctx::Lui) if v < 0 && fits32(v));
        // behind `lw t0, ` a spelling that is an identifier is a label, not a literal
        let no_verdict = no_verdict
            || (ctx == Ctx::LoadOff
                && lit.value.is_none()
                && lit.spelling.trim_start_matches('-').chars().next().map(|c| c.is_alphabetic() || c == '_' || c == '.' || c == '$').unwrap_or(true));
        if no_verdict {
            acc.count("no_verdict", 1);
            return;
        }
        let errs_on_lit: Vec<_> = run
            .diags
            .iter()
            .filter(|d| d.code.starts_with("parse-"))
            .collect();
        // find the node of interest
        let node = run.nodes.iter().find(|n| match (ctx, n) {
            (Ctx::Li | Ctx::Lui | Ctx::Addi, ParserNode::IArith(x)) => x.rd.get() == &Register::X5,
            (Ctx::LoadOff, ParserNode::Load(_)) => true,
            (Ctx::JalrOff, ParserNode::JumpLinkR(_)) => true,
            (Ctx::Csr, ParserNode::Csr(_)) => true,
            (Ctx::Word, ParserNode::Directive(d)) => matches!(d.dir, DirectiveType::Data(..)),
            _ => false,
        });
        match expect_ok {
            Some(v) => {
                let word = (v.rem_euclid(1i128 << 32)) as u32;
                let want: u32 = if ctx == Ctx::Lui { word << 12 } else { word };
                if !errs_on_lit.is_empty() || node.is_none() {
                    acc.violation(
                        format!("C17|rejected-valid|{ctx:?}|{}", shape(lit)),
                        case,
                        witness(
                            "a well-formed literal that fits was rejected",
                            json!(errs_on_lit.iter().map(|d| d.title.clone()).collect::<Vec<_>>()),
                        ),
                    );
                    return;
                }
                let got: Option<u32> = match node {
                    Some(ParserNode::IArith(x)) => Some(x.imm.get().value() as u32),
                    Some(ParserNode::Csr(x)) => Some(x.csr.get().value()),
                    Some(ParserNode::Load(x)) => Some(x.imm.get().value() as u32),
                    Some(ParserNode::JumpLinkR(x)) => Some(x.imm.get().value() as u32),
                    Some(ParserNode::Directive(d)) => match &d.dir {
                        DirectiveType::Data(_, vals) if vals.len() == 1 => {
                            Some(vals[0].get().value() as u32)
                        }
                        _ => None,
                    },
                    _ => None,
                };
                if got != Some(want) {
                    acc.violation(
                        format!("C17|wrong-value|{ctx:?}|{}", shape(lit)),
                        case,
                        witness("literal read as a different number", json!({"got": got, "want": want})),
                    );
                    return;
                }
                if matches!(ctx, Ctx::Li | Ctx::Lui) {
                    // the resulting Constant fact
                    if let Ok(cfg) = &run.cfg {
                        let fact = cfg
                            .nodes()
                            .iter()
                            .find(|n| matches!(n.node(), ParserNode::IArith(ref x) if x.rd.get() == &Register::X5))
                            .and_then(|n| n.reg_values_out().get(&Register::X5).cloned());
                        if fact != Some(AvailableValue::Constant(want as i32)) {
                            acc.violation(
                                format!("C17|wrong-fact|{ctx:?}|{}", shape(lit)),
                                case,
                                witness("constant fact differs from the literal", json!(format!("{fact:?}"))),
                            );
                            return;
                        }
                        acc.count("facts_checked", 1);
                    }
                }
                acc.outcome(&format!("accepted:{ctx:?}:{}", lit.kind), case);
            }
            None => {
                // must be rejected with a parse error located on the literal
                if errs_on_lit.is_empty() {
                    let got = match node {
                        Some(ParserNode::IArith(x)) => Some(x.imm.get().value() as i64),
                        Some(ParserNode::Csr(x)) => Some(x.csr.get().value() as i64),
                        _ => None,
                    };
                    acc.violation(
                        format!("C17|accepted-invalid|{ctx:?}|{}", shape(lit)),
                        case,
                        witness("a malformed or out-of-range literal was accepted", json!({"read_as": got})),
                    );
                    return;
                }
                if !errs_on_lit.iter().any(|d| d.start_raw == off) {
                    acc.violation(
                        format!("C17|error-not-on-literal|{ctx:?}|{}", shape(lit)),
                        case,
                        witness(
                            "the parse error does not start at the literal",
                            json!({"literal_offset": off, "errors": errs_on_lit.iter().map(|d| (d.title.clone(), d.start_raw)).collect::<Vec<_>>()}),
                        ),
                    );
                    return;
                }
                acc.outcome(&format!("rejected:{ctx:?}:{}", lit.kind), case);
            }
        }
    }
}

impl Property for C17 {
    fn id(&self) -> &'static str {
        "C17"
    }
    fn cases(&self, _tier: Tier) -> u64 {
        (self.lits.len() * CTXS.len()) as u64
    }
    fn chunk(&self, _tier: Tier) -> u64 {
        1500
    }
    fn profiles(&self, _tier: Tier) -> Vec<&'static str> {
        vec!["release", "checked"]
    }
    fn run_case(&self, _tier: Tier, case: u64, acc: &mut Acc) {
        acc.count("cases", 1);
        let lit = &self.lits[case as usize / CTXS.len()];
        let ctx = CTXS[case as usize % CTXS.len()];
        if case % 3001 == 0 {
            acc.sample(json!({"literal": lit.spelling, "context": format!("{ctx:?}"), "value": lit.value.map(|v| v.to_string())}));
        }
        if lit.kind != "dec" && lit.kind != "small" {
            acc.count("nontrivial", 1);
        }
        self.run_one(case, lit, ctx, acc);
    }
    fn replay(&self, w: &Value, acc: &mut Acc) {
        let sp = w["literal"].as_str().unwrap_or("");
        let ctx = match w["context"].as_str().unwrap_or("") {
            "Li" => Ctx::Li,
            "Lui" => Ctx::Lui,
            "Word" => Ctx::Word,
            _ => Ctx::Csr,
        };
        if let Some(l) = self.lits.iter().find(|l| l.spelling == sp) {
            self.run_one(0, l, ctx, acc);
        }
    }
    fn info(&self, _tier: Tier) -> Info {
        Info {
            rule: "all boundary values (0, 2^k, 2^k+-1 for k<=33, bit patterns) x {dec, 0x/0X with either digit case and 0/1/4 leading zeros, 0b/0B} x sign, all printable ASCII character literals and escapes, 34 malformed spellings; each in li / lui / .word / csrr through lexer+parser (+ the Constant fact for li/lui), in release and overflow-checked builds. Non-trivial = literal that is not a plain decimal".into(),
            bounds: json!({"literals": self.lits.len(), "contexts": 4, "quick_equals_thorough": true}),
            assumptions: vec![
                "literal semantics: optional '-', then decimal / 0x / 0b digits; fits iff -2^31 <= v <= 2^32-1; denoted word = v mod 2^32".into(),
                "decimal spellings with leading zeros are excluded (octal in GNU as, decimal here: not decided by the statement); lui with a negative operand and CSR numbers above 4095 get no verdict".into(),
            ],
            states_counter: "cases",
            transitions_counter: "traces",
            traces_counter: "traces",
            nontrivial_counter: "nontrivial",
            exhaustive: true,
        }
    }
}
