//! C15 — `.include` behaves as textual inclusion with per-file locations.
//!
//! Space: programs x all ways of cutting them at (selected) line boundaries
//! into include trees of <= 3/4 files and depth <= 3, x reader answers with
//! <= 1/2 faults; the same trees on disk through the CLI.
//! Oracle: the flattener (textual inclusion with a (file, line) <-> flat line map).

use crate::c09;
use crate::cli;
use crate::driver::*;
use crate::imp::{self, Answer, Diag, MemReader, FAULTS};
use crate::loc::Locator;
use crate::pool::Pool;
use serde_json::{json, Value};
use std::time::Duration;

/// A tree of files cut from `lines`: node = (start, end) line range of the
/// original program, children are sub-ranges replaced by an include directive.
#[derive(Clone, Debug)]
pub struct Cut {
    pub ranges: Vec<(usize, usize, usize)>, // (start, end, parent index in `ranges`; usize::MAX = root's child)
}

pub struct Tree {
    pub files: Vec<(String, String)>,
    /// for file i: for each of its lines, Some(original line) or None (an include directive)
    pub line_map: Vec<Vec<Option<usize>>>,
    /// for file i: line of the include directive in its parent and the parent
    pub included_at: Vec<Option<(usize, usize)>>,
    /// original line range covered by file i
    pub covers: Vec<(usize, usize)>,
}

/// Build the files of a cut. File 0 is the base; file k+1 holds ranges[k].
pub fn build_tree(lines: &[String], cut: &Cut) -> Tree {
    let n = cut.ranges.len() + 1;
    let mut covers = vec![(0usize, lines.len())];
    for r in &cut.ranges {
        covers.push((r.0, r.1));
    }
    let parent_of = |k: usize| -> usize {
        let p = cut.ranges[k].2;
        if p == usize::MAX {
            0
        } else {
            p + 1
        }
    };
    let mut files = Vec::new();
    let mut line_map = Vec::new();
    let mut included_at = vec![None; n];
    for f in 0..n {
        let (s, e) = covers[f];
        // direct children of f, by start
        let mut kids: Vec<usize> = (0..cut.ranges.len()).filter(|k| parent_of(*k) == f).collect();
        kids.sort_by_key(|k| cut.ranges[*k].0);
        let mut text = String::new();
        let mut map = Vec::new();
        let mut l = s;
        let mut ki = 0;
        while l < e {
            if ki < kids.len() && cut.ranges[kids[ki]].0 == l {
                let k = kids[ki];
                included_at[k + 1] = Some((f, map.len()));
                text.push_str(&format!("    .include \"f{}.s\"\n", k + 1));
                map.push(None);
                l = cut.ranges[k].1;
                ki += 1;
            } else {
                text.push_str(&lines[l]);
                text.push('\n');
                map.push(Some(l));
                l += 1;
            }
        }
        files.push((if f == 0 { "base.s".to_string() } else { format!("f{f}.s") }, text));
        line_map.push(map);
    }
    Tree {
        files,
        line_map,
        included_at,
        covers,
    }
}

/// all cuts with up to `max_children` ranges over the candidate boundaries
pub fn cuts(boundaries: &[usize], max_children: usize) -> Vec<Cut> {
    let mut ranges = Vec::new();
    for i in 0..boundaries.len() {
        for j in (i + 1)..boundaries.len() {
            ranges.push((boundaries[i], boundaries[j]));
        }
    }
    let nested = |a: (usize, usize), b: (usize, usize)| a.0 <= b.0 && b.1 <= a.1 && a != b; // b inside a
    let disjoint = |a: (usize, usize), b: (usize, usize)| a.1 <= b.0 || b.1 <= a.0;
    let mut out = vec![Cut { ranges: vec![] }];
    // one child
    for r in &ranges {
        out.push(Cut { ranges: vec![(r.0, r.1, usize::MAX)] });
    }
    if max_children >= 2 {
        for (i, a) in ranges.iter().enumerate() {
            for b in ranges.iter().skip(i + 1) {
                if disjoint(*a, *b) {
                    out.push(Cut { ranges: vec![(a.0, a.1, usize::MAX), (b.0, b.1, usize::MAX)] });
                } else if nested(*a, *b) {
                    out.push(Cut { ranges: vec![(a.0, a.1, usize::MAX), (b.0, b.1, 0)] });
                } else if nested(*b, *a) {
                    out.push(Cut { ranges: vec![(b.0, b.1, usize::MAX), (a.0, a.1, 0)] });
                }
            }
        }
    }
    if max_children >= 3 {
        // chains of depth 3 and a parent with two children
        for a in &ranges {
            for b in &ranges {
                if !nested(*a, *b) {
                    continue;
                }
                for c in &ranges {
                    if nested(*b, *c) {
                        out.push(Cut { ranges: vec![(a.0, a.1, usize::MAX), (b.0, b.1, 0), (c.0, c.1, 1)] });
                    } else if nested(*a, *c) && disjoint(*b, *c) && b.0 < c.0 {
                        out.push(Cut { ranges: vec![(a.0, a.1, usize::MAX), (b.0, b.1, 0), (c.0, c.1, 0)] });
                    }
                }
            }
        }
    }
    out
}


// ---------------------------------------------------------------------------------------
// Include *graphs*: three files whose include slots name any of the three files, so that a
// file is included several times (siblings, diamond) or cyclically (self, 2- and 3-cycles).
// The reference is textual inclusion with one rule for cycles: a directive naming a file
// that is still open is refused with an error on the directive and contributes no text.

pub const GRAPH_FILES: [&str; 3] = ["base.s", "a.s", "b.s"];
/// (first line(s), line between the two slots, last line(s)) of each file
const GRAPH_BODIES: [(&[&str], &str, &[&str]); 3] = [
    (&["main:", "    li t0, 1"], "    addi zero, t0, 1", &["    li a7, 10", "    ecall"]),
    (&["    addi t1, t0, 2"], "    add t2, t2", &["    addi t0, t0, 4"]),
    (&["    addi zero, t0, 3"], "    lw t3, t0", &["    li t4, 5"]),
];
/// number of graphs: each of the 3 files has 2 slots, each empty or naming one of 3 files
pub const N_GRAPHS: u64 = 4096;

pub fn graph_files(g: u64) -> Vec<(String, String)> {
    let mut g = g;
    let mut out = Vec::new();
    for f in 0..3 {
        let (head, mid, tail) = GRAPH_BODIES[f];
        let mut text = String::new();
        for l in head {
            text.push_str(l);
            text.push('\n');
        }
        for slot in 0..2 {
            let t = (g % 4) as usize;
            g /= 4;
            if t > 0 {
                text.push_str(&format!("    .include \"{}\"\n", GRAPH_FILES[t - 1]));
            }
            if slot == 0 {
                text.push_str(mid);
                text.push('\n');
            }
        }
        for l in tail {
            text.push_str(l);
            text.push('\n');
        }
        out.push((GRAPH_FILES[f].to_string(), text));
    }
    out
}

#[derive(Default)]
pub struct Flat {
    pub text: String,
    /// flat line -> (file, line)
    pub map: Vec<(usize, usize)>,
    /// refused directives in reading order: (file, line, refused because the file is open)
    pub refused: Vec<(usize, usize, bool)>,
    pub requests: usize,
}

fn include_target(line: &str) -> Option<&str> {
    let t = line.trim();
    let rest = t.strip_prefix(".include")?.trim();
    rest.strip_prefix('"')?.strip_suffix('"')
}

/// Textual inclusion. `answers[k]` is the reader's answer to the k-th request (0 = base file).
pub fn flatten(files: &[(String, String)], f: usize, open: &mut Vec<usize>, answers: &[Answer], out: &mut Flat) {
    for (li, line) in files[f].1.lines().enumerate() {
        let Some(target) = include_target(line) else {
            out.text.push_str(line);
            out.text.push('\n');
            out.map.push((f, li));
            continue;
        };
        let k = out.requests;
        out.requests += 1;
        if answers.get(k).copied().unwrap_or(Answer::Ok) != Answer::Ok {
            out.refused.push((f, li, false));
            continue;
        }
        match files.iter().position(|(n, _)| n == target) {
            None => out.refused.push((f, li, false)),
            Some(g) if open.contains(&g) => out.refused.push((f, li, true)),
            Some(g) => {
                open.push(g);
                flatten(files, g, open, answers, out);
                open.pop();
            }
        }
    }
}

const INCLUDE_ERRORS: [&str; 4] = ["parse-file-not-found", "parse-io-error", "parse-cyclic-dependency", "parse-unexpected-error"];

type GSig = Vec<(String, usize, usize, String)>; // (code, file, line, designated text)

pub struct C15 {
    quick: Pool,
    thorough: Pool,
    extra: Vec<String>,
}

type Sig = Vec<(String, usize, String)>; // (code, original line, designated text)

impl C15 {
    pub fn new() -> C15 {
        // programs with parse errors in them
        let suts = c09::suts();
        let mut extra = Vec::new();
        for (i, _) in suts.iter().enumerate() {
            let l = c09::Layout {
                sut: i,
                position: 2,
                indent: 2,
                trail: 0,
                company: c09::Company::Alone,
                ending: c09::Ending::Lf,
                included: false,
            };
            extra.push(c09::build(&l, &suts).text);
        }
        // statements that extend over several lines (a value list with continuation lines, a
        // macro region), short enough that every line boundary is a cut candidate
        extra.push(".data\nt: .word 1, 2\n    3, 4\n.text\n    ecall\n".into());
        extra.push("    .macro inc\n    addi t0, t0, 1\n    .end_macro\n    li a7, 10\n    ecall\n".into());
        C15 {
            quick: Pool::new(1951),
            thorough: Pool::new(1201),
            extra,
        }
    }
    fn pool(&self, tier: Tier) -> &Pool {
        tier.pick(&self.quick, &self.thorough)
    }
    fn program(&self, tier: Tier, case: u64) -> Option<(String, String)> {
        let n = self.extra.len() as u64;
        if case < n {
            return Some((format!("statement-{case}"), self.extra[case as usize].clone()));
        }
        let (p, tag) = self.pool(tier).get(case - n)?;
        Some((tag, p.text()))
    }

    /// line ranges (first, last) of the statements that extend over several lines: a data
    /// directive with continuation lines, a macro region (to its end directive or the end of the text)
    pub fn multi_line_statements(lines: &[String]) -> Vec<(usize, usize)> {
        let mut v = Vec::new();
        let mut i = 0;
        while i < lines.len() {
            let words: Vec<&str> = lines[i].split_whitespace().collect();
            let dir = words.iter().find(|w| w.starts_with('.')).copied().unwrap_or("");
            if dir == ".macro" {
                let mut j = i + 1;
                while j < lines.len() && !lines[j].split_whitespace().any(|w| w == ".end_macro" || w == ".endmacro") {
                    j += 1;
                }
                v.push((i, j.min(lines.len() - 1)));
                i = j + 1;
                continue;
            }
            if matches!(dir, ".word" | ".byte" | ".half" | ".dword" | ".float" | ".double") {
                let mut j = i;
                while j + 1 < lines.len() {
                    let t = lines[j + 1].trim_start();
                    let continues = t.is_empty() || t.starts_with('#') || t.starts_with(|c: char| c.is_ascii_digit() || c == '-' || c == '\'');
                    if !continues {
                        break;
                    }
                    j += 1;
                }
                // trailing blank / comment lines are not part of the statement
                while j > i && { let t = lines[j].trim_start(); t.is_empty() || t.starts_with('#') } {
                    j -= 1;
                }
                if j > i {
                    v.push((i, j));
                }
                i = j + 1;
                continue;
            }
            i += 1;
        }
        v
    }

    fn sig_single(text: &str) -> Option<Sig> {
        let run = imp::analyze(MemReader::single(text), "base.s", &[]).ok()?;
        let loc = Locator::new(text);
        let mut v: Sig = run
            .diags
            .iter()
            .map(|d| {
                let line = if d.file < 0 { usize::MAX } else { loc.line_of(d.start_raw.min(loc.len().saturating_sub(1))) };
                (d.code.clone(), line, loc.slice(d.start_raw, d.end_raw))
            })
            .collect();
        v.sort();
        Some(v)
    }


    /// An included file that is a symbolic link (a shared library file linked into the
    /// project): its own relative includes are found next to the link, where the program
    /// names it, and its diagnostics are shown under that name.
    fn run_symlink_case(case: u64, acc: &mut Acc) {
        acc.count("symlink_cases", 1);
        if crate::profile() != "release" {
            return;
        }
        let c = cli::CliCase {
            name: "include-through-a-symbolic-link".into(),
            entries: vec![
                cli::Entry::File("proj/main.s".into(), b"main:\n    li a0, 3\n    jal twice\n    li a7, 1\n    ecall\n    li a7, 10\n    ecall\n    .include \"lib/util.s\"\n".to_vec()),
                cli::Entry::File("shared/util.s".into(), b"twice:\n    add zero, a0, a0\n    .include \"config.s\"\n".to_vec()),
                cli::Entry::Link("proj/lib/util.s".into(), "../../shared/util.s".into()),
                cli::Entry::File("proj/lib/config.s".into(), b"    slli a0, a0, 1\n    ret\n".to_vec()),
            ],
            base: "proj/main.s".into(),
        };
        let dir = cli::materialize(&c);
        let out = cli::run_rva("release", &dir, "proj/main.s", &["--compact", "--no-color", "--all-files"], &[("RVA_VERIF_SCHEDULE", String::new())], Duration::from_secs(10));
        let _ = std::fs::remove_dir_all(&dir);
        let Ok(o) = out else { return };
        acc.count("cli_runs", 1);
        acc.count("traces", 1);
        let items: Vec<&str> = o.stdout.lines().filter(|l| l.starts_with("Error:") || l.starts_with("Warning:")).collect();
        // the pasted program draws its items on the write to the zero register in util.s
        let ok = !items.is_empty() && items.iter().all(|l| l.contains("proj/lib/util.s") && l.contains(" at 2 ")) && !o.stdout.contains("IO Error");
        if !ok {
            acc.violation(
                "C15|include-through-a-symbolic-link",
                case,
                json!({"case": case, "symlink_case": true, "files": {"proj/main.s": "... .include \"lib/util.s\"", "proj/lib/util.s": "-> ../../shared/util.s", "shared/util.s": "twice: / add zero, a0, a0 / .include \"config.s\"", "proj/lib/config.s": "slli a0, a0, 1 / ret"},
                       "stdout": o.stdout, "expected": "items only on line 2 of proj/lib/util.s (the write to the zero register), no IO error"}),
            );
            return;
        }
        acc.outcome("symbolic-link", case);
        // a linked directory: `..` inside it leads to the parent of the link's target, as the
        // operating system resolves it (not to the directory the link stands in)
        let c = cli::CliCase {
            name: "include-below-a-linked-directory".into(),
            entries: vec![
                cli::Entry::File("proj/main.s".into(), b"main:\n    li a0, 3\n    jal twice\n    li a7, 1\n    ecall\n    li a7, 10\n    ecall\n    .include \"lib/mathlib.s\"\n".to_vec()),
                cli::Entry::File("shared/lib/mathlib.s".into(), b"twice:\n    add zero, a0, a0\n    .include \"../common.s\"\n".to_vec()),
                cli::Entry::File("shared/common.s".into(), b"    slli a0, a0, 1\n    ret\n".to_vec()),
                cli::Entry::Link("proj/lib".into(), "../shared/lib".into()),
            ],
            base: "proj/main.s".into(),
        };
        let dir = cli::materialize(&c);
        let out = cli::run_rva("release", &dir, "proj/main.s", &["--compact", "--no-color", "--all-files"], &[("RVA_VERIF_SCHEDULE", String::new())], Duration::from_secs(10));
        let _ = std::fs::remove_dir_all(&dir);
        let Ok(o) = out else { return };
        acc.count("cli_runs", 1);
        let items: Vec<&str> = o.stdout.lines().filter(|l| l.starts_with("Error:") || l.starts_with("Warning:")).collect();
        let ok = !items.is_empty() && items.iter().all(|l| l.contains("lib/mathlib.s") && l.contains(" at 2 ")) && !o.stdout.contains("IO Error");
        if !ok {
            acc.violation(
                "C15|include-below-a-linked-directory",
                case,
                json!({"case": case, "symlink_case": true, "files": {"proj/main.s": "... .include \"lib/mathlib.s\"", "proj/lib": "-> ../shared/lib", "shared/lib/mathlib.s": "twice: / add zero, a0, a0 / .include \"../common.s\"", "shared/common.s": "slli a0, a0, 1 / ret"},
                       "stdout": o.stdout, "expected": "items only on line 2 of lib/mathlib.s, no IO error"}),
            );
            return;
        }
        acc.outcome("linked-directory", case);
    }

    /// one include graph: no faults, then every answer sequence with one fault (thorough: two)
    fn run_graph(&self, tier: Tier, case: u64, g: u64, acc: &mut Acc) {
        let files = graph_files(g);
        let locs: Vec<Locator> = files.iter().map(|f| Locator::new(&f.1)).collect();
        let witness = |what: &str, answers: &[Answer], detail: Value| json!({"case": case, "tier": tier.name(), "kind": "include-graph", "graph": g, "files": files, "answers": format!("{answers:?}"), "what": what, "detail": detail});
        // number of requests of the fault-free expansion bounds the fault positions
        let mut plain = Flat::default();
        plain.requests = 1;
        flatten(&files, 0, &mut vec![0], &[], &mut plain);
        let mut seqs: Vec<Vec<Answer>> = vec![vec![]];
        if tier == Tier::Thorough || g % 4 == 0 {
            for i in 1..plain.requests {
                for fa in FAULTS {
                    let mut a = vec![Answer::Ok; i];
                    a.push(fa);
                    seqs.push(a);
                }
            }
        }
        if tier == Tier::Thorough && g % 8 == 0 {
            for i in 1..plain.requests {
                for j in (i + 1)..(plain.requests + 2) {
                    for fb in [Answer::IOErr, Answer::FileAlreadyRead] {
                        let mut a = vec![Answer::Ok; j + 1];
                        a[i] = Answer::IOErr;
                        a[j] = fb;
                        seqs.push(a);
                    }
                }
            }
        }
        acc.count("trees", 1);
        let repeated = plain.map.iter().filter(|(f, l)| *f == 1 && *l == 0).count() > 1 || plain.map.iter().filter(|(f, l)| *f == 2 && *l == 0).count() > 1;
        let cyclic = plain.refused.iter().any(|r| r.2);
        if repeated || cyclic {
            acc.count("nontrivial", 1);
        }
        if repeated {
            acc.count("graphs_with_a_file_included_twice", 1);
        }
        if cyclic {
            acc.count("graphs_with_a_cycle", 1);
        }
        for ans in seqs {
            let mut flat = Flat::default();
            flat.requests = 1;
            flatten(&files, 0, &mut vec![0], &ans, &mut flat);
            // expected: the diagnostics of the pasted text, mapped back to (file, line)
            let Ok(single) = imp::analyze(MemReader::single(&flat.text), "base.s", &[]) else {
                acc.count("analysis_panicked", 1);
                continue;
            };
            let floc = Locator::new(&flat.text);
            let mut want: GSig = Vec::new();
            for d in &single.diags {
                if d.file < 0 || flat.text.is_empty() {
                    want.push((d.code.clone(), usize::MAX, usize::MAX, String::new()));
                    continue;
                }
                let fl = floc.line_of(d.start_raw.min(floc.len().saturating_sub(1)));
                let (f, l) = flat.map.get(fl).copied().unwrap_or((usize::MAX, usize::MAX));
                want.push((d.code.clone(), f, l, floc.slice(d.start_raw, d.end_raw)));
            }
            want.sort();
            let mut reader = MemReader::new(files.clone());
            reader.answers = ans.clone();
            reader.import_limit = 64;
            let run = match imp::analyze(reader, "base.s", &[]) {
                Ok(r) => r,
                Err(p) => {
                    acc.violation(format!("C15|graph|panic|{}", p.0.chars().take(40).collect::<String>()), case, witness("panic", &ans, json!(p.0)));
                    return;
                }
            };
            acc.count("traces", 1);
            if !ans.is_empty() {
                acc.count("fault_histories", 1);
            }
            let mut got: GSig = Vec::new();
            let mut got_refused: Vec<(usize, usize, bool)> = Vec::new();
            for d in &run.diags {
                if d.file < 0 {
                    got.push((d.code.clone(), usize::MAX, usize::MAX, String::new()));
                    continue;
                }
                let f = d.file as usize;
                if d.start_raw >= locs[f].len() || d.end_raw >= locs[f].len() {
                    acc.violation("C15|graph|location-outside-its-file", case, witness("a diagnostic is attributed to a file that does not contain its position", &ans, json!(d)));
                    return;
                }
                let l = locs[f].line_of(d.start_raw);
                if INCLUDE_ERRORS.contains(&d.code.as_str()) {
                    got_refused.push((f, l, d.code == "parse-cyclic-dependency"));
                } else {
                    got.push((d.code.clone(), f, l, locs[f].slice(d.start_raw, d.end_raw)));
                }
            }
            got.sort();
            // refused imports: one error each, on the directive; a file that is still open is a
            // cyclic dependency, a reader fault may be reported with any of the include errors
            let mut want_refused = flat.refused.clone();
            want_refused.sort();
            got_refused.sort();
            let same_places = want_refused.iter().map(|r| (r.0, r.1)).collect::<Vec<_>>() == got_refused.iter().map(|r| (r.0, r.1)).collect::<Vec<_>>();
            let cyclic_named = want_refused.iter().filter(|r| r.2).all(|r| got_refused.contains(r));
            if !same_places || !cyclic_named {
                let shape = if got_refused.len() > want_refused.len() {
                    "an-include-is-refused-without-reason"
                } else if got_refused.len() < want_refused.len() {
                    "a-refused-include-draws-no-error"
                } else if !same_places {
                    "error-on-another-line"
                } else {
                    "cycle-not-named"
                };
                acc.violation(
                    format!("C15|graph|include-errors|{shape}|{}", if cyclic { "cyclic" } else if repeated { "repeated" } else { "plain" }),
                    case,
                    witness("the include errors are not exactly one per refused directive, on the directive", &ans, json!({"expected (file, line, cyclic)": want_refused, "reported": got_refused, "diagnostics": run.diags})),
                );
                return;
            }
            if got != want {
                let missing: Vec<_> = want.iter().filter(|x| !got.contains(x)).collect();
                let extra: Vec<_> = got.iter().filter(|x| !want.contains(x)).collect();
                let first = missing.first().map(|m| format!("lost:{}", m.0)).or(extra.first().map(|e| format!("new:{}", e.0))).unwrap_or("multiplicity".into());
                acc.violation(
                    format!("C15|graph|differs-from-pasted-file|{first}|{}", if cyclic { "cyclic" } else if repeated { "repeated" } else { "plain" }),
                    case,
                    witness("diagnostics of the include graph differ from those of the pasted text", &ans, json!({"pasted": flat.text, "missing": missing, "extra": extra})),
                );
                return;
            }
        }
        // the CLI on the same graph (every 64th): same items with --all-files
        if crate::profile() == "release" && g % 64 == 1 {
            let mut flat = Flat::default();
            flat.requests = 1;
            flatten(&files, 0, &mut vec![0], &[], &mut flat);
            let mut reader = MemReader::new(files.clone());
            reader.import_limit = 64;
            if let Ok(run) = imp::analyze(reader, "base.s", &[]) {
                let c = cli::CliCase {
                    name: "c15g".into(),
                    entries: files.iter().map(|(n, t)| cli::Entry::File(n.clone(), t.as_bytes().to_vec())).collect(),
                    base: "base.s".into(),
                };
                let dir = cli::materialize(&c);
                if let Ok(o) = cli::run_rva("release", &dir, "base.s", &["--compact", "--no-color", "--all-files"], &[("RVA_VERIF_SCHEDULE", String::new())], Duration::from_secs(10)) {
                    acc.count("cli_runs", 1);
                    let item_lines = o.stdout.lines().filter(|l| l.starts_with("Error:") || l.starts_with("Warning:") || l.starts_with("Info:") || l.starts_with("Hint:")).count();
                    if item_lines != run.diags.len() {
                        acc.violation(
                            "C15|graph|cli-differs-from-library",
                            case,
                            witness("the binary reports another number of items than the library for the same files", &[], json!({"stdout": o.stdout, "library": run.diags})),
                        );
                    }
                }
                let _ = std::fs::remove_dir_all(dir);
            }
        }
        acc.outcome(if cyclic { "graph:cyclic" } else if repeated { "graph:repeated-file" } else { "graph:tree" }, case);
    }

    /// signature of a tree run, mapped back to original lines; also checks per-file attribution
    fn sig_tree(tree: &Tree, diags: &[Diag]) -> Result<Sig, String> {
        let locs: Vec<Locator> = tree.files.iter().map(|f| Locator::new(&f.1)).collect();
        let mut v = Sig::new();
        for d in diags {
            if d.file < 0 {
                v.push((d.code.clone(), usize::MAX, String::new()));
                continue;
            }
            let f = d.file as usize;
            let loc = &locs[f];
            if d.start_raw >= loc.len() || d.end_raw >= loc.len() {
                return Err(format!("{}: location outside file {}", d.code, tree.files[f].0));
            }
            let line = loc.line_of(d.start_raw);
            let orig = match tree.line_map[f].get(line).copied().flatten() {
                Some(o) => o,
                None => {
                    // on an include directive line
                    v.push((d.code.clone(), usize::MAX - 1 - f, loc.slice(d.start_raw, d.end_raw)));
                    continue;
                }
            };
            v.push((d.code.clone(), orig, loc.slice(d.start_raw, d.end_raw)));
        }
        v.sort();
        Ok(v)
    }
}

impl Property for C15 {
    fn id(&self) -> &'static str {
        "C15"
    }
    fn cases(&self, tier: Tier) -> u64 {
        self.extra.len() as u64 + self.pool(tier).count() + N_GRAPHS + 1
    }
    fn chunk(&self, _tier: Tier) -> u64 {
        4
    }
    /// one case of the thorough tier analyses some thousand trees and answer sequences
    fn hang_secs(&self, tier: Tier) -> u64 {
        tier.pick(20, 600)
    }
    fn run_case(&self, tier: Tier, case: u64, acc: &mut Acc) {
        acc.count("cases", 1);
        let n_programs = self.extra.len() as u64 + self.pool(tier).count();
        if case >= n_programs + N_GRAPHS {
            Self::run_symlink_case(case, acc);
            return;
        }
        if case >= n_programs {
            self.run_graph(tier, case, case - n_programs, acc);
            return;
        }
        let Some((tag, text)) = self.program(tier, case) else {
            acc.count("not_a_member", 1);
            return;
        };
        let lines: Vec<String> = text.lines().map(|l| l.to_string()).collect();
        let Some(flat_sig) = Self::sig_single(&text) else {
            acc.count("analysis_panicked", 1);
            return;
        };
        acc.count("programs", 1);
        // candidate boundaries: all for short programs, 7 evenly spaced otherwise
        let l = lines.len();
        let nb = tier.pick(4, 5);
        let mut boundaries: Vec<usize> = if l <= nb + 1 { (0..=l).collect() } else { (0..=nb).map(|k| k * l / nb).collect() };
        boundaries.dedup();
        let all_cuts = cuts(&boundaries, tier.pick(2, 3));
        let witness = |tree: &Tree, what: &str, detail: Value| json!({"case": case, "tier": tier.name(), "kind": tag, "files": tree.files, "pasted": text, "what": what, "detail": detail});
        let multi = Self::multi_line_statements(&lines);
        for (ci, cut) in all_cuts.iter().enumerate() {
            let tree = build_tree(&lines, cut);
            acc.count("trees", 1);
            // does a file boundary fall inside a statement that extends over several lines?
            let splits = cut.ranges.iter().any(|r| [r.0, r.1].iter().any(|b| multi.iter().any(|(f, l)| f < b && b <= l)));
            if splits {
                acc.count("trees_that_split_a_statement", 1);
            }
            if tree.files.len() >= 2 {
                acc.count("nontrivial", 1);
            }
            // ---- no faults: same diagnostics as the pasted file, attributed to the right file
            let mut reader = MemReader::new(tree.files.clone());
            reader.import_limit = 64;
            let run = match imp::analyze(reader, "base.s", &[]) {
                Ok(r) => r,
                Err(p) => {
                    acc.violation(format!("C15|panic|{}", p.0.chars().take(40).collect::<String>()), case, witness(&tree, "panic", json!(p.0)));
                    return;
                }
            };
            acc.count("traces", 1);
            match Self::sig_tree(&tree, &run.diags) {
                Ok(s) => {
                    if s != flat_sig && splits {
                        acc.violation(
                            "C15|differs-from-pasted-file|a-statement-continues-across-the-include-boundary",
                            case,
                            witness(&tree, "a statement that extends over several lines is cut by the file boundary: the include tree is not analysed like the pasted file", json!({"pasted": flat_sig, "tree": s})),
                        );
                        continue;
                    }
                    if s != flat_sig {
                        let missing: Vec<_> = flat_sig.iter().filter(|x| !s.contains(x)).collect();
                        let extra: Vec<_> = s.iter().filter(|x| !flat_sig.contains(x)).collect();
                        let first = missing.first().map(|m| format!("lost:{}", m.0)).or(extra.first().map(|e| format!("new:{}", e.0))).unwrap_or("multiplicity".into());
                        acc.violation(
                            format!("C15|differs-from-pasted-file|{first}|{}-files", tree.files.len()),
                            case,
                            witness(&tree, "diagnostics of the include tree differ from those of the pasted file", json!({"missing": missing, "extra": extra})),
                        );
                        return;
                    }
                }
                Err(e) => {
                    acc.violation("C15|location-outside-its-file", case, witness(&tree, "a diagnostic is attributed to a file that does not contain its position", json!(e)));
                    return;
                }
            }
            // ---- faults: every answer sequence with <= 1/2 faults over the imports of this tree
            let n_imports = tree.files.len(); // base + includes
            if n_imports >= 2 && !splits {
                let mut seqs: Vec<Vec<Answer>> = Vec::new();
                for i in 1..n_imports {
                    for fa in FAULTS {
                        let mut a = vec![Answer::Ok; i];
                        a.push(fa);
                        seqs.push(a);
                    }
                }
                if tier == Tier::Thorough && ci % 7 == 0 {
                    for i in 1..n_imports {
                        for j in (i + 1)..n_imports {
                            for fa in FAULTS {
                                for fb in [Answer::IOErr, Answer::InvalidPath] {
                                    let mut a = vec![Answer::Ok; j + 1];
                                    a[i] = fa;
                                    a[j] = fb;
                                    seqs.push(a);
                                }
                            }
                        }
                    }
                }
                for ans in seqs {
                    let mut reader = MemReader::new(tree.files.clone());
                    reader.answers = ans.clone();
                    reader.import_limit = 64;
                    let Ok(run) = imp::analyze(reader, "base.s", &[]) else {
                        acc.violation("C15|panic-under-reader-fault", case, witness(&tree, "panic", json!(format!("{ans:?}"))));
                        return;
                    };
                    acc.count("traces", 1);
                    acc.count("fault_histories", 1);
                    // which imports were refused? the k-th request (k>=1) is the k-th include in reading order
                    let refused: Vec<usize> = run
                        .diags
                        .iter()
                        .filter(|d| matches!(d.code.as_str(), "parse-file-not-found" | "parse-io-error" | "parse-cyclic-dependency" | "parse-unexpected-error"))
                        .map(|d| d.file as usize)
                        .collect();
                    let n_faults = ans.iter().filter(|a| **a != Answer::Ok).count();
                    // a fault on a request that is never made (its parent was refused) produces nothing
                    if refused.len() > n_faults || refused.is_empty() {
                        acc.violation(
                            format!("C15|fault-errors|{}-errors-for-{}-faults", refused.len(), n_faults),
                            case,
                            witness(&tree, "a refused import must yield exactly one error", json!({"answers": format!("{ans:?}"), "diagnostics": run.diags})),
                        );
                        return;
                    }
                    // each include error sits on an include directive line of the including file
                    let locs: Vec<Locator> = tree.files.iter().map(|f| Locator::new(&f.1)).collect();
                    let mut dropped: Vec<(usize, usize)> = Vec::new(); // original ranges not read
                    for d in run.diags.iter().filter(|d| matches!(d.code.as_str(), "parse-file-not-found" | "parse-io-error" | "parse-cyclic-dependency" | "parse-unexpected-error")) {
                        let f = d.file.max(0) as usize;
                        let line = locs[f].line_of(d.start_raw.min(locs[f].len().saturating_sub(1)));
                        let is_directive = tree.line_map[f].get(line).map(|x| x.is_none()).unwrap_or(false) && d.file >= 0;
                        if !is_directive {
                            acc.violation(
                                format!("C15|include-error-not-on-the-directive|{}", d.code),
                                case,
                                witness(&tree, "the error of a refused import is not located on its .include line", json!({"answers": format!("{ans:?}"), "diagnostic": d})),
                            );
                            return;
                        }
                        // which child is included there?
                        if let Some(k) = (1..tree.files.len()).find(|k| tree.included_at[*k] == Some((f, line))) {
                            dropped.push(tree.covers[k]);
                        }
                    }
                    // everything outside the refused subtrees is analysed as if the directive were deleted
                    let kept: Vec<usize> = (0..lines.len()).filter(|l| !dropped.iter().any(|(s, e)| l >= s && l < e)).collect();
                    let reduced: String = kept.iter().map(|l| format!("{}\n", lines[*l])).collect();
                    let Some(red_sig) = Self::sig_single(&reduced) else { continue };
                    // map reduced line numbers back to original lines
                    let red_sig: Sig = red_sig
                        .into_iter()
                        .map(|(c, l, t)| (c, if l == usize::MAX { l } else { kept.get(l).copied().unwrap_or(usize::MAX) }, t))
                        .collect();
                    let others: Vec<Diag> = run
                        .diags
                        .iter()
                        .filter(|d| !matches!(d.code.as_str(), "parse-file-not-found" | "parse-io-error" | "parse-cyclic-dependency" | "parse-unexpected-error"))
                        .cloned()
                        .collect();
                    match Self::sig_tree(&tree, &others) {
                        Ok(mut s) => {
                            s.sort();
                            let mut r = red_sig.clone();
                            r.sort();
                            if s != r {
                                let missing: Vec<_> = r.iter().filter(|x| !s.contains(x)).collect();
                                let extra: Vec<_> = s.iter().filter(|x| !r.contains(x)).collect();
                                let first = missing.first().map(|m| format!("lost:{}", m.0)).or(extra.first().map(|e| format!("new:{}", e.0))).unwrap_or("multiplicity".into());
                                acc.violation(
                                    format!("C15|fault-not-contained|{first}"),
                                    case,
                                    witness(&tree, "with a refused import the rest is not analysed like the program without that file", json!({"answers": format!("{ans:?}"), "missing": missing, "extra": extra, "program_without_the_file": reduced})),
                                );
                                return;
                            }
                        }
                        Err(e) => {
                            acc.violation("C15|location-outside-its-file", case, witness(&tree, "location outside file", json!(e)));
                            return;
                        }
                    }
                }
            }
            // ---- the same tree on disk through the CLI (a subset)
            if crate::profile() == "release" && tree.files.len() >= 2 && (ci % 23 == 0) {
                let c = cli::CliCase {
                    name: "c15".into(),
                    entries: tree.files.iter().map(|(n, t)| cli::Entry::File(n.clone(), t.as_bytes().to_vec())).collect(),
                    base: "base.s".into(),
                };
                let dir = cli::materialize(&c);
                let in_base = run.diags.iter().filter(|d| d.file == 0).count();
                let elsewhere = run.diags.len() - in_base;
                for (mode, all) in [(&["--compact", "--no-color"][..], false), (&["--compact", "--no-color", "--all-files"][..], true)] {
                    if let Ok(o) = cli::run_rva("release", &dir, "base.s", mode, &[("RVA_VERIF_SCHEDULE", String::new())], Duration::from_secs(10)) {
                        acc.count("cli_runs", 1);
                        let item_lines = o.stdout.lines().filter(|l| l.starts_with("Error:") || l.starts_with("Warning:") || l.starts_with("Info:") || l.starts_with("Hint:")).count();
                        let counter: Option<usize> = o
                            .stdout
                            .lines()
                            .find(|l| l.contains("found in other files"))
                            .and_then(|l| l.split_whitespace().next().and_then(|n| n.parse().ok()));
                        let (want_items, want_counter) = if all { (run.diags.len(), None) } else { (in_base, if elsewhere > 0 { Some(elsewhere) } else { None }) };
                        if item_lines != want_items || counter != want_counter {
                            acc.violation(
                                format!("C15|cli-file-selection|{}", if all { "all-files" } else { "default" }),
                                case,
                                witness(&tree, "the CLI does not show exactly the selected files' diagnostics / the right counter", json!({"flags": mode, "stdout": o.stdout, "expected_items": want_items, "expected_counter": want_counter})),
                            );
                            let _ = std::fs::remove_dir_all(&dir);
                            return;
                        }
                    }
                }
                let _ = std::fs::remove_dir_all(dir);
            }
        }
        if case % 53 == 0 {
            if let Some(c) = all_cuts.get(all_cuts.len() / 2) {
                acc.sample(json!({"case": case, "kind": tag, "files": build_tree(&lines, c).files, "cuts_explored": all_cuts.len()}));
            }
        }
        acc.outcome(&format!("textual-inclusion:{}", tag.split('-').next().unwrap_or("")), case);
    }
    fn show(&self, tier: Tier, case: u64) -> String {
        format!("{:?}", self.program(tier, case))
    }
    fn replay(&self, w: &Value, acc: &mut Acc) {
        if let Some(case) = w["case"].as_u64() {
            let tier = if w["tier"].as_str() == Some("thorough") { Tier::Thorough } else { Tier::Quick };
            if case < self.cases(tier) {
                self.run_case(tier, case, acc);
            }
        }
    }
    fn info(&self, tier: Tier) -> Info {
        Info {
            rule: "35 statement programs (incl. malformed statements and two with a statement over several lines) plus the program pool (every 1951st / 1201st member of the quick S family, clean and injected) x every cut at up to 5 / 6 line boundaries into an include tree of <= 3 / <= 4 files and depth <= 3 (siblings, nesting, chains): through the in-memory reader the diagnostics, mapped back through the flattener to (code, original line, designated text), must equal those of the pasted file and every item must lie inside the file it is attributed to; for every tree every reader-answer sequence with one fault (thorough: also two faults on every 7th tree) must give exactly one error per refused import, located on its .include line, and leave the rest analysed like the program without the refused file; every 23rd tree is written to disk and the rva binary must show exactly the base file's items plus the right 'other files' counter by default and everything with --all-files. Then all 4096 include graphs on {base.s, a.s, b.s} (a file included twice as sibling or diamond, self-inclusion, 2- and 3-cycles): textual inclusion where a directive naming a file that is still open is refused; the items must equal those of the pasted text mapped back to (file, line), one error per refused directive on the directive, a cycle named as such; every answer sequence with one fault (quick: every 4th graph; thorough: all, and two faults on every 8th). Non-trivial = trees with >= 2 files / graphs with a repeated or cyclic file".into(),
            bounds: json!({"programs": self.cases(tier), "max_files": tier.pick(3, 4), "boundaries_per_program": tier.pick(5, 7)}),
            assumptions: vec!["a tree cut from a program is acyclic and names every file once; repeated and cyclic inclusion is covered by the 4096 include graphs on three files (two include slots per file, each empty or naming any of the three files) compared with the flattener under the same fault sequences".into()],
            states_counter: "trees",
            transitions_counter: "traces",
            traces_counter: "traces",
            nontrivial_counter: "nontrivial",
            exhaustive: true,
        }
    }
}
