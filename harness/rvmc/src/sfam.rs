//! Family S: structured programs that follow the RISC-V calling convention by
//! construction (DESIGN 2.5), index-addressable, plus the dynamic convention
//! monitor that confirms every generated member on every explored input.

use crate::driver::Tier;
use crate::model::*;

#[derive(Clone, Copy, Debug, PartialEq, Eq)]
pub enum Skel {
    Straight,
    If,
    IfElse,
    Loop,
    LoopIf,
    TwoReturns,
}
pub const SKELS: [Skel; 6] = [
    Skel::Straight,
    Skel::If,
    Skel::Loop,
    Skel::TwoReturns,
    Skel::IfElse,
    Skel::LoopIf,
];

#[derive(Clone, Debug)]
pub struct FnPlan {
    pub name: String,
    pub arity: usize,
    pub returns: bool,
    pub skel: Skel,
    /// reads an integer from the environment (ecall 5)
    pub reads_input: bool,
    /// indices of the functions this one calls (one call site each)
    pub callees: Vec<usize>,
    /// calls itself (dedicated terminating template; arity 1, returns)
    pub recursive: bool,
    /// order of the frame slots / extra padding word
    pub frame_variant: usize,
    pub padding: bool,
    /// also keep a second saved register busy (s1/s11)
    pub extra_saved: Option<Reg>,
    /// keep a frame pointer in s10: 1 = `mv s10, sp` after the prologue and `mv sp, s10`
    /// before the epilogue; 2 = the classic fp, equal to the entry sp (`addi s10, sp, FRAME`
    /// ... `addi sp, s10, -FRAME`)
    pub frame_pointer: u8,
}

#[derive(Clone, Debug)]
pub struct SProgram {
    pub program: Program,
    pub fns: Vec<FnPlan>,
    pub main_calls: Vec<usize>,
}

impl SProgram {
    pub fn arity_of(&self, label: &str) -> Option<(usize, bool)> {
        self.fns
            .iter()
            .find(|f| f.name == label)
            .map(|f| (f.arity, f.returns))
    }
}

fn r3(op: ROp, rd: Reg, a: Reg, b: Reg) -> Stmt {
    inst(Inst::R(op, rd, a, b))
}
fn br(op: BOp, a: Reg, b: Reg, l: &str) -> Stmt {
    inst(Inst::Branch(op, a, b, l.to_string()))
}

const S11: Reg = 27;

/// Code of one function following its plan.
pub fn emit_function(fi: usize, plans: &[FnPlan]) -> Vec<Stmt> {
    let p = &plans[fi];
    let n = &p.name;
    let mut s: Vec<Stmt> = vec![label(n)];
    let has_calls = !p.callees.is_empty() || p.recursive;
    let has_ecall = p.reads_input || !p.returns;
    // the running value lives in a saved register when something clobbers temporaries
    let needs_saved = has_calls || has_ecall;
    let acc: Reg = if needs_saved { S0 } else { T0 };
    let loop_needed = matches!(p.skel, Skel::Loop | Skel::LoopIf) && !p.recursive;
    let counter: Reg = if needs_saved { S1 } else { T1 };
    // frame
    let mut slots: Vec<Reg> = Vec::new();
    if has_calls {
        slots.push(RA);
    }
    if needs_saved {
        slots.push(S0);
    }
    if loop_needed && needs_saved {
        slots.push(S1);
    }
    if let Some(x) = p.extra_saved {
        if !slots.contains(&x) {
            slots.push(x);
        }
    }
    const S10: Reg = 26;
    let fp = if p.recursive { 0 } else { p.frame_pointer };
    if fp > 0 {
        slots.push(S10);
    }
    if p.frame_variant == 1 {
        slots.reverse();
    }
    let frame = 4 * slots.len() as i32 + if p.padding && !slots.is_empty() { 4 } else { 0 };
    let off = |k: usize| -> i32 { 4 * k as i32 + if p.padding { 4 } else { 0 } };
    let prologue = |s: &mut Vec<Stmt>| {
        if frame > 0 {
            s.push(addi(SP, SP, -frame));
            for (k, r) in slots.iter().enumerate() {
                s.push(sw(*r, off(k), SP));
            }
            if fp == 1 {
                s.push(mv(S10, SP));
            } else if fp == 2 {
                s.push(addi(S10, SP, frame));
            }
        }
    };
    let epilogue = |s: &mut Vec<Stmt>| {
        if frame > 0 {
            if fp == 1 {
                s.push(mv(SP, S10));
            } else if fp == 2 {
                s.push(addi(SP, S10, -frame));
            }
            for (k, r) in slots.iter().enumerate() {
                s.push(lw(*r, off(k), SP));
            }
            s.push(addi(SP, SP, frame));
        }
    };
    let finish = |s: &mut Vec<Stmt>| {
        // consume the running value: return it, or print it
        if p.returns {
            s.push(mv(A0, acc));
        } else {
            s.push(mv(A0, acc));
            s.push(li(A7, 1));
            s.push(ecall());
        }
        if let Some(x) = p.extra_saved {
            let _ = x;
        }
        epilogue(s);
        s.push(ret());
    };
    prologue(&mut s);
    if p.recursive {
        // f(n) = n <= 0 ? n : n + f(n - 1)
        let base = format!("{n}_base");
        s.push(mv(S0, A0));
        s.push(br(BOp::Bge, ZERO, A0, &base));
        s.push(addi(A0, A0, -1));
        s.push(call(n));
        s.push(r3(ROp::Add, S0, S0, A0));
        s.push(label(&base));
        finish(&mut s);
        return s;
    }
    // initial value from the arguments (or, without arguments, from the input so
    // that both directions of every branch are feasible)
    let mut input_consumed = false;
    match p.arity {
        0 => {
            if p.reads_input {
                s.push(li(A7, 5));
                s.push(ecall());
                s.push(mv(acc, A0));
                input_consumed = true;
            } else {
                s.push(li(acc, 3 + fi as i32));
            }
        }
        1 => s.push(mv(acc, A0)),
        _ => s.push(r3(ROp::Add, acc, A0, A1)),
    }
    if let Some(x) = p.extra_saved {
        // a second saved register that is written and consumed
        s.push(mv(x, acc));
        s.push(r3(ROp::Add, acc, acc, x));
    }
    // the blocks of work
    let mut blocks: Vec<Vec<Stmt>> = Vec::new();
    for &g in &p.callees {
        let gp = &plans[g];
        let mut b = Vec::new();
        if gp.arity >= 1 {
            b.push(mv(A0, acc));
        }
        if gp.arity >= 2 {
            b.push(li(A1, 2));
        }
        b.push(call(&gp.name));
        if gp.returns {
            b.push(r3(ROp::Add, acc, acc, A0));
        }
        blocks.push(b);
    }
    if p.reads_input && !input_consumed {
        blocks.push(vec![li(A7, 5), ecall(), r3(ROp::Add, acc, acc, A0)]);
    }
    if blocks.is_empty() {
        blocks.push(vec![addi(acc, acc, 1)]);
    }
    let all: Vec<Stmt> = blocks.iter().flatten().cloned().collect();
    let first: Vec<Stmt> = blocks[0].clone();
    let rest: Vec<Stmt> = blocks.iter().skip(1).flatten().cloned().collect();
    let l1 = format!("{n}_a");
    let l2 = format!("{n}_b");
    match p.skel {
        Skel::Straight => s.extend(all),
        Skel::If => {
            s.push(br(BOp::Beq, acc, ZERO, &l1));
            s.extend(first);
            s.push(label(&l1));
            s.extend(rest);
        }
        Skel::IfElse => {
            s.push(br(BOp::Bne, acc, ZERO, &l1));
            s.extend(first);
            s.push(j(&l2));
            s.push(label(&l1));
            s.push(addi(acc, acc, 7));
            s.push(label(&l2));
            s.extend(rest);
        }
        Skel::Loop => {
            s.push(li(counter, 2));
            s.push(label(&l1));
            s.extend(all);
            s.push(addi(counter, counter, -1));
            s.push(br(BOp::Bne, counter, ZERO, &l1));
        }
        Skel::LoopIf => {
            s.push(li(counter, 2));
            s.push(label(&l1));
            s.push(br(BOp::Beq, acc, ZERO, &l2));
            s.extend(first);
            s.push(label(&l2));
            s.extend(rest);
            s.push(addi(counter, counter, -1));
            s.push(br(BOp::Bne, counter, ZERO, &l1));
        }
        Skel::TwoReturns => {
            s.push(br(BOp::Beq, acc, ZERO, &l1));
            s.extend(all);
            finish(&mut s);
            s.push(label(&l1));
        }
    }
    finish(&mut s);
    s
}

pub fn emit_main(calls: &[usize], plans: &[FnPlan], _arg: i32) -> Vec<Stmt> {
    let mut s = vec![label("main")];
    // the argument handed to the callees comes from the input, kept in s0 - or, in the
    // variant with a frame (taken when the first function keeps a second saved register
    // busy), in a stack slot of main
    let passes_args = calls.iter().any(|g| plans[*g].arity >= 1);
    let frame = passes_args && plans.first().map(|p| p.extra_saved.is_some()).unwrap_or(false);
    if frame {
        s.push(addi(SP, SP, -8));
    }
    if passes_args {
        s.push(li(A7, 5));
        s.push(ecall());
        if frame {
            s.push(sw(A0, 4, SP));
        } else {
            s.push(mv(S0, A0));
        }
    }
    for &g in calls.iter() {
        let gp = &plans[g];
        if gp.arity >= 1 {
            if frame {
                s.push(lw(A0, 4, SP));
            } else {
                s.push(mv(A0, S0));
            }
        }
        if gp.arity >= 2 {
            s.push(li(A1, 1));
        }
        s.push(call(&gp.name));
        if gp.returns {
            // print the result
            s.push(li(A7, 1));
            s.push(ecall());
        }
    }
    if frame {
        s.push(addi(SP, SP, 8));
    }
    s.push(li(A7, 10));
    s.push(ecall());
    s
}

// ------------------------------------------------------------------ the space

/// Per-function option vector: (arity, returns, skel, reads_input, frame_variant, padding, extra_saved)
#[derive(Clone, Debug)]
pub struct Opts {
    pub arities: Vec<usize>,
    pub skels: Vec<Skel>,
    pub frame_variants: usize,
    pub paddings: usize,
    pub extras: Vec<Option<Reg>>,
    pub frame_pointers: usize,
}

impl Opts {
    pub fn count(&self) -> u64 {
        (self.arities.len() * 2 * self.skels.len() * 2 * self.frame_variants * self.paddings * self.extras.len() * self.frame_pointers) as u64
    }
    pub fn get(&self, mut i: u64, name: String) -> FnPlan {
        let mut take = |n: usize| -> usize {
            let v = (i % n as u64) as usize;
            i /= n as u64;
            v
        };
        let arity = self.arities[take(self.arities.len())];
        let returns = take(2) == 1;
        let skel = self.skels[take(self.skels.len())];
        let reads_input = take(2) == 1;
        let frame_variant = take(self.frame_variants);
        let padding = take(self.paddings) == 1;
        let extra_saved = self.extras[take(self.extras.len())];
        let frame_pointer = take(self.frame_pointers) as u8;
        FnPlan {
            name,
            arity,
            returns,
            skel,
            reads_input,
            callees: vec![],
            recursive: false,
            frame_variant,
            padding,
            extra_saved,
            frame_pointer,
        }
    }
}

/// Call-graph shapes over `k` functions: (main's callees, per-function callees,
/// per-function recursive flag). All functions are reachable from main and the
/// call relation without the self-loops is acyclic.
pub fn shapes(k: usize) -> Vec<(Vec<usize>, Vec<Vec<usize>>, Vec<bool>)> {
    let mut v = Vec::new();
    match k {
        1 => {
            v.push((vec![0], vec![vec![]], vec![false]));
            v.push((vec![0, 0], vec![vec![]], vec![false]));
            v.push((vec![0], vec![vec![]], vec![true]));
        }
        2 => {
            v.push((vec![0, 1], vec![vec![], vec![]], vec![false, false]));
            v.push((vec![0], vec![vec![1], vec![]], vec![false, false]));
            v.push((vec![0, 1], vec![vec![1], vec![]], vec![false, false]));
            v.push((vec![0], vec![vec![1, 1], vec![]], vec![false, false]));
            v.push((vec![0], vec![vec![1], vec![]], vec![false, true]));
            v.push((vec![1, 0], vec![vec![], vec![]], vec![true, false]));
        }
        _ => {
            v.push((vec![0, 1, 2], vec![vec![], vec![], vec![]], vec![false, false, false]));
            v.push((vec![0], vec![vec![1], vec![2], vec![]], vec![false, false, false]));
            v.push((vec![0], vec![vec![1, 2], vec![], vec![]], vec![false, false, false]));
            v.push((vec![0, 2], vec![vec![1], vec![2], vec![]], vec![false, false, false]));
            v.push((vec![0], vec![vec![1], vec![2], vec![]], vec![false, false, true]));
            v.push((vec![0, 1], vec![vec![2], vec![2], vec![]], vec![false, false, false]));
        }
    }
    v
}

pub struct SSpace {
    /// (number of functions, options per function)
    pub parts: Vec<(usize, Opts)>,
    pub main_args: Vec<i32>,
}

impl SSpace {
    pub fn new(tier: Tier) -> SSpace {
        let small = Opts {
            arities: vec![0, 1],
            skels: SKELS[..4].to_vec(),
            frame_variants: 2,
            paddings: 1,
            extras: vec![None],
            frame_pointers: 1,
        };
        let tiny = Opts {
            arities: vec![1],
            skels: vec![Skel::Straight, Skel::If],
            frame_variants: 1,
            paddings: 1,
            extras: vec![None],
            frame_pointers: 1,
        };
        let full = Opts {
            arities: vec![0, 1, 2],
            skels: SKELS.to_vec(),
            frame_variants: 2,
            paddings: 2,
            extras: vec![None, Some(S11)],
            frame_pointers: 3,
        };
        let parts = match tier {
            Tier::Quick => vec![(1, full.clone()), (2, small), (3, tiny)],
            Tier::Thorough => vec![
                (1, full.clone()),
                (
                    2,
                    Opts {
                        arities: vec![0, 1, 2],
                        skels: SKELS.to_vec(),
                        frame_variants: 2,
                        paddings: 1,
                        extras: vec![None],
                        frame_pointers: 3,
                    },
                ),
                (3, Opts { skels: SKELS[..3].to_vec(), arities: vec![0, 1], frame_variants: 1, paddings: 1, extras: vec![None], frame_pointers: 1 }),
            ],
        };
        SSpace {
            parts,
            main_args: vec![2],
        }
    }

    fn part_count(&self, k: usize, o: &Opts) -> u64 {
        o.count().pow(k as u32) * shapes(k).len() as u64
    }

    pub fn count(&self) -> u64 {
        self.parts.iter().map(|(k, o)| self.part_count(*k, o)).sum()
    }

    /// None: the combination is not a member (e.g. a recursive function whose
    /// options contradict the recursion template).
    pub fn get(&self, mut i: u64) -> Option<SProgram> {
        for (k, o) in &self.parts {
            let n = self.part_count(*k, o);
            if i >= n {
                i -= n;
                continue;
            }
            let sh = shapes(*k);
            let (main_calls, callees, rec) = sh[(i % sh.len() as u64) as usize].clone();
            i /= sh.len() as u64;
            let mut fns = Vec::new();
            for f in 0..*k {
                let mut p = o.get(i % o.count(), format!("fn{}", f + 1));
                i /= o.count();
                p.callees = callees[f].clone();
                p.recursive = rec[f];
                if p.recursive {
                    // the recursion template fixes these; other values are not members
                    if p.arity != 1 || !p.returns || p.skel != o.skels[0] || p.reads_input || p.extra_saved.is_some() {
                        return None;
                    }
                }
                let branches = !matches!(p.skel, Skel::Straight | Skel::Loop);
                if p.arity == 0 && branches && !p.reads_input && !p.recursive {
                    return None; // the branch condition would be a constant
                }
                fns.push(p);
            }
            // a function without any varying value must not feed a callee's argument
            // (the callee's branches would be decided by a constant)
            for f in &fns {
                if f.arity == 0 && !f.reads_input && f.callees.iter().any(|g| fns[*g].arity >= 1) {
                    return None;
                }
            }
            return Some(assemble(fns, main_calls, self.main_args[0]));
        }
        None
    }
}

pub fn assemble(fns: Vec<FnPlan>, main_calls: Vec<usize>, arg: i32) -> SProgram {
    let mut stmts = emit_main(&main_calls, &fns, arg);
    for f in 0..fns.len() {
        stmts.extend(emit_function(f, &fns));
    }
    SProgram {
        program: Program { stmts },
        fns,
        main_calls,
    }
}

// ------------------------------------------------------------------ convention monitor

use crate::exec::*;
use riscv_analysis::cfg::Cfg;

pub struct Confirmation {
    pub executions: u64,
    pub steps: u64,
    /// instruction indices whose written value was read on some execution
    pub value_read: Vec<bool>,
    pub executed: Vec<bool>,
}

/// Execute the program under the monitor on every environment answer in
/// {-1,0,1,2}; every dynamic clause of the convention must hold. Err = the
/// member is not conforming (a generator defect, or an injected violation
/// showing up dynamically).
pub fn confirm(sp: &SProgram, cfg: &Cfg) -> Result<Confirmation, String> {
    let prog = &sp.program;
    let b = bind(cfg, prog)?;
    let img = Image::new(prog);
    let n = img.insts.len();
    let mut conf = Confirmation {
        executions: 0,
        steps: 0,
        value_read: vec![false; n],
        executed: vec![false; n],
    };
    for answer in [-1i32, 0, 1, 2] {
        for state in [0usize, 5] {
            let mut m = crate::c01::initial_machine(state);
            let mut env = Env::new(vec![answer as u32]);
            let lim = Limits {
                horizon: 4000,
                require_callee_convention: true,
            };
            // per activation: defined registers, last writer of each register
            struct A {
                defined: u32,
                writer: [Option<usize>; 32],
            }
            let base_defined: u32 = (1 << 0) | (1 << SP) | (1 << RA) | crate::c02::SAVED | (1 << 3) | (1 << 4);
            let mut acts: Vec<A> = vec![A {
                defined: base_defined | (1 << A0) | (1 << A1),
                writer: [None; 32],
            }];
            let mut error: Option<String> = None;
            let mut stop = String::new();
            let mut pending_args: u32 = 0;
            let mut pending_writers: [Option<usize>; 32] = [None; 32];
            let mut last_ret_callee: Option<(bool, [Option<usize>; 32])> = None;
            let mut cb = |ev: &Event, _m: &Machine, _f: &[Frame]| {
                if error.is_some() {
                    return;
                }
                match ev {
                    Event::EnterFunction { idx, via_call, .. } => {
                        if !*via_call {
                            error = Some(format!("function entered without a call at instruction {idx}"));
                            return;
                        }
                        // the argument values were written by the caller
                        let mut writer = [None; 32];
                        for r in 10..18usize {
                            if pending_args & (1 << r) != 0 {
                                writer[r] = pending_writers[r];
                            }
                        }
                        acts.push(A {
                            defined: base_defined | pending_args,
                            writer,
                        });
                    }
                    Event::After { idx, info } => {
                        conf.executed[*idx] = true;
                        let Some(a) = acts.last_mut() else { return };
                        let inst = img.insts[*idx];
                        let mut reads: Vec<Reg> = info.reads.clone();
                        if let Some(num) = info.ecall_num {
                            reads = vec![A7];
                            let args: &[Reg] = match num {
                                1 | 4 | 11 | 34 | 35 | 36 | 93 => &[A0],
                                _ => &[],
                            };
                            reads.extend_from_slice(args);
                        }
                        if info.is_call {
                            if let Inst::Jal(_, l) = inst {
                                let (ar, _) = sp.arity_of(l).unwrap_or((0, false));
                                reads = (0..ar as u8).map(|k| A0 + k).collect();
                                pending_writers = a.writer;
                                pending_args = 0;
                                for k in 0..ar as u8 {
                                    pending_args |= 1 << (A0 + k);
                                }
                            }
                        }
                        for r in &reads {
                            if a.defined & (1 << r) == 0 {
                                error = Some(format!(
                                    "instruction {idx} ({}) reads {} which holds no defined value",
                                    inst.base_text(),
                                    rn(*r)
                                ));
                                return;
                            }
                            if let Some(w) = a.writer[*r as usize] {
                                // an argument counts as read when the callee reads it
                                if !info.is_call {
                                    conf.value_read[w] = true;
                                }
                            }
                        }
                        if let Some(num) = info.ecall_num {
                            // temporaries and arguments do not survive an ecall, except its results
                            a.defined &= !crate::c02::CALLER_SAVED;
                            for r in ecall_results(num) {
                                a.defined |= 1 << r;
                                a.writer[*r as usize] = None;
                            }
                        } else if info.is_call {
                            // resolved when the callee returns
                        } else if let Some(w) = info.write {
                            if matches!(inst, Inst::R(_, 0, _, _) | Inst::I(_, 0, _, _)) {
                                error = Some(format!("instruction {idx} targets the zero register"));
                                return;
                            }
                            a.defined |= 1 << w;
                            a.writer[w as usize] = Some(*idx);
                        }
                        if info.is_ret {
                            // a returning function hands back a0 when it returns a value
                            last_ret_callee = Some((true, a.writer));
                        }
                    }
                    Event::Returned { call_idx, .. } => {
                        let callee = acts.pop();
                        let Some(a) = acts.last_mut() else { return };
                        let returns = match img.insts[*call_idx] {
                            Inst::Jal(_, l) => sp.arity_of(l).map(|x| x.1).unwrap_or(false),
                            _ => false,
                        };
                        a.defined &= !crate::c02::CALLER_SAVED;
                        a.defined |= 1 << RA;
                        for r in 5..32usize {
                            if crate::c02::CALLER_SAVED & (1 << r) != 0 {
                                a.writer[r] = None;
                            }
                        }
                        if returns {
                            a.defined |= 1 << A0;
                            // the value in a0 was written inside the callee
                            if let Some(c) = &callee {
                                a.writer[A0 as usize] = c.writer[A0 as usize];
                            }
                        }
                        let _ = &last_ret_callee;
                    }
                    Event::LeftSubset(w) => error = Some(format!("left the convention: {w}")),
                    Event::Stopped(s) => {
                        stop = format!("{s:?}");
                        // the exit ecall reads its call number
                        if matches!(s, Stop::Exit) {
                            if let Some(a) = acts.last() {
                                if a.defined & (1 << A7) == 0 {
                                    error = Some("exit ecall reads an undefined a7".into());
                                }
                                if let Some(w) = a.writer[A7 as usize] {
                                    conf.value_read[w] = true;
                                }
                            }
                            if let Some(i) = img.insts.iter().position(|_| false) {
                                conf.executed[i] = true;
                            }
                        }
                    }
                    _ => {}
                }
            };
            conf.steps += run_traced(&img, &b, &mut m, &mut env, &lim, &mut cb) as u64;
            conf.executions += 1;
            if let Some(e) = error {
                return Err(format!("answer {answer}, state {state}: {e}"));
            }
            if stop != "Exit" {
                return Err(format!("answer {answer}, state {state}: execution ended with {stop}, not with an exit ecall"));
            }
        }
    }
    Ok(conf)
}
