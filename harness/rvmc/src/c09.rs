//! C09 — every reported location designates exactly the text it is about.
//!
//! Layout family: statement kind x position in the file x indentation x
//! trailing text x company on the line x line ending x base/included file.
//! Oracle: the harness's locator (line/column of a raw offset) and the token
//! spans of the statement under test, known by construction.

use crate::driver::*;
use crate::imp;
use crate::loc::Locator;
use riscv_analysis::parser::{Lexer, TokenType};
use riscv_analysis::passes::DiagnosticLocation;
use serde_json::{json, Value};
use uuid::Uuid;

#[derive(Clone)]
pub struct Sut {
    pub name: &'static str,
    pub text: &'static str,
    pub before: &'static [&'static str],
    pub after: &'static [&'static str],
    /// expected diagnostics on the statement: (code, first token, last token)
    pub expect: &'static [(&'static str, usize, usize)],
    /// the statement produces a node (label/instruction/directive)
    pub makes_node: bool,
}

const EXIT: &[&str] = &["li a7, 10", "ecall"];

pub fn suts() -> Vec<Sut> {
    vec![
        Sut { name: "arith-use-before-assignment", text: "add a0, a0, t3", before: &[], after: EXIT,
              expect: &[("invalid-use-before-assignment", 3, 3), ("dead-assignment", 1, 1)], makes_node: true },
        Sut { name: "iarith-dead", text: "addi t0, zero, 5", before: &[], after: EXIT,
              expect: &[("dead-assignment", 1, 1)], makes_node: true },
        Sut { name: "save-to-zero", text: "add zero, a0, a1", before: &[], after: EXIT,
              expect: &[("save-to-zero", 1, 1)], makes_node: true },
        Sut { name: "load-above-sp", text: "lw t0, 4(sp)", before: &[], after: EXIT,
              expect: &[("invalid-stack-offset-usage", 0, 5), ("dead-assignment", 1, 1)], makes_node: true },
        Sut { name: "store-above-sp", text: "sw a0, 8(sp)", before: &[], after: EXIT,
              expect: &[("invalid-stack-offset-usage", 0, 5)], makes_node: true },
        Sut { name: "unknown-ecall", text: "ecall", before: &[], after: EXIT,
              expect: &[("unknown-ecall", 0, 0)], makes_node: true },
        Sut { name: "branch-garbage", text: "beq t0, t1, done", before: &[], after: &["done:", "li a7, 10", "ecall"],
              expect: &[("invalid-use-before-assignment", 1, 1), ("invalid-use-before-assignment", 2, 2)], makes_node: true },
        Sut { name: "call", text: "jal helper", before: &[], after: &["li a7, 10", "ecall", "helper:", "ret"],
              expect: &[], makes_node: true },
        Sut { name: "label-alone", text: "lone:", before: &[], after: EXIT, expect: &[], makes_node: true },
        Sut { name: "data-words", text: ".word 1, 2", before: &[".data"], after: &[".text", "li a7, 10", "ecall"],
              expect: &[], makes_node: true },
        Sut { name: "asciz", text: ".asciz \"hi\"", before: &[".data"], after: &[".text", "li a7, 10", "ecall"],
              expect: &[], makes_node: true },
        Sut { name: "la", text: "la a0, msg", before: &[], after: &["li a7, 4", "ecall", "li a7, 10", "ecall", ".data", "msg: .asciz \"x\""],
              expect: &[], makes_node: true },
        Sut { name: "bad-operand-kind", text: "addi t0, t0, t1", before: &[], after: EXIT,
              expect: &[("parse-expected", 3, 3)], makes_node: false },
        Sut { name: "bad-mnemonic", text: "frobnicate t0", before: &[], after: EXIT,
              expect: &[("parse-expected", 0, 0)], makes_node: false },
        Sut { name: "unreachable", text: "addi t0, t0, 1", before: &["j done"], after: &["done:", "li a7, 10", "ecall"],
              expect: &[("unreachable-code", 0, 3)], makes_node: true },
        Sut { name: "in-data-segment", text: "addi t0, t0, 1", before: &[".data"], after: &[".text", "li a7, 10", "ecall"],
              expect: &[("invalid-segment", 0, 3)], makes_node: true },
        Sut { name: "char-unicode-escape", text: "li t1, '\\u0041'", before: &[], after: EXIT,
              expect: &[("dead-assignment", 1, 1)], makes_node: true },
        Sut { name: "char-escape", text: "li t1, '\\n'", before: &[], after: EXIT,
              expect: &[("dead-assignment", 1, 1)], makes_node: true },
        Sut { name: "string-escapes", text: ".asciz \"a\\u0041\\tb\"", before: &[".data"], after: &[".text", "li a7, 10", "ecall"],
              expect: &[], makes_node: true },
        Sut { name: "jalr-one-operand", text: "jalr t0", before: &["la t0, helper"], after: &["li a7, 10", "ecall", "helper:", "ret"],
              expect: &[], makes_node: true },
        Sut { name: "jalr-two-operands", text: "jalr t0, 0", before: &["la t0, helper"], after: &["li a7, 10", "ecall", "helper:", "ret"],
              expect: &[], makes_node: true },
        Sut { name: "unclosed-string", text: ".asciz \"abc", before: &[".data"], after: &[".text", "li a7, 10", "ecall"],
              expect: &[], makes_node: false },
        Sut { name: "unclosed-string-last-line", text: ".asciz \"abc", before: &["li a7, 10", "ecall", ".data"], after: &[],
              expect: &[], makes_node: false },
        Sut { name: "unclosed-char-last-line", text: "li t1, 'a", before: &["li a7, 10", "ecall"], after: &[],
              expect: &[], makes_node: false },
        Sut { name: "bad-string-escape", text: ".asciz \"a\\qb\"", before: &[".data"], after: &[".text", "li a7, 10", "ecall"],
              expect: &[], makes_node: false },
        Sut { name: "second-return-in-data", text: "ret", before: &["jal f", "li a7, 10", "ecall", "f:", "beq a0, zero, other", "ret", ".data", "other:"], after: &[".text"],
              expect: &[("invalid-segment", 0, 0)], makes_node: true },
        Sut { name: "stray-paren", text: "( t0", before: &[], after: EXIT,
              expect: &[("parse-unexpected-token", 0, 0)], makes_node: false },
        // a character literal that is not closed ends with its character, whatever follows it
        Sut { name: "unclosed-char", text: "li t1, 'a", before: &[], after: EXIT,
              expect: &[("parse-invalid-string", 2, 2)], makes_node: false },
        Sut { name: "unclosed-char-in-list", text: ".byte 'a, 1", before: &[".data"], after: &[".text", "li a7, 10", "ecall"],
              expect: &[("parse-invalid-string", 1, 1)], makes_node: false },
        // a macro region that is never closed: the error names the directive, not the rest of the file
        Sut { name: "unclosed-macro", text: ".macro inc", before: &["li a7, 10", "ecall"], after: &["addi t0, t0, 1", "addi t1, t1, 1"],
              expect: &[("parse-incomplete-statement", 0, 0)], makes_node: false },
        // the return address a call writes without naming it: the message is about the instruction
        Sut { name: "jal-overwrites-ra", text: "jal g", before: &["jal f", "li a7, 10", "ecall", "f:"], after: &["ret", "g:", "ret"],
              expect: &[("overwrite-callee-saved-register", 0, 1)], makes_node: true },
        Sut { name: "call-overwrites-ra", text: "call g", before: &["jal f", "li a7, 10", "ecall", "f:"], after: &["ret", "g:", "ret"],
              expect: &[("overwrite-callee-saved-register", 0, 1)], makes_node: true },
        Sut { name: "jal-ra-overwrites-ra", text: "jal ra, g", before: &["jal f", "li a7, 10", "ecall", "f:"], after: &["ret", "g:", "ret"],
              expect: &[("overwrite-callee-saved-register", 1, 1)], makes_node: true },
    ]
}

const POSITIONS: [&[&str]; 4] = [&[], &["main:"], &["main:", ""], &["main:", "", ""]];
const INDENTS: [&str; 5] = ["", " ", "    ", "\t", "\t "];
const TRAILS: [&str; 3] = ["", "  ", "  # note"];
#[derive(Clone, Copy, Debug, PartialEq, Eq)]
pub enum Company {
    Alone,
    LabelInFront,
    SecondStatement,
}
const COMPANIES: [Company; 3] = [Company::Alone, Company::LabelInFront, Company::SecondStatement];
#[derive(Clone, Copy, Debug, PartialEq, Eq)]
pub enum Ending {
    Lf,
    Crlf,
    NoFinalNewline,
}
const ENDINGS: [Ending; 3] = [Ending::Lf, Ending::Crlf, Ending::NoFinalNewline];

#[derive(Clone, Debug)]
pub struct Layout {
    pub sut: usize,
    pub position: usize,
    pub indent: usize,
    pub trail: usize,
    pub company: Company,
    pub ending: Ending,
    pub included: bool,
}

/// Token spans (character offsets relative to the statement text), by a scanner
/// that only has to understand the statements written in this file.
pub fn scan(text: &str) -> Vec<(usize, usize)> {
    let cs: Vec<char> = text.chars().collect();
    let mut v = Vec::new();
    let mut i = 0;
    while i < cs.len() {
        let c = cs[i];
        if c == ' ' || c == '\t' || c == ',' {
            i += 1;
        } else if c == '(' || c == ')' {
            v.push((i, i));
            i += 1;
        } else if c == '"' {
            let s = i;
            i += 1;
            while i < cs.len() && cs[i] != '"' {
                i += 1;
            }
            v.push((s, i.min(cs.len() - 1)));
            i += 1;
        } else {
            let s = i;
            while i < cs.len() && !matches!(cs[i], ' ' | '\t' | ',' | '(' | ')') {
                i += 1;
            }
            v.push((s, i - 1));
        }
    }
    v
}

pub struct Built {
    pub files: Vec<(String, String)>,
    /// file index and character offset of the statement under test
    pub sut_file: usize,
    pub sut_offset: usize,
    pub text: String,
}

pub fn build(l: &Layout, suts: &[Sut]) -> Built {
    let s = &suts[l.sut];
    let nl = if l.ending == Ending::Crlf { "\r\n" } else { "\n" };
    let mut t = String::new();
    for line in POSITIONS[l.position] {
        t.push_str(line);
        t.push_str(nl);
    }
    for line in s.before {
        t.push_str("    ");
        t.push_str(line);
        t.push_str(nl);
    }
    t.push_str(INDENTS[l.indent]);
    if l.company == Company::LabelInFront {
        t.push_str("here: ");
    }
    let sut_offset = t.chars().count();
    t.push_str(s.text);
    if l.company == Company::SecondStatement {
        t.push_str("   addi s1, s1, 0");
    }
    t.push_str(TRAILS[l.trail]);
    // the statement under test is the last line when nothing follows it
    if !(s.after.is_empty() && l.ending == Ending::NoFinalNewline) {
        t.push_str(nl);
    }
    for (i, line) in s.after.iter().enumerate() {
        t.push_str("    ");
        t.push_str(line);
        if i + 1 < s.after.len() || l.ending != Ending::NoFinalNewline {
            t.push_str(nl);
        }
    }
    if l.included {
        Built {
            files: vec![
                ("base.s".into(), format!("    .include \"inc.s\"{nl}")),
                ("inc.s".into(), t.clone()),
            ],
            sut_file: 1,
            sut_offset,
            text: t,
        }
    } else {
        Built {
            files: vec![("base.s".into(), t.clone())],
            sut_file: 0,
            sut_offset,
            text: t,
        }
    }
}

fn spelling(t: &TokenType) -> Option<String> {
    Some(match t {
        TokenType::LParen => "(".into(),
        TokenType::RParen => ")".into(),
        TokenType::Newline => "\n".into(),
        TokenType::Label(l) => format!("{l}:"),
        TokenType::Symbol(s) => s.clone(),
        TokenType::Directive(d) => d.clone(),
        // only escape-free strings are used in this family
        TokenType::String(s) => format!("\"{s}\""),
        TokenType::Char(c) => format!("'{c}'"),
        TokenType::Comment(c) => format!("#{c}"),
    })
}

pub struct C09 {
    suts: Vec<Sut>,
}

impl C09 {
    pub fn new() -> C09 {
        C09 { suts: suts() }
    }
    fn layout(&self, mut c: u64) -> Layout {
        let mut take = |n: usize| -> usize {
            let v = (c % n as u64) as usize;
            c /= n as u64;
            v
        };
        let included = take(2) == 1;
        let ending = ENDINGS[take(3)];
        let company = COMPANIES[take(3)];
        let trail = take(3);
        let indent = take(5);
        let position = take(4);
        let sut = take(self.suts.len());
        Layout {
            sut,
            position,
            indent,
            trail,
            company,
            ending,
            included,
        }
    }

    /// consistency of one reported range with the locator; returns a clause name
    fn range_clause(loc: &Locator, r: &riscv_analysis::parser::Range) -> Option<&'static str> {
        let (s, e) = (r.start(), r.end());
        if s.raw_index() >= loc.len().max(1) || e.raw_index() >= loc.len().max(1) {
            return Some("offset-outside-file");
        }
        if e.raw_index() < s.raw_index() {
            return Some("end-before-start");
        }
        if s.zero_idx_line() != loc.line_of(s.raw_index()) {
            return Some("start-line-wrong");
        }
        if e.zero_idx_line() != loc.line_of(e.raw_index()) {
            return Some("end-line-wrong");
        }
        if s.zero_idx_column() != loc.col_of(s.raw_index()) {
            return Some("start-column-wrong");
        }
        if e.zero_idx_column() != loc.col_of(e.raw_index()) {
            return Some("end-column-wrong");
        }
        if s.zero_idx_line() != e.zero_idx_line() {
            return Some("spans-lines");
        }
        None
    }

    fn run_layout(&self, case: u64, l: &Layout, acc: &mut Acc) {
        let sut = &self.suts[l.sut];
        let b = build(l, &self.suts);
        let loc = Locator::new(&b.text);
        let spans: Vec<(usize, usize)> = scan(sut.text)
            .into_iter()
            .map(|(s, e)| (s + b.sut_offset, e + b.sut_offset))
            .collect();
        let layout_desc = json!({"statement": sut.name, "position": l.position, "indent": INDENTS[l.indent],
            "trailing": TRAILS[l.trail], "company": format!("{:?}", l.company), "ending": format!("{:?}", l.ending),
            "included": l.included});
        let where_ = |raw: usize| -> String {
            // coarse, deterministic description of where in the layout a location lies
            let line = loc.line_of(raw.min(loc.len().saturating_sub(1)));
            if line == 0 { "first-line".into() } else { "later-line".into() }
        };
        let witness = |what: &str, detail: Value| {
            json!({"files": b.files, "layout": layout_desc, "what": what, "detail": detail, "case": case})
        };
        // ---- 1. every token of the lexer
        let toks = std::panic::catch_unwind(std::panic::AssertUnwindSafe(|| {
            Lexer::new(b.text.clone(), Uuid::nil()).collect::<Vec<_>>()
        }));
        let toks = match toks {
            Ok(t) => t,
            Err(e) => {
                acc.count("panicked", 1);
                acc.outcome(&format!("lexer-panic:{}", imp::panic_message(e).chars().take(40).collect::<String>()), case);
                return;
            }
        };
        for t in toks.iter().flatten() {
            acc.count("tokens_checked", 1);
            let r = t.range();
            let kind = match t.token_type() {
                TokenType::Newline => "newline",
                TokenType::LParen | TokenType::RParen => "paren",
                TokenType::Label(_) => "label",
                TokenType::Symbol(_) => "symbol",
                TokenType::Directive(_) => "directive",
                TokenType::String(_) => "string",
                TokenType::Char(_) => "char",
                TokenType::Comment(_) => "comment",
            };
            if let Some(clause) = Self::range_clause(&loc, &r) {
                acc.violation(
                    format!("C09|token|{kind}|{clause}|{}", where_(r.start().raw_index())),
                    case,
                    witness("token position inconsistent", json!({"token": format!("{:?}", t.token_type()), "range": format!("{r}"), "raw": [r.start().raw_index(), r.end().raw_index()]})),
                );
                return;
            }
            if !matches!(t.token_type(), TokenType::Newline) && loc.slice(r.start().raw_index(), r.end().raw_index()).ends_with('\r') {
                acc.violation(
                    format!("C09|token|{kind}|ends-in-the-carriage-return-of-the-line-ending"),
                    case,
                    witness("the token reaches into the line ending", json!({"token": format!("{:?}", t.token_type()), "range": format!("{r}")})),
                );
                return;
            }
            let has_escape = matches!(t.token_type(), TokenType::String(_) | TokenType::Char(_))
                && loc.slice(r.start().raw_index(), r.end().raw_index()).contains('\\');
            if has_escape {
                // the source spelling of a literal with escapes: from its opening to its closing quote
                let got = loc.slice(r.start().raw_index(), r.end().raw_index());
                let q = if matches!(t.token_type(), TokenType::Char(_)) { '\'' } else { '"' };
                if !(got.starts_with(q) && got.ends_with(q) && got.chars().count() >= 3) {
                    acc.violation(
                        format!("C09|token|{kind}|text-mismatch"),
                        case,
                        witness("the characters between start and end are not the quoted literal", json!({"token": format!("{:?}", t.token_type()), "designated": got})),
                    );
                    return;
                }
            } else if let Some(sp) = spelling(t.token_type()) {
                let got = loc.slice(r.start().raw_index(), r.end().raw_index());
                // a carriage return in front of the line feed belongs to the line ending, not
                // to the token in front of it (a comment runs to the end of the line)
                if got != sp {
                    acc.violation(
                        format!("C09|token|{kind}|text-mismatch"),
                        case,
                        witness("the characters between start and end are not the token", json!({"token": format!("{:?}", t.token_type()), "designated": got, "expected": sp})),
                    );
                    return;
                }
            }
        }
        // ---- 2./3./4. nodes, parse errors, diagnostics through the whole pipeline
        let run = match imp::analyze(imp::MemReader::new(b.files.clone()), "base.s", &[]) {
            Ok(r) => r,
            Err(p) => {
                acc.count("panicked", 1);
                acc.outcome(&format!("panic:{}", p.0.chars().take(40).collect::<String>()), case);
                return;
            }
        };
        acc.count("traces", 1);
        let whole = (spans[0].0, spans[spans.len() - 1].1);
        for n in run.nodes.iter().skip(1) {
            if run.reader.file_index_of(n.file()) != Some(b.sut_file) {
                continue;
            }
            let r = n.range();
            acc.count("nodes_checked", 1);
            if let Some(clause) = Self::range_clause(&loc, &r) {
                let kind = n.to_string().split_whitespace().next().unwrap_or("?").to_string();
                acc.violation(
                    format!("C09|node|{clause}|{}", if r.start().raw_index() == whole.0 { sut.name.to_string() } else { format!("other:{kind}") }),
                    case,
                    witness("node range inconsistent", json!({"node": n.to_string(), "range": format!("{r}")})),
                );
                return;
            }
            if r.start().raw_index() == whole.0 && sut.makes_node && r.end().raw_index() != whole.1 {
                acc.violation(
                    format!("C09|node|extent|{}", sut.name),
                    case,
                    witness("node does not extend from its first to its last token", json!({"node": n.to_string(), "designated": loc.slice(r.start().raw_index(), r.end().raw_index()), "expected": loc.slice(whole.0, whole.1)})),
                );
                return;
            }
        }
        // every diagnostic in the statement's file
        for d in &run.diags {
            if d.file != b.sut_file as i64 {
                continue;
            }
            acc.count("diagnostics_checked", 1);
            let bad = if d.start_raw >= loc.len() || d.end_raw >= loc.len() {
                Some("offset-outside-file")
            } else if d.end_raw < d.start_raw {
                Some("end-before-start")
            } else if d.start_line != loc.line_of(d.start_raw) {
                Some("start-line-wrong")
            } else if d.end_line != loc.line_of(d.end_raw) {
                Some("end-line-wrong")
            } else if d.start_col != loc.col_of(d.start_raw) {
                Some("start-column-wrong")
            } else if d.end_col != loc.col_of(d.end_raw) {
                Some("end-column-wrong")
            } else if d.start_line != d.end_line {
                Some("spans-lines")
            } else {
                None
            };
            if let Some(clause) = bad {
                acc.violation(
                    format!("C09|diagnostic|{}|{clause}|{}", d.code, where_(d.start_raw)),
                    case,
                    witness("diagnostic position inconsistent", json!({"diagnostic": d})),
                );
                return;
            }
        }
        // expected diagnostics on the statement designate exactly the expected tokens
        for (code, from, to) in sut.expect {
            let want = (spans[*from].0, spans[*to].1);
            let found = run
                .diags
                .iter()
                .filter(|d| d.file == b.sut_file as i64 && d.code == *code)
                .collect::<Vec<_>>();
            let on_stmt: Vec<_> = found
                .iter()
                .filter(|d| d.start_raw >= whole.0 && d.start_raw <= whole.1)
                .collect();
            if on_stmt.iter().any(|d| (d.start_raw, d.end_raw) == want) {
                acc.count("expected_diagnostics_found", 1);
                continue;
            }
            if on_stmt.is_empty() && sut.name.starts_with("second-return") {
                // this statement is the only one of the file the diagnostic can be about: if it
                // exists, it stands somewhere else
                if let Some(d) = run.diags.iter().find(|d| d.file == b.sut_file as i64 && d.code == *code) {
                    acc.violation(
                        format!("C09|diagnostic|{code}|on-another-statement|{}", sut.name),
                        case,
                        witness("the diagnostic stands on a statement it is not about", json!({"designated": loc.slice(d.start_raw, d.end_raw), "line": d.start_line + 1, "diagnostic": d})),
                    );
                    return;
                }
            }
            if on_stmt.is_empty() {
                // whether the diagnostic exists at all is C05's subject; count only
                acc.count("expected_diagnostic_absent", 1);
                acc.outcome(&format!("absent:{}:{}", sut.name, code), case);
                continue;
            }
            let d = on_stmt[0];
            acc.violation(
                format!("C09|diagnostic|{code}|wrong-extent|{}", sut.name),
                case,
                witness(
                    "the diagnostic does not designate exactly the text it is about",
                    json!({"designated": loc.slice(d.start_raw, d.end_raw), "expected": loc.slice(want.0, want.1), "diagnostic": d}),
                ),
            );
            return;
        }
        acc.outcome(&format!("located:{}", sut.name), case);
    }
}

impl Property for C09 {
    fn id(&self) -> &'static str {
        "C09"
    }
    fn cases(&self, _tier: Tier) -> u64 {
        (self.suts.len() * 4 * 5 * 3 * 3 * 3 * 2) as u64
    }
    fn chunk(&self, _tier: Tier) -> u64 {
        1000
    }
    fn run_case(&self, _tier: Tier, case: u64, acc: &mut Acc) {
        acc.count("cases", 1);
        let l = self.layout(case);
        if l.position > 0 || l.indent > 0 || l.company != Company::Alone {
            acc.count("nontrivial", 1);
        }
        if case % 2503 == 0 {
            acc.sample(json!({"case": case, "files": build(&l, &self.suts).files}));
        }
        self.run_layout(case, &l, acc);
    }
    fn show(&self, _tier: Tier, case: u64) -> String {
        let l = self.layout(case);
        format!("{l:?}\n{:?}", build(&l, &self.suts).files)
    }
    fn replay(&self, w: &Value, acc: &mut Acc) {
        if let Some(case) = w["case"].as_u64() {
            if case < self.cases(Tier::Quick) {
                let l = self.layout(case);
                self.run_layout(case, &l, acc);
            }
        }
    }
    fn info(&self, _tier: Tier) -> Info {
        Info {
            rule: "20 statement kinds (each node constructor, label, directives, malformed statements, statements that draw a specific diagnostic) x 4 positions (first line / after 1 line / after blank lines) x 5 indentations x 3 trailing texts x {alone, label in front, second statement behind} x {LF, CRLF, no final newline} x {base, included file}: every lexer token, every node range, every parse error and every diagnostic must have line/column equal to the harness locator's values for its raw offsets, lie in the file on one line, and designate exactly the token(s) known by construction. Non-trivial = layouts that are not 'first line, no indentation, alone'".into(),
            bounds: json!({"statement_kinds": self.suts.len(), "layouts_per_statement": 4 * 5 * 3 * 3 * 3 * 2, "quick_equals_thorough": true}),
            assumptions: vec![
                "zero-based lines/columns and inclusive end offsets, the convention of the repository's own JSON expectations".into(),
                "whether an expected diagnostic is produced at all is C05's subject: an absent one is counted, not reported".into(),
            ],
            states_counter: "cases",
            transitions_counter: "tokens_checked",
            traces_counter: "traces",
            nontrivial_counter: "nontrivial",
            exhaustive: true,
        }
    }
}
