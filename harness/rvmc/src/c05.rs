//! C05 — each kind of convention violation is reported where it occurs.
//!
//! Family V: every base program of the S slice x 17 violation classes x every
//! admissible injection site. The oracle knows, by construction, which
//! instruction (or operand) is the offending one.

use crate::c09::scan;
use crate::driver::*;
use crate::imp;
use crate::model::*;
use crate::sfam::*;
use serde_json::{json, Value};

pub const CLASSES: [&str; 17] = [
    "saved-register-overwritten",
    "sp-not-restored",
    "ra-clobbered-by-nested-call",
    "temporary-read-after-call",
    "register-never-assigned",
    "dead-assignment",
    "write-to-zero",
    "stack-access-above-entry-sp",
    "instruction-in-data-segment",
    "ecall-number-from-memory",
    "code-after-unconditional-jump",
    "jump-to-function",
    "fall-through-into-function",
    "function-on-first-line",
    "temporary-updated-in-place-after-call",
    "register-never-assigned-updated-in-place",
    "saved-register-read-but-never-assigned",
];
const MAX_SITES: u64 = 10;

/// An injected program: statements, index of the offending statement, which
/// operand of it is blamed (None = whole instruction), accepted error codes.
pub struct Injected {
    pub program: Program,
    pub offender: usize,
    pub operand: Option<usize>,
    pub codes: &'static [&'static str],
    /// the monitor must reject an execution (dynamic classes)
    pub dynamic: bool,
}

struct FnSpan {
    plan: usize,
    /// statement indices: label, first body statement, last statement (ret)
    label: usize,
    end: usize,
}

fn function_spans(sp: &SProgram) -> Vec<FnSpan> {
    let st = &sp.program.stmts;
    let mut v = Vec::new();
    for (pi, p) in sp.fns.iter().enumerate() {
        if let Some(l) = st.iter().position(|s| matches!(s, Stmt::Label(x) if *x == p.name)) {
            // ends before the next function label or at the end
            let mut end = st.len() - 1;
            for (qi, q) in sp.fns.iter().enumerate() {
                if qi == pi {
                    continue;
                }
                if let Some(m) = st.iter().position(|s| matches!(s, Stmt::Label(x) if *x == q.name)) {
                    if m > l && m - 1 < end {
                        end = m - 1;
                    }
                }
            }
            v.push(FnSpan { plan: pi, label: l, end });
        }
    }
    v
}

fn is_inst(s: &Stmt) -> bool {
    matches!(s, Stmt::Inst(..))
}

/// Position (statement index) right after the prologue and the initialisation
/// of the running value of function `f`.
fn after_init(sp: &SProgram, f: &FnSpan) -> usize {
    let st = &sp.program.stmts;
    let acc = acc_reg(&sp.fns[f.plan]);
    for i in f.label + 1..=f.end {
        if let Stmt::Inst(_, inst) = &st[i] {
            if inst.dest() == Some(acc) {
                return i + 1;
            }
        }
    }
    f.label + 1
}

fn acc_reg(p: &FnPlan) -> Reg {
    let has_calls = !p.callees.is_empty() || p.recursive;
    let has_ecall = p.reads_input || !p.returns;
    if has_calls || has_ecall {
        S0
    } else {
        T0
    }
}

fn frame_size(sp: &SProgram, f: &FnSpan) -> i32 {
    match &sp.program.stmts[f.label + 1] {
        Stmt::Inst(_, Inst::I(IOp::Addi, 2, 2, k)) if *k < 0 => -*k,
        _ => 0,
    }
}

fn insert(sp: &SProgram, at: usize, new: Vec<Stmt>) -> Vec<Stmt> {
    let mut st = sp.program.stmts.clone();
    for (k, s) in new.into_iter().enumerate() {
        st.insert(at + k, s);
    }
    st
}

/// Body positions of a function where a statement can be inserted without
/// separating an argument/number set-up from its call or ecall.
fn body_sites(sp: &SProgram, f: &FnSpan) -> Vec<usize> {
    let st = &sp.program.stmts;
    let start = after_init(sp, f);
    let mut v = Vec::new();
    for i in start..=f.end {
        // not right before a call/ecall whose operands were just set, not before a label's target? (labels are fine)
        let next_is_transfer = matches!(&st[i], Stmt::Inst(_, Inst::Jal(1, _)) | Stmt::Inst(_, Inst::Ecall));
        let prev_sets_arg = i > 0
            && matches!(&st[i - 1], Stmt::Inst(_, x) if matches!(x.dest(), Some(10) | Some(11) | Some(17)));
        // code directly behind a ret / unconditional jump is unreachable: not a site
        let prev_ends_flow = i > 0
            && matches!(&st[i - 1], Stmt::Inst(_, x) if x.is_ret() || matches!(x, Inst::Jal(0, _)));
        if prev_ends_flow {
            continue;
        }
        if next_is_transfer || (prev_sets_arg && matches!(&st[i], Stmt::Inst(_, Inst::Li(..)) | Stmt::Inst(_, Inst::I(..)))) {
            continue;
        }
        if is_inst(&st[i]) || matches!(st[i], Stmt::Label(_)) {
            v.push(i);
        }
    }
    v
}

pub fn inject(sp: &SProgram, class: usize, site: usize) -> Option<Injected> {
    let spans = function_spans(sp);
    let st = &sp.program.stmts;
    // enumerate (function, position) sites across all functions
    let all_sites: Vec<(usize, usize)> = spans
        .iter()
        .enumerate()
        .flat_map(|(fi, f)| body_sites(sp, f).into_iter().map(move |p| (fi, p)))
        .collect();
    let mk = |stmts: Vec<Stmt>, offender: usize, operand: Option<usize>, codes: &'static [&'static str], dynamic: bool| {
        Some(Injected {
            program: Program { stmts },
            offender,
            operand,
            codes,
            dynamic,
        })
    };
    match class {
        0 => {
            let (_, p) = *all_sites.get(site)?;
            mk(insert(sp, p, vec![li(21, 9)]), p, Some(1), &["overwrite-callee-saved-register", "lost-register-value"], true)
        }
        1 => {
            let (_, p) = *all_sites.get(site)?;
            mk(insert(sp, p, vec![addi(SP, SP, -8)]), p, Some(1), &["overwrite-callee-saved-register", "invalid-stack-position", "invalid-stack-pointer", "unknown-stack", "invalid-stack-offset-usage"], true)
        }
        2 => {
            // a leaf function (ra not saved) calls another function that takes no argument
            let leafs: Vec<&FnSpan> = spans
                .iter()
                .filter(|f| sp.fns[f.plan].callees.is_empty() && !sp.fns[f.plan].recursive)
                .collect();
            let mut sites = Vec::new();
            for f in leafs {
                for (gi, g) in sp.fns.iter().enumerate() {
                    if gi != f.plan && g.arity == 0 && g.callees.is_empty() {
                        sites.push((f.label, after_init(sp, f), g.name.clone()));
                    }
                }
            }
            let (_, p, g) = sites.get(site)?.clone();
            mk(insert(sp, p, vec![call(&g)]), p, None, &["overwrite-callee-saved-register"], true)
        }
        3 => {
            // t3 set before a call, read after it
            let mut sites = Vec::new();
            for f in &spans {
                for i in f.label + 1..=f.end {
                    if let Stmt::Inst(_, Inst::Jal(1, _)) = &st[i] {
                        // before the argument set-up of this call
                        let mut b = i;
                        while b > f.label + 1 && matches!(&st[b - 1], Stmt::Inst(_, x) if matches!(x.dest(), Some(10) | Some(11))) {
                            b -= 1;
                        }
                        if b >= after_init(sp, f) {
                            sites.push((f.plan, b, i));
                        }
                    }
                }
            }
            let (fp, b, c) = *sites.get(site)?;
            let acc = acc_reg(&sp.fns[fp]);
            let mut stmts = st.clone();
            stmts.insert(c + 1, inst(Inst::R(ROp::Add, acc, acc, 28)));
            stmts.insert(b, li(28, 5));
            mk(stmts, c + 2, Some(3), &["invalid-use-after-call"], true)
        }
        4 => {
            let (fi, p) = *all_sites.get(site)?;
            let acc = acc_reg(&sp.fns[spans[fi].plan]);
            mk(insert(sp, p, vec![inst(Inst::R(ROp::Add, acc, acc, 29))]), p, Some(3), &["invalid-use-before-assignment", "invalid-use-after-call"], true)
        }
        5 => {
            let (_, p) = *all_sites.get(site)?;
            mk(insert(sp, p, vec![li(30, 7)]), p, Some(1), &["dead-assignment"], false)
        }
        6 => {
            let (fi, p) = *all_sites.get(site)?;
            let acc = acc_reg(&sp.fns[spans[fi].plan]);
            mk(insert(sp, p, vec![inst(Inst::R(ROp::Add, ZERO, acc, acc))]), p, Some(1), &["save-to-zero"], false)
        }
        7 => {
            let (fi, p) = *all_sites.get(site)?;
            // only where sp is at its frame position: between prologue and epilogue
            let f = &spans[fi];
            let fs = frame_size(sp, f);
            let acc = acc_reg(&sp.fns[f.plan]);
            // after the epilogue's `addi sp` the offset is different: stop at the first restore
            let epi = (f.label + 1..=f.end).find(|i| matches!(&st[*i], Stmt::Inst(_, Inst::Load(_, d, 2, _)) if is_saved(*d) || *d == RA));
            if let Some(e) = epi {
                if p > e {
                    return None;
                }
            }
            // every access width: the lint must not depend on which load or store it is
            let which = site % 8;
            let s = match which {
                0 => sw(acc, fs, SP),
                1 => lw(31, fs + 4, SP),
                2 => inst(Inst::Store(SOp::Sb, acc, SP, fs)),
                3 => inst(Inst::Load(LOp::Lbu, 31, SP, fs + 4)),
                4 => inst(Inst::Store(SOp::Sh, acc, SP, fs)),
                5 => inst(Inst::Load(LOp::Lh, 31, SP, fs + 4)),
                6 => inst(Inst::Load(LOp::Lb, 31, SP, fs)),
                _ => inst(Inst::Load(LOp::Lhu, 31, SP, fs + 2)),
            };
            let mut stmts = insert(sp, p, vec![s]);
            if which % 2 == 1 || which == 6 {
                // consume the loaded value so that only the stack access is at fault
                stmts.insert(p + 1, inst(Inst::R(ROp::Add, acc, acc, 31)));
            }
            mk(stmts, p, None, &["invalid-stack-offset-usage"], false)
        }
        8 => {
            let (fi, p) = *all_sites.get(site)?;
            let acc = acc_reg(&sp.fns[spans[fi].plan]);
            mk(
                insert(sp, p, vec![Stmt::Directive(".data".into()), addi(acc, acc, 1), Stmt::Directive(".text".into())]),
                p + 1,
                None,
                &["invalid-segment"],
                false,
            )
        }
        9 => {
            // `li a7, N` (N != 10) of a print/read ecall replaced by a load from the stack
            let sites: Vec<usize> = (0..st.len())
                .filter(|i| matches!(&st[*i], Stmt::Inst(_, Inst::Li(17, n)) if *n != 10) && matches!(st.get(i + 1), Some(Stmt::Inst(_, Inst::Ecall))))
                .collect();
            let p = *sites.get(site)?;
            let mut stmts = st.clone();
            stmts[p] = lw(17, -4, SP);
            mk(stmts, p + 1, None, &["unknown-ecall"], false)
        }
        10 => {
            // straight-line code behind a ret / an unconditional jump
            let sites: Vec<usize> = (0..st.len())
                .filter(|i| matches!(&st[*i], Stmt::Inst(_, x) if x.is_ret() || matches!(x, Inst::Jal(0, _))))
                .collect();
            let p = *sites.get(site)? + 1;
            mk(insert(sp, p, vec![addi(28, 28, 1)]), p, None, &["unreachable-code"], false)
        }
        11 => {
            // plain jump from main to a called function
            let f = spans.get(site)?;
            let exit = st.iter().position(|s| matches!(s, Stmt::Inst(_, Inst::Li(17, 10))))?;
            let name = sp.fns[f.plan].name.clone();
            let stmts = insert(sp, exit, vec![j(&name)]);
            // blamed: the first instruction of the function (its entry)
            let first = stmts.iter().position(|s| matches!(s, Stmt::Label(x) if *x == name))? + 1;
            mk(stmts, first, None, &["invalid-jump-to-function"], false)
        }
        12 => {
            // a function loses its final ret and falls into the next function
            let f = spans.get(site)?;
            let next = spans.iter().find(|g| g.label == f.end + 1)?;
            let mut stmts = st.clone();
            if !matches!(&stmts[f.end], Stmt::Inst(_, x) if x.is_ret()) {
                return None;
            }
            stmts.remove(f.end);
            let _ = next;
            // blamed: the entry label of the function that is fallen into
            mk(stmts, f.end, Some(0), &["node-in-many-functions"], false)
        }
        13 => {
            // the called function moves in front of main
            let f = spans.get(site)?;
            let mut stmts: Vec<Stmt> = st[f.label..=f.end].to_vec();
            stmts.extend(st[..f.label].iter().cloned());
            stmts.extend(st[f.end + 1..].iter().cloned());
            mk(stmts, 1, None, &["first-instruction-is-function"], false)
        }
        14 => {
            // like class 3, but the first instruction touching the temporary behind the
            // call both reads and writes it
            let mut sites = Vec::new();
            for f in &spans {
                for i in f.label + 1..=f.end {
                    if let Stmt::Inst(_, Inst::Jal(1, _)) = &st[i] {
                        let mut b = i;
                        while b > f.label + 1 && matches!(&st[b - 1], Stmt::Inst(_, x) if matches!(x.dest(), Some(10) | Some(11))) {
                            b -= 1;
                        }
                        if b >= after_init(sp, f) {
                            sites.push((f.plan, b, i));
                        }
                    }
                }
            }
            let (fp, b, c) = *sites.get(site)?;
            let acc = acc_reg(&sp.fns[fp]);
            let mut stmts = st.clone();
            stmts.insert(c + 1, addi(28, 28, 1));
            stmts.insert(c + 2, inst(Inst::R(ROp::Add, acc, acc, 28)));
            stmts.insert(b, li(28, 5));
            mk(stmts, c + 2, Some(2), &["invalid-use-after-call"], true)
        }
        15 => {
            let (fi, p) = *all_sites.get(site)?;
            let acc = acc_reg(&sp.fns[spans[fi].plan]);
            mk(
                insert(sp, p, vec![addi(29, 29, 1), inst(Inst::R(ROp::Add, acc, acc, 29))]),
                p,
                Some(2),
                &["invalid-use-before-assignment", "invalid-use-after-call"],
                true,
            )
        }
        16 => {
            // a saved register the function never writes is read by an arithmetic
            // instruction: its value is whatever the caller left there
            let (fi, p) = *all_sites.get(site)?;
            let acc = acc_reg(&sp.fns[spans[fi].plan]);
            mk(
                insert(sp, p, vec![inst(Inst::R(ROp::Add, acc, acc, 21))]),
                p,
                Some(3),
                &["invalid-use-before-assignment"],
                false,
            )
        }
        _ => None,
    }
}

pub struct C05 {
    space: SSpace,
}

impl C05 {
    /// a register that holds garbage is read by a call (an argument of the callee) or by an
    /// ecall: a diagnostic must stand on that instruction
    fn run_implicit(&self, case: u64, i: usize, acc: &mut Acc) {
        let (name, src, line, codes) = implicit_reads()[i].clone();
        acc.count("implicit_read_programs", 1);
        acc.count("nontrivial", 1);
        let Ok(run) = imp::analyze_text(&src) else {
            acc.count("analysis_panicked", 1);
            return;
        };
        acc.count("traces", 1);
        if !run.diags.iter().any(|d| codes.contains(&d.code.as_str()) && d.start_line == line) {
            acc.violation(
                format!("C05|implicit-read-of-garbage-not-reported|{name}"),
                case,
                json!({"case": case, "implicit_read": i, "source": src, "reader_line": line + 1, "what": "no diagnostic on the call / ecall that reads the never-assigned (or clobbered) register",
                       "diagnostics": run.diags.iter().map(|d| (d.code.clone(), d.start_line + 1)).collect::<Vec<_>>()}),
            );
            return;
        }
        acc.outcome(&format!("implicit-read:{name}"), case);
    }

    fn run_fixed(&self, case: u64, i: usize, acc: &mut Acc) {
        let (name, src, line, codes, text) = fixed_violations()[i].clone();
        acc.count("fixed_violation_programs", 1);
        acc.count("nontrivial", 1);
        let Ok(run) = imp::analyze_text(&src) else {
            acc.count("analysis_panicked", 1);
            return;
        };
        acc.count("traces", 1);
        let loc = crate::loc::Locator::new(&src);
        let hit = run.diags.iter().any(|d| {
            codes.contains(&d.code.as_str()) && d.start_line == line && text.map(|t| loc.slice(d.start_raw, d.end_raw) == t).unwrap_or(true)
        });
        if !hit {
            acc.violation(
                format!("C05|fixed|not-reported-where-it-occurs|{name}"),
                case,
                json!({"case": case, "fixed_violation": i, "source": src, "offending_line": line + 1, "expected_codes": codes, "designating": text,
                       "diagnostics": run.diags.iter().map(|d| (d.code.clone(), d.start_line + 1, loc.slice(d.start_raw, d.end_raw))).collect::<Vec<_>>()}),
            );
            return;
        }
        acc.outcome(&format!("fixed:{name}"), case);
    }

    /// garbage reads of t0 on the arms of a branch: each one reported on its operand, no
    /// correct read reported
    fn run_two_arm(&self, case: u64, i: u64, acc: &mut Acc) {
        let (src, garbage, fine, code) = two_arm(i);
        acc.count("two_arm_programs", 1);
        if !garbage.is_empty() {
            acc.count("nontrivial", 1);
        }
        let Ok(run) = imp::analyze_text(&src) else {
            acc.count("analysis_panicked", 1);
            return;
        };
        acc.count("traces", 1);
        let loc = crate::loc::Locator::new(&src);
        let ctx = ["main", "function", "after-call"][(i % 3) as usize];
        let witness = |what: &str| json!({"case": case, "two_arm": i, "source": src, "what": what, "garbage_read_lines": garbage.iter().map(|l| l + 1).collect::<Vec<_>>(),
            "diagnostics": run.diags.iter().map(|d| (d.code.clone(), d.start_line + 1, loc.slice(d.start_raw, d.end_raw))).collect::<Vec<_>>()});
        let on_t0 = |line: usize| run.diags.iter().any(|d| d.code == code && d.start_line == line && loc.slice(d.start_raw, d.end_raw) == "t0");
        for l in &garbage {
            if !on_t0(*l) {
                let other = if fine.is_empty() { "both-arms-read-garbage" } else { "other-arm-assigns-first" };
                acc.violation(format!("C05|two-arm|garbage-read-not-reported|{ctx}|{other}"), case, witness("a read of the never-assigned (or clobbered) t0 draws no diagnostic on its operand"));
                return;
            }
        }
        for l in &fine {
            if run.diags.iter().any(|d| (d.code == code || d.code == "invalid-use-before-assignment") && d.start_line == *l && loc.slice(d.start_raw, d.end_raw) == "t0") {
                acc.violation(format!("C05|two-arm|correct-read-reported|{ctx}"), case, witness("a read of t0 behind its assignment is reported"));
                return;
            }
        }
        acc.outcome(&format!("two-arm:{ctx}:{}-garbage-reads", garbage.len()), case);
    }

    pub fn new() -> C05 {
        C05 {
            space: SSpace::new(Tier::Quick),
        }
    }
    fn stride(&self, tier: Tier) -> u64 {
        tier.pick(23, 2)
    }
    fn n_bases(&self, tier: Tier) -> u64 {
        self.space.count().div_ceil(self.stride(tier))
    }
    fn decode(&self, tier: Tier, case: u64) -> (u64, usize, usize) {
        let site = (case % MAX_SITES) as usize;
        let class = ((case / MAX_SITES) % CLASSES.len() as u64) as usize;
        let base = (case / MAX_SITES / CLASSES.len() as u64) * self.stride(tier);
        (base, class, site)
    }

    fn run_injected(&self, case: u64, base: &SProgram, class: usize, site: usize, acc: &mut Acc) {
        let Some(inj) = inject(base, class, site) else {
            acc.count("no_such_site", 1);
            return;
        };
        acc.count("injected_programs", 1);
        let text = inj.program.text();
        // offsets of the statements in the printed text
        let mut starts = Vec::new();
        let mut off = 0usize;
        for s in &inj.program.stmts {
            let (lead, body) = match s {
                Stmt::Label(l) => (0, format!("{l}:")),
                Stmt::Inst(t, _) => (4, t.clone()),
                Stmt::Directive(d) => (0, d.clone()),
            };
            starts.push((off + lead, body.clone()));
            off += lead + body.chars().count() + 1;
        }
        let (ostart, otext) = starts[inj.offender].clone();
        let toks = scan(&otext);
        let want: (usize, usize) = match inj.operand {
            Some(k) => match toks.get(k) {
                Some(t) => (ostart + t.0, ostart + t.1),
                None => (ostart, ostart + otext.chars().count() - 1),
            },
            None => (ostart + toks[0].0, ostart + toks[toks.len() - 1].1),
        };
        let witness = |what: &str, detail: Value| {
            json!({"source": text, "class": CLASSES[class], "site": site, "offending_statement": otext,
                   "expected_codes": inj.codes, "expected_text": text.chars().skip(want.0).take(want.1 + 1 - want.0).collect::<String>(),
                   "what": what, "detail": detail, "case": case})
        };
        let run = match imp::analyze_text(&text) {
            Ok(r) => r,
            Err(p) => {
                acc.count("analysis_panicked", 1);
                acc.outcome(&format!("panic:{}", p.0.chars().take(40).collect::<String>()), case);
                return;
            }
        };
        acc.count("traces", 1);
        if !run.parse_errors.is_empty() {
            acc.violation("C05|machinery|parse-errors", case, witness("injected program does not parse", json!(null)));
            return;
        }
        // dynamic confirmation that the violation is real
        if inj.dynamic {
            if let Ok(cfg) = &run.cfg {
                let sp2 = SProgram {
                    program: inj.program.clone(),
                    fns: base.fns.clone(),
                    main_calls: base.main_calls.clone(),
                };
                match confirm(&sp2, cfg) {
                    Ok(_) => {
                        // no explored execution shows the violation (e.g. injected on a path
                        // that is not taken): not a confirmed member of V
                        acc.count("violation_not_observed_dynamically", 1);
                        acc.outcome(&format!("unconfirmed:{}", CLASSES[class]), case);
                        return;
                    }
                    Err(_) => acc.count("violations_confirmed_dynamically", 1),
                }
            }
        }
        // accepted designations: the expected operand / instruction; for an implicit
        // register (ra of a call) the mnemonic; for an unbalanced sp the instruction
        // itself or the sp operand of any instruction of the function that writes sp
        let mut accepted: Vec<(usize, usize)> = vec![want];
        let whole = (ostart + toks[0].0, ostart + toks[toks.len() - 1].1);
        if class == 2 {
            accepted.push((ostart + toks[0].0, ostart + toks[0].1));
        }
        if class == 1 {
            accepted.push(whole);
            // the function containing the injection: from the preceding fnK label to the next one
            let mut lo = inj.offender;
            while lo > 0 && !matches!(&inj.program.stmts[lo], Stmt::Label(l) if l.starts_with("fn") && !l.contains('_')) {
                lo -= 1;
            }
            let mut hi = inj.offender + 1;
            while hi < inj.program.stmts.len() && !matches!(&inj.program.stmts[hi], Stmt::Label(l) if l.starts_with("fn") && !l.contains('_')) {
                hi += 1;
            }
            for k in lo..hi {
                if let Stmt::Inst(t, x) = &inj.program.stmts[k] {
                    if x.dest() == Some(SP) {
                        let tk = scan(t);
                        if let Some(op) = tk.get(1) {
                            accepted.push((starts[k].0 + op.0, starts[k].0 + op.1));
                        }
                    }
                }
            }
        }
        let hit = run.diags.iter().any(|d| {
            inj.codes.contains(&d.code.as_str()) && accepted.contains(&(d.start_raw, d.end_raw))
        });
        if hit {
            acc.count("reported_where_it_occurs", 1);
            acc.outcome(&format!("reported:{}", CLASSES[class]), case);
            return;
        }
        // narrow class: which codes were produced on the offending statement instead
        let on_stmt: Vec<&imp::Diag> = run
            .diags
            .iter()
            .filter(|d| d.start_raw >= ostart && d.start_raw < ostart + otext.chars().count())
            .collect();
        let right_code_elsewhere = run.diags.iter().any(|d| inj.codes.contains(&d.code.as_str()));
        let cfg_err = run.cfg.is_err();
        let how = if cfg_err {
            format!("analysis-failed:{}", run.diags.last().map(|d| d.code.clone()).unwrap_or_default())
        } else if on_stmt.iter().any(|d| inj.codes.contains(&d.code.as_str())) {
            "right-code-wrong-extent".to_string()
        } else if right_code_elsewhere {
            "right-code-on-another-statement".to_string()
        } else {
            "not-reported".to_string()
        };
        // is the offending statement preceded, inside its function, by an ecall or call
        // (whose clobbering the analyzer models as a definition of every temporary)?
        let mut lo = inj.offender;
        while lo > 0 && !matches!(&inj.program.stmts[lo], Stmt::Label(l) if l.starts_with("fn") && !l.contains('_')) {
            lo -= 1;
        }
        let after_clobber = inj.program.stmts[lo..inj.offender]
            .iter()
            .any(|s| matches!(s, Stmt::Inst(_, Inst::Ecall)));
        let in_loop_with_clobber = inj.program.stmts[inj.offender..]
            .iter()
            .take_while(|s| !matches!(s, Stmt::Label(l) if l.starts_with("fn") && !l.contains('_')))
            .any(|s| matches!(s, Stmt::Inst(_, Inst::Ecall) | Stmt::Inst(_, Inst::Jal(1, _))));
        let situation = if class == 4 || class == 15 {
            if after_clobber {
                "|behind-an-ecall"
            } else if in_loop_with_clobber {
                "|ecall-or-call-later-in-function"
            } else {
                "|no-ecall-or-call-in-function"
            }
        } else {
            ""
        };
        acc.violation(
            format!("C05|{}|{how}{situation}", CLASSES[class]),
            case,
            witness(
                "the violation is not reported on the offending instruction/operand",
                json!(run.diags.iter().map(|d| json!({"code": d.code, "line": d.start_line + 1, "text": text.chars().skip(d.start_raw).take(d.end_raw + 1 - d.start_raw).collect::<String>()})).collect::<Vec<_>>()),
            ),
        );
    }
}


// ---------------------------------------------------------------------------------------
// Two-arm family: a garbage read of t0 on one arm of a branch while the other arm may assign
// t0 first (a correct read) or read the garbage too, at different distances from the
// branch. Every garbage read must be reported on its operand, no correct read may be.

pub const N_TWO_ARM: u64 = 3 * 8 * 8;

/// garbage read by a call or an ecall (an argument the caller never set): (name, source, 0-based line of the reader, accepted codes)
pub fn implicit_reads() -> Vec<(&'static str, String, usize, Vec<&'static str>)> {
    vec![
        ("callee-argument-never-set", "main:\n    li a0, 1\n    jal g\n    li a7, 1\n    ecall\n    li a7, 10\n    ecall\ng:\n    add a0, a0, a5\n    ret\n".into(), 2, vec!["invalid-use-before-assignment"]),
        // (a2 is never assigned; the first ecall hides that from the liveness-based entry lint)
        ("ecall-argument-never-set-behind-an-ecall", "main:\n    li a7, 5\n    ecall\n    li a7, 54\n    ecall\n    li a7, 1\n    ecall\n    li a7, 10\n    ecall\n".into(), 4, vec!["invalid-use-before-assignment"]),
        ("argument-of-a-callee's-callee-never-set", "main:\n    li a0, 1\n    jal f\n    li a7, 1\n    ecall\n    li a7, 10\n    ecall\nf:\n    addi sp, sp, -4\n    sw ra, 0(sp)\n    jal g\n    lw ra, 0(sp)\n    addi sp, sp, 4\n    ret\ng:\n    add a0, a0, a5\n    ret\n".into(), 2, vec!["invalid-use-before-assignment"]),
    ]
}

/// one violation in a small fixed program: (name, source, 0-based line of the offending
/// instruction, accepted codes, the text the diagnostic has to designate if it is an operand)
pub fn fixed_violations() -> Vec<(&'static str, String, usize, Vec<&'static str>, Option<&'static str>)> {
    vec![
        // a never-assigned register that no ecall writes, read behind an ecall
        ("saved-register-read-in-main-behind-an-ecall", "main:\n    li a0, 1\n    li a7, 1\n    ecall\n    add a0, a0, s5\n    li a7, 1\n    ecall\n    li a7, 10\n    ecall\n".into(), 4, vec!["invalid-use-before-assignment"], Some("s5")),
        ("thread-pointer-read-in-a-function-behind-an-ecall", "main:\n    li a0, 1\n    jal f\n    li a7, 1\n    ecall\n    li a7, 10\n    ecall\nf:\n    li a7, 5\n    ecall\n    add a0, a0, tp\n    ret\n".into(), 10, vec!["invalid-use-before-assignment"], Some("tp")),
        // a never-assigned argument register that a leaf callee neither reads
        // nor writes: the read behind the call is the offending instruction, not the call
        ("garbage-passes-through-a-leaf-call", ".text\nmain:\n    li s0, 7\n    mv a0, s0\n    jal double\n    mv s1, a0\n    add s1, s1, a2\n    mv a0, s1\n    li a7, 1\n    ecall\n    li a7, 10\n    ecall\ndouble:\n    slli a0, a0, 1\n    ret\n".into(), 6, vec!["invalid-use-before-assignment"], Some("a2")),
        ("garbage-passes-through-a-callee-that-calls-on", "main:\n    li a0, 3\n    jal work\n    add a0, a0, a2\n    li a7, 1\n    ecall\n    li a7, 10\n    ecall\nwork:\n    addi sp, sp, -4\n    sw ra, 0(sp)\n    jal twice\n    lw ra, 0(sp)\n    addi sp, sp, 4\n    ret\ntwice:\n    slli a0, a0, 1\n    ret\n".into(), 3, vec!["invalid-use-before-assignment"], Some("a2")),
        // the return address destroyed in front of the instruction that saves it: the frame code
        // saves and restores the destroyed value faithfully
        ("ra-overwritten-before-it-is-saved", "main:\n    li a0, 5\n    jal ra, f\n    li a7, 1\n    ecall\n    li a7, 10\n    ecall\nf:\n    addi sp, sp, -4\n    li ra, 0\n    sw ra, 0(sp)\n    jal ra, g\n    lw ra, 0(sp)\n    addi sp, sp, 4\n    ret\ng:\n    addi a0, a0, 1\n    ret\n".into(), 9, vec!["overwrite-callee-saved-register", "lost-register-value"], Some("ra")),
        // a stretch of unreachable straight-line code: every instruction of it, also behind an ecall
        ("last-of-a-dead-stretch-behind-the-exit", "main:\n    li a0, 1\n    jal f\n    li a7, 10\n    ecall\n    addi t3, t3, 1\n    addi t3, t3, 2\n    addi t3, t3, 3\nf:\n    addi a0, a0, 1\n    ret\n".into(), 7, vec!["unreachable-code"], None),
        ("dead-stretch-with-an-ecall-in-it", "main:\n    li a0, 1\n    jal f\n    li a7, 10\n    ecall\nf:\n    addi a0, a0, 1\n    j f_end\n    li a7, 11\n    ecall\n    addi t3, t3, 1\n    addi t3, t3, 2\nf_end:\n    ret\n".into(), 11, vec!["unreachable-code"], None),
    ]
}

/// (source, expected: for each arm Some(line of the garbage read) / None, lines of correct reads, code)
pub fn two_arm(i: u64) -> (String, Vec<usize>, Vec<usize>, &'static str) {
    let ctx = (i % 3) as usize; // 0 = main, 1 = function, 2 = after a call
    let a = ((i / 3) % 8) as usize;
    let b = ((i / 24) % 8) as usize;
    let fill = ["    addi a2, a2, 1", "    addi a3, a3, 1", "    addi a4, a4, 1"];
    let mut lines: Vec<String> = Vec::new();
    let mut garbage = Vec::new();
    let mut fine = Vec::new();
    let code = if ctx == 2 { "invalid-use-after-call" } else { "invalid-use-before-assignment" };
    match ctx {
        0 => lines.push("main:".into()),
        1 => {
            lines.extend(["main:", "    li a0, 1", "    li a2, 0", "    li a3, 0", "    li a4, 0", "    jal f", "    li a7, 1", "    ecall", "    li a7, 10", "    ecall", "f:"].map(String::from));
        }
        _ => {
            lines.extend(["main:", "    li t0, 9", "    jal g"].map(String::from));
        }
    }
    if ctx != 1 {
        // a2..a4 are defined, a0 comes from the environment / the callee
        lines.extend(["    li a2, 0", "    li a3, 0", "    li a4, 0"].map(String::from));
    }
    lines.push("    beq a0, zero, L1".into());
    let mut arm = |k: usize, lines: &mut Vec<String>| {
        let assigned = k >= 4;
        for f in fill.iter().take(k % 4) {
            lines.push((*f).into());
        }
        if assigned {
            lines.push("    li t0, 5".into());
        }
        lines.push("    add a0, a2, t0".into());
        if assigned {
            fine.push(lines.len() - 1);
        } else {
            garbage.push(lines.len() - 1);
        }
    };
    arm(a, &mut lines);
    lines.push("    j L2".into());
    lines.push("L1:".into());
    arm(b, &mut lines);
    lines.push("L2:".into());
    if ctx == 1 {
        lines.push("    add a0, a0, a3".into());
        lines.push("    add a0, a0, a4".into());
        lines.push("    ret".into());
    } else {
        lines.extend(["    add a0, a0, a3", "    add a0, a0, a4", "    li a7, 1", "    ecall", "    li a7, 10", "    ecall"].map(String::from));
        if ctx == 2 {
            lines.extend(["g:", "    li a0, 1", "    ret"].map(String::from));
        }
    }
    (lines.join("\n") + "\n", garbage, fine, code)
}

impl Property for C05 {
    fn id(&self) -> &'static str {
        "C05"
    }
    fn cases(&self, tier: Tier) -> u64 {
        self.n_bases(tier) * CLASSES.len() as u64 * MAX_SITES + N_TWO_ARM + implicit_reads().len() as u64 + fixed_violations().len() as u64
    }
    fn chunk(&self, _tier: Tier) -> u64 {
        1400
    }
    fn run_case(&self, tier: Tier, case: u64, acc: &mut Acc) {
        acc.count("cases", 1);
        let injected = self.n_bases(tier) * CLASSES.len() as u64 * MAX_SITES;
        let n_implicit = implicit_reads().len() as u64;
        if case >= injected + N_TWO_ARM + n_implicit {
            self.run_fixed(case, (case - injected - N_TWO_ARM - n_implicit) as usize, acc);
            return;
        }
        if case >= injected + N_TWO_ARM {
            self.run_implicit(case, (case - injected - N_TWO_ARM) as usize, acc);
            return;
        }
        if case >= injected {
            self.run_two_arm(case, case - injected, acc);
            return;
        }
        let (b, class, site) = self.decode(tier, case);
        let Some(base) = (if b < self.space.count() { self.space.get(b) } else { None }) else {
            acc.count("not_a_member", 1);
            return;
        };
        if case % 7001 == 0 {
            if let Some(i) = inject(&base, class, site) {
                acc.sample(json!({"case": case, "class": CLASSES[class], "site": site, "source": i.program.text()}));
            }
        }
        if class > 0 {
            acc.count("nontrivial", 1);
        }
        self.run_injected(case, &base, class, site, acc);
    }
    fn show(&self, tier: Tier, case: u64) -> String {
        let injected = self.n_bases(tier) * CLASSES.len() as u64 * MAX_SITES;
        let n_implicit = implicit_reads().len() as u64;
        if case >= injected + N_TWO_ARM + n_implicit {
            return fixed_violations()[(case - injected - N_TWO_ARM - n_implicit) as usize].1.clone();
        }
        if case >= injected + N_TWO_ARM {
            return implicit_reads()[(case - injected - N_TWO_ARM) as usize].1.clone();
        }
        if case >= injected {
            return two_arm(case - injected).0;
        }
        let (b, class, site) = self.decode(tier, case);
        match self.space.get(b).and_then(|base| inject(&base, class, site)) {
            Some(i) => format!("{} site {}\n{}", CLASSES[class], site, i.program.text()),
            None => "no such site".into(),
        }
    }
    fn replay(&self, w: &Value, acc: &mut Acc) {
        if let Some(i) = w["fixed_violation"].as_u64() {
            self.run_fixed(w["case"].as_u64().unwrap_or(0), i as usize, acc);
            return;
        }
        if let Some(i) = w["implicit_read"].as_u64() {
            self.run_implicit(w["case"].as_u64().unwrap_or(0), i as usize, acc);
            return;
        }
        if let Some(i) = w["two_arm"].as_u64() {
            self.run_two_arm(w["case"].as_u64().unwrap_or(0), i, acc);
            return;
        }
        if let Some(case) = w["case"].as_u64() {
            for tier in [Tier::Quick, Tier::Thorough] {
                if case < self.cases(tier) {
                    let (b, class, site) = self.decode(tier, case);
                    if let Some(base) = self.space.get(b) {
                        if inject(&base, class, site).map(|i| i.program.text()).as_deref() == w["source"].as_str() {
                            self.run_injected(case, &base, class, site, acc);
                            return;
                        }
                    }
                }
            }
        }
    }
    fn info(&self, tier: Tier) -> Info {
        Info {
            rule: "every 23rd / 2nd program of the quick S family x 17 violation classes x up to 10 admissible sites each (function, position, register chosen by the class): the injected program must draw a diagnostic with the class's error code whose raw range is exactly the offending operand or instruction (known by construction); for the dynamic classes (saved register / sp / ra not restored, temporary read after a call, register never assigned) the convention monitor must first observe the violation on an explored execution. Non-trivial = injected programs of every class but the first".into(),
            bounds: json!({"bases": self.n_bases(tier), "classes": CLASSES, "max_sites": MAX_SITES}),
            assumptions: vec!["single injections into clean bases only; an injection whose violation no explored execution shows is counted, not judged".into()],
            states_counter: "injected_programs",
            transitions_counter: "traces",
            traces_counter: "traces",
            nontrivial_counter: "nontrivial",
            exhaustive: true,
        }
    }
}
