//! C02 — liveness covers every real use and is the least solution of its
//! equations.
//!
//! (b) a reference worklist solver computes the least fixed point of the
//! documented equations over the implementation's edge relation, function
//! table and known-ecall table; the implementation's sets must equal it.
//! (a) every explored execution is cut into activations; every register read
//! must find the register live on the whole path from its defining write.

use crate::c01::{initial_machine, mnemonic_of, n_states, state_index};
use crate::c03::{index_map, node_desc, ptr};
use crate::driver::*;
use crate::exec::*;
use crate::gen::*;
use crate::imp;
use crate::model::*;
use riscv_analysis::cfg::{environment_in_outs, Cfg, CfgNode, RegisterSet};
use riscv_analysis::parser::{InstructionProperties, Register};
use riscv_analysis::passes::DiagnosticLocation;
use serde_json::{json, Value};
use std::collections::HashSet;
use std::rc::Rc;

pub struct C02 {
    quick: KernelSpace,
    thorough: KernelSpace,
}

pub fn mask(s: RegisterSet) -> u32 {
    let mut m = 0u32;
    for r in &s {
        m |= 1 << r.to_num();
    }
    m
}

const fn bits(regs: &[u8]) -> u32 {
    let mut m = 0u32;
    let mut i = 0;
    while i < regs.len() {
        m |= 1 << regs[i];
        i += 1;
    }
    m
}
pub const TEMPS: u32 = bits(&[5, 6, 7, 28, 29, 30, 31]);
pub const ARGS: u32 = bits(&[10, 11, 12, 13, 14, 15, 16, 17]);
pub const SAVED: u32 = bits(&[8, 9, 18, 19, 20, 21, 22, 23, 24, 25, 26, 27]);
pub const CALLER_SAVED: u32 = TEMPS | ARGS;
pub const CALLEE_SAVED: u32 = SAVED | bits(&[1, 2]);
pub const ALL_WRITABLE: u32 = !1u32;

pub fn regs_of(m: u32) -> Vec<&'static str> {
    (0..32u8).filter(|r| m & (1 << r) != 0).map(rn).collect()
}

/// Per-node static facts the equations need, read from the implementation's
/// graph (edges, call sites, known ecalls) but not from its liveness sets.
pub struct NodeInfo {
    pub nexts: Vec<usize>,
    /// registers read / the register written, architecturally (x0 excluded)
    pub gen: u32,
    pub kill: u32,
    pub kind: Kind,
    pub dest: Option<u8>,
}

#[derive(Clone, Copy, Debug, PartialEq, Eq)]
pub enum Kind {
    /// call site (jal ra, f) or jump/branch to a function label: (entry, exit)
    CallSite { entry: usize, exit: usize },
    Ecall { args: u32 },
    Return,
    FunctionEntry,
    Plain,
}

pub fn node_infos(cfg: &Cfg) -> Vec<NodeInfo> {
    let im = index_map(cfg);
    let idx = |n: &Rc<CfgNode>| im.get(&ptr(n)).copied().unwrap_or(usize::MAX);
    let funcs = cfg.functions();
    cfg.nodes()
        .iter()
        .map(|n| {
            let node = n.node();
            let mut reads = 0u32;
            for r in node.reads_from() {
                reads |= 1 << r.get().to_num();
            }
            reads &= !1;
            let dest = node.writes_to().map(|r| r.get().to_num());
            let callee = node
                .calls_to()
                .or_else(|| node.is_some_jump_to_label())
                .and_then(|l| funcs.get(&l).cloned());
            let (kind, gen, kill) = if let Some(f) = callee {
                let kill = if node.calls_to().is_some() {
                    CALLER_SAVED
                } else {
                    dest.map(|d| 1u32 << d).unwrap_or(0) & !1
                };
                (
                    Kind::CallSite {
                        entry: idx(&f.entry()),
                        exit: idx(&f.exit()),
                    },
                    reads,
                    kill,
                )
            } else if node.is_ecall() {
                let args = n
                    .known_ecall()
                    .and_then(environment_in_outs)
                    .map(|(a, _)| mask(a))
                    .unwrap_or(0);
                (Kind::Ecall { args }, 0, CALLER_SAVED)
            } else if node.is_return() {
                let g = if node.is_ureturn() { ALL_WRITABLE } else { CALLEE_SAVED };
                (Kind::Return, g, 0)
            } else if node.is_function_entry() {
                (Kind::FunctionEntry, 0, CALLER_SAVED)
            } else {
                let kill = if node.calls_to().is_some() {
                    CALLER_SAVED
                } else {
                    dest.map(|d| 1u32 << d).unwrap_or(0) & !1
                };
                (Kind::Plain, reads, kill)
            };
            NodeInfo {
                nexts: n.nexts().iter().map(&idx).collect(),
                gen,
                kill,
                kind,
                dest,
            }
        })
        .collect()
}

/// Least fixed point of the documented equations (worklist, from bottom).
pub fn solve(infos: &[NodeInfo]) -> (Vec<u32>, Vec<u32>, u64) {
    let n = infos.len();
    let mut live_in = vec![0u32; n];
    let mut live_out = vec![0u32; n];
    let mut rounds = 0u64;
    loop {
        rounds += 1;
        let mut changed = false;
        for i in 0..n {
            let info = &infos[i];
            let mut out = 0u32;
            for &s in &info.nexts {
                if s < n {
                    out |= live_in[s];
                }
            }
            let new_in = match info.kind {
                Kind::CallSite { entry, exit } => {
                    // live_in[F_exit] accumulates live_out of every call site
                    if exit < n {
                        let e = live_in[exit] | out;
                        if e != live_in[exit] {
                            live_in[exit] = e;
                            changed = true;
                        }
                    }
                    let callee_args = if entry < n { live_out[entry] & ARGS } else { 0 };
                    callee_args | (out & !info.kill) | info.gen
                }
                Kind::Ecall { args } => (out & !CALLER_SAVED) | (1 << 17) | args,
                Kind::Return => live_in[i] | info.gen,
                Kind::FunctionEntry | Kind::Plain => (out & !info.kill) | info.gen,
            };
            // all equations are monotone: accumulating upwards from bottom in any
            // order reaches the least fixed point
            if new_in | live_in[i] != live_in[i] {
                live_in[i] |= new_in;
                changed = true;
            }
            if out | live_out[i] != live_out[i] {
                live_out[i] |= out;
                changed = true;
            }
        }
        if !changed {
            break;
        }
        if rounds > 10_000 {
            break;
        }
    }
    (live_in, live_out, rounds)
}

/// Clause (b): compare with the reference solution and the dead-assignment lint.
pub fn check_minimal(cfg: &Cfg, diags: &[imp::Diag]) -> (u64, Option<(String, String)>) {
    let infos = node_infos(cfg);
    let (rin, rout, _) = solve(&infos);
    let mut compared = 0;
    for (i, n) in cfg.nodes().iter().enumerate() {
        compared += 2;
        let li = mask(n.live_in());
        let lo = mask(n.live_out());
        if li != rin[i] || lo != rout[i] {
            let which = if li != rin[i] { "live_in" } else { "live_out" };
            let (got, want) = if li != rin[i] { (li, rin[i]) } else { (lo, rout[i]) };
            let dir = if got & !want != 0 { "more-than-least-solution" } else { "less-than-least-solution" };
            return (
                compared,
                Some((
                    format!("not-least-solution|{which}|{dir}|{}", mnemonic_of(n)),
                    format!(
                        "{}: {which} = {:?}, least solution = {:?}",
                        node_desc(cfg, n),
                        regs_of(got),
                        regs_of(want)
                    ),
                )),
            );
        }
    }
    // arguments / returns
    for f in cfg.functions().values() {
        compared += 2;
        let im = index_map(cfg);
        let e = im.get(&ptr(&f.entry())).copied().unwrap_or(0);
        let x = im.get(&ptr(&f.exit())).copied().unwrap_or(0);
        if mask(f.arguments()) != rout[e] & ARGS {
            return (compared, Some(("arguments-differ".into(), node_desc(cfg, &f.entry()))));
        }
        if mask(f.returns()) != rin[x] & ARGS {
            return (compared, Some(("returns-differ".into(), node_desc(cfg, &f.exit()))));
        }
    }
    // dead-assignment exactly for non-exempt writes whose destination is not live out
    let dead: HashSet<(usize, usize)> = diags
        .iter()
        .filter(|d| d.code == "dead-assignment")
        .map(|d| (d.start_raw, d.end_raw))
        .collect();
    let mut expected: HashSet<(usize, usize)> = HashSet::new();
    for (i, n) in cfg.nodes().iter().enumerate() {
        let node = n.node();
        if matches!(infos[i].kind, Kind::CallSite { .. }) {
            continue;
        }
        if let Some(rd) = node.writes_to() {
            // the statement only says when a warning may be given; the stack pointer is the one
            // register whose dead writes (releasing main's frame before the exit) are not reported
            // ... and about an instruction that nothing reaches nothing is said but that
            let unreachable = n.prevs().is_empty() && !n.is_any_entry();
            if rout[i] & (1 << rd.get().to_num()) == 0 && !node.can_skip_save_checks() && rd.get().to_num() != 2 && !unreachable {
                let r = rd.range();
                expected.insert((r.start().raw_index(), r.end().raw_index()));
            }
        }
    }
    compared += 1;
    if dead != expected {
        let extra: Vec<_> = dead.difference(&expected).collect();
        let missing: Vec<_> = expected.difference(&dead).collect();
        let dir = if !extra.is_empty() { "spurious" } else { "missing" };
        return (
            compared,
            Some((
                format!("dead-assignment-{dir}"),
                format!("spurious at raw ranges {extra:?}, missing at {missing:?}"),
            )),
        );
    }
    (compared, None)
}

// ------------------------------------------------------------------ clause (a)

#[derive(Clone)]
struct Act {
    /// first node on the path since the defining write where the register was not live
    broken: [Option<usize>; 32],
    /// node index (cfg.nodes()) of the defining write
    def: [usize; 32],
    /// registers read before being written in this activation
    rbw: u32,
    written: u32,
    /// for registers defined by a call step: the record of the returned callee
    def_ret: [Option<usize>; 32],
    entry_node: usize,
}

struct RetRecord {
    exit_node: usize,
    broken: [Option<usize>; 32],
    def: [usize; 32],
    returns: u32,
    exit_live_in: u32,
}

pub struct DynResult {
    pub reads_checked: u64,
    pub stop: String,
    pub failure: Option<(String, Value)>,
}

pub fn dynamic(prog: &Program, cfg: &Cfg, b: &Binding, diags: &[imp::Diag], state: usize) -> DynResult {
    let img = Image::new(prog);
    let im = index_map(cfg);
    let nidx = |n: &Rc<CfgNode>| im.get(&ptr(n)).copied().unwrap_or(usize::MAX);
    let nodes = cfg.nodes();
    let lin: Vec<u32> = nodes.iter().map(|n| mask(n.live_in())).collect();
    let lout: Vec<u32> = nodes.iter().map(|n| mask(n.live_out())).collect();
    let dead: HashSet<(usize, usize)> = diags
        .iter()
        .filter(|d| d.code == "dead-assignment")
        .map(|d| (d.start_raw, d.end_raw))
        .collect();
    let funcs = cfg.functions();
    let mut m = initial_machine(state);
    for (a, bytes, v) in &img.data_init {
        m.store(*a, *bytes, *v);
    }
    let mut env = Env::new(vec![0x1234 + state as u32]);
    let lim = Limits {
        horizon: 256,
        require_callee_convention: false,
    };
    let mut acts: Vec<Act> = Vec::new();
    let mut rets: Vec<RetRecord> = Vec::new();
    let mut last_ret: Option<usize> = None;
    let mut res = DynResult {
        reads_checked: 0,
        stop: String::new(),
        failure: None,
    };
    let mut trace: Vec<usize> = Vec::new();

    // one step of an activation over node `n`
    // `terminal`: the node ends the activation (ret): values leave through its
    // live-in set, it has no successors inside the function
    fn pass(act: &mut Act, n: usize, reads: u32, writes: u32, lin: &[u32], lout: &[u32], terminal: bool) -> Option<(u8, &'static str)> {
        // reads first
        for r in 1..32u8 {
            if reads & (1 << r) != 0 {
                if lin[n] & (1 << r) == 0 {
                    return Some((r, "not-live-in-at-the-read"));
                }
                if act.broken[r as usize].is_some() {
                    return Some((r, "not-live-between-write-and-read"));
                }
                if act.written & (1 << r) == 0 {
                    act.rbw |= 1 << r;
                }
            }
        }
        for r in 1..32u8 {
            let bit = 1u32 << r;
            if writes & bit != 0 {
                act.written |= bit;
                act.def[r as usize] = n;
                act.def_ret[r as usize] = None;
                act.broken[r as usize] = if lout[n] & bit != 0 { None } else { Some(n) };
            } else if act.broken[r as usize].is_none()
                && (lin[n] & bit == 0 || (!terminal && lout[n] & bit == 0))
            {
                act.broken[r as usize] = Some(n);
            }
        }
        None
    }

    let mut cb = |ev: &Event, mach: &Machine, frames: &[Frame]| {
        if res.failure.is_some() {
            return;
        }
        let mut fail = |class: String, r: u8, at: usize, act: &Act, extra: Value, trace: &Vec<usize>| {
            res.failure = Some((
                class,
                json!({"source": prog.text(), "initial_state": state, "executed": trace,
                       "register": rn(r), "read_at": node_desc(cfg, &nodes[at]),
                       "defining_write": nodes.get(act.def[r as usize]).map(|n| node_desc(cfg, n)),
                       "first_node_where_not_live": act.broken[r as usize].and_then(|i| nodes.get(i)).map(|n| node_desc(cfg, n)),
                       "detail": extra}),
            ));
        };
        match ev {
            Event::ProgramStart => {
                let e = nidx(&b.program_entry);
                let mut a = Act {
                    broken: [None; 32],
                    def: [e; 32],
                    rbw: 0,
                    written: 0,
                    def_ret: [None; 32],
                    entry_node: e,
                };
                for r in 1..32usize {
                    if lout[e] & (1 << r) == 0 {
                        a.broken[r] = Some(e);
                    }
                }
                acts.push(a);
            }
            Event::EnterFunction { idx, via_call, .. } => {
                let e = nidx(b.entry_before[*idx].as_ref().expect("entry"));
                if *via_call {
                    let mut a = Act {
                        broken: [None; 32],
                        def: [e; 32],
                        rbw: 0,
                        written: 0,
                        def_ret: [None; 32],
                        entry_node: e,
                    };
                    for r in 1..32usize {
                        if lout[e] & (1 << r) == 0 {
                            a.broken[r] = Some(e);
                        }
                    }
                    acts.push(a);
                } else if let Some(a) = acts.last_mut() {
                    // entered without a call: the entry clobbers the caller-saved registers
                    // (the clobber is the analyzer's model, not a write by this activation's
                    // code: what the activation has really written stays written, so that
                    // 'read before written' means what the machine does)
                    let written = a.written;
                    let _ = pass(a, e, 0, CALLER_SAVED, &lin, &lout, false);
                    a.written = written;
                }
                let _ = frames;
            }
            Event::Before { idx, .. } => trace.push(*idx),
            Event::After { idx, info } => {
                let n = nidx(&b.inst_nodes[*idx]);
                let Some(a) = acts.last_mut() else { return };
                if info.is_call {
                    return; // one step of the caller, taken when the callee returns
                }
                let mut reads = 0u32;
                for r in &info.reads {
                    reads |= 1 << r;
                }
                let mut writes = info.write.map(|r| 1u32 << r).unwrap_or(0);
                if let Some(num) = info.ecall_num {
                    reads = 1 << 17;
                    let known = nodes[n].known_ecall();
                    if known == Some(num as i32) {
                        // what the environment reads: the harness's own transcription of the
                        // service table where it covers the service, else the analyzer's
                        match crate::model::ecall_arguments(num) {
                            Some(args) => {
                                for r in args {
                                    reads |= 1 << r;
                                }
                            }
                            None => {
                                if let Some((args, _)) = environment_in_outs(num as i32) {
                                    reads |= mask(args);
                                }
                            }
                        }
                    }
                    writes = CALLER_SAVED;
                }
                if info.is_ret {
                    reads = 1 << 1;
                }
                // reads of values produced by a returned callee
                for r in 1..32u8 {
                    if reads & (1 << r) != 0 {
                        res.reads_checked += 1;
                        if let Some(ri) = a.def_ret[r as usize] {
                            let rec = &rets[ri];
                            if is_arg(r) {
                                if rec.returns & (1 << r) == 0 {
                                    let act = a.clone();
                                    fail(
                                        format!("C02|caller-reads-register-not-in-returns|{}", mnemonic_of(&nodes[n])),
                                        r, n, &act,
                                        json!({"callee_exit": node_desc(cfg, &nodes[rec.exit_node]), "returns": regs_of(rec.returns)}),
                                        &trace,
                                    );
                                    return;
                                }
                                if rec.exit_live_in & (1 << r) == 0 || rec.broken[r as usize].is_some() {
                                    let mut act = a.clone();
                                    act.def = rec.def;
                                    act.broken = rec.broken;
                                    fail(
                                        format!("C02|return-value-not-live-in-callee|{}", mnemonic_of(&nodes[n])),
                                        r, n, &act,
                                        json!({"callee_exit": node_desc(cfg, &nodes[rec.exit_node])}),
                                        &trace,
                                    );
                                    return;
                                }
                            }
                        }
                        // an 'unused value' warning must not sit on a write that is read
                        let d = a.def[r as usize];
                        if let Some(dn) = nodes.get(d) {
                            if let Some(rd) = dn.node().writes_to() {
                                if rd.get().to_num() == r && a.def_ret[r as usize].is_none() {
                                    let rg = rd.range();
                                    if dead.contains(&(rg.start().raw_index(), rg.end().raw_index()))
                                        && !dn.is_function_entry()
                                        && dn.calls_to().is_none()
                                    {
                                        let act = a.clone();
                                        fail(
                                            format!("C02|unused-value-warning-on-a-value-that-is-read|{}", mnemonic_of(dn)),
                                            r, n, &act, json!(null), &trace,
                                        );
                                        return;
                                    }
                                }
                            }
                        }
                    }
                }
                if let Some((r, why)) = pass(a, n, reads, writes, &lin, &lout, info.is_ret) {
                    let act = a.clone();
                    let kind = if info.ecall_num.is_some() { "ecall" } else if info.is_ret { "ret" } else { "plain" };
                    fail(
                        format!("C02|{why}|{kind}|def:{}", nodes.get(act.def[r as usize]).map(|n| mnemonic_of(n)).unwrap_or_default()),
                        r, n, &act, json!(null), &trace,
                    );
                    return;
                }
                if info.is_ret {
                    last_ret = Some(n);
                }
                let _ = mach;
            }
            Event::Returned { call_idx, .. } => {
                let Some(callee) = acts.pop() else { return };
                let call_n = nidx(&b.inst_nodes[*call_idx]);
                let exit_n = last_ret.unwrap_or(callee.entry_node);
                // which function was called?
                let f = nodes[call_n]
                    .calls_to()
                    .and_then(|l| funcs.get(&l).cloned());
                let (args_decl, returns) = match &f {
                    Some(f) => (mask(f.arguments()), mask(f.returns())),
                    None => (0, 0),
                };
                let dyn_args = callee.rbw & ARGS;
                let Some(a) = acts.last_mut() else { return };
                if dyn_args & !args_decl != 0 {
                    let act = a.clone();
                    let r = (0..32u8).find(|r| (dyn_args & !args_decl) & (1 << r) != 0).unwrap_or(10);
                    fail(
                        "C02|callee-reads-argument-not-in-arguments".to_string(),
                        r, call_n, &act,
                        json!({"arguments": regs_of(args_decl), "read_before_write": regs_of(dyn_args)}),
                        &trace,
                    );
                    return;
                }
                res.reads_checked += dyn_args.count_ones() as u64;
                rets.push(RetRecord {
                    exit_node: exit_n,
                    broken: callee.broken,
                    def: callee.def,
                    returns,
                    exit_live_in: lin.get(exit_n).copied().unwrap_or(0),
                });
                let ri = rets.len() - 1;
                if let Some((r, why)) = pass(a, call_n, dyn_args, CALLER_SAVED | (1 << 1), &lin, &lout, false) {
                    let act = a.clone();
                    fail(
                        format!("C02|{why}|call|def:{}", nodes.get(act.def[r as usize]).map(|n| mnemonic_of(n)).unwrap_or_default()),
                        r, call_n, &act, json!(null), &trace,
                    );
                    return;
                }
                for r in 10..18usize {
                    a.def_ret[r] = Some(ri);
                }
            }
            Event::Stopped(s) => {
                res.stop = match s {
                    Stop::Fault(_) => "fault".into(),
                    o => format!("{o:?}"),
                }
            }
            Event::LeftSubset(w) => res.stop = format!("left:{w}"),
        }
    };
    run_traced(&img, b, &mut m, &mut env, &lim, &mut cb);
    res
}

impl C02 {
    pub fn new() -> C02 {
        C02 {
            quick: KernelSpace::new(KernelBounds::for_tier(Tier::Quick)),
            thorough: KernelSpace::new(KernelBounds::for_tier(Tier::Thorough)),
        }
    }
    fn space(&self, tier: Tier) -> &KernelSpace {
        tier.pick(&self.quick, &self.thorough)
    }
    /// control-flow part first, then the sequence sub-families, then the single-transfer
    /// sub-families (every instruction form as the reader / writer under test)
    fn map_case(&self, tier: Tier, case: u64) -> u64 {
        let sp = self.space(tier);
        let (off, n) = sp.control_part();
        let seq: u64 = sp.parts[2].1 + sp.parts[3].1;
        if case < n {
            off + case
        } else if case < n + seq {
            // seq-main and seq-callee directly precede the control part
            off - seq + (case - n)
        } else {
            case - n - seq
        }
    }

    fn run_program(&self, tier: Tier, case: u64, k: &Kernel, acc: &mut Acc) {
        let text = k.program.text();
        let run = match imp::analyze_text(&text) {
            Ok(r) => r,
            Err(p) => {
                acc.count("analysis_panicked", 1);
                acc.outcome(&format!("panic:{}", p.0.chars().take(50).collect::<String>()), case);
                return;
            }
        };
        let cfg = match &run.cfg {
            Ok(c) => c,
            Err(e) => {
                acc.count("cfg_rejected", 1);
                acc.outcome(&format!("cfg-error:{}", imp::cfg_error_code(e)), case);
                return;
            }
        };
        acc.count("programs_analysed", 1);
        let (cmp, bad) = check_minimal(cfg, &run.diags);
        acc.count("sets_compared", cmp);
        acc.count("traces", 1);
        if let Some((clause, detail)) = bad {
            acc.violation(
                format!("C02|{clause}"),
                case,
                json!({"source": text, "detail": detail, "family": k.family, "case": case}),
            );
            return;
        }
        let b = match bind(cfg, &k.program) {
            Ok(b) => b,
            Err(e) => {
                acc.violation("C02|machinery|binding", case, json!({"source": text, "error": e}));
                return;
            }
        };
        let has_flow = cfg.nodes().iter().any(|n| n.nexts().len() > 1 || n.calls_to().is_some());
        let nonempty = cfg.nodes().iter().any(|n| !n.live_out().is_empty());
        if has_flow && nonempty {
            acc.count("nontrivial", 1);
        }
        for j in 0..n_states(tier) {
            let st = state_index(tier, j);
            let r = dynamic(&k.program, cfg, &b, &run.diags, st);
            acc.count("executions", 1);
            acc.count("traces", 1);
            acc.count("reads_checked", r.reads_checked);
            acc.outcome(&format!("stop:{}", r.stop), case);
            if let Some((class, mut w)) = r.failure {
                w["family"] = json!(k.family);
                w["case"] = json!(case);
                acc.violation(class, case, w);
                return;
            }
        }
    }
}

impl Property for C02 {
    fn id(&self) -> &'static str {
        "C02"
    }
    fn cases(&self, tier: Tier) -> u64 {
        let sp = self.space(tier);
        sp.count()
    }
    fn chunk(&self, _tier: Tier) -> u64 {
        1500
    }
    fn run_case(&self, tier: Tier, case: u64, acc: &mut Acc) {
        acc.count("cases", 1);
        let k = self.space(tier).get(self.map_case(tier, case));
        if case % 9973 == 0 {
            acc.sample(json!({"case": case, "family": k.family, "source": k.program.text()}));
        }
        self.run_program(tier, case, &k, acc);
    }
    fn show(&self, tier: Tier, case: u64) -> String {
        let k = self.space(tier).get(self.map_case(tier, case));
        format!("[{}]\n{}", k.family, k.program.text())
    }
    fn replay(&self, w: &Value, acc: &mut Acc) {
        if let Some(case) = w["case"].as_u64() {
            for tier in [Tier::Quick, Tier::Thorough] {
                if case < self.cases(tier) {
                    let k = self.space(tier).get(self.map_case(tier, case));
                    if Some(k.program.text().as_str()) == w["source"].as_str() {
                        self.run_program(tier, case, &k, acc);
                        return;
                    }
                }
            }
        }
        acc.notes.push("replay: case index does not reproduce the recorded source".into());
    }
    fn info(&self, tier: Tier) -> Info {
        let b = KernelBounds::for_tier(tier);
        Info {
            rule: "every control-flow and sequence kernel program: (b) live_in/live_out of every node, arguments()/returns() and the set of dead-assignment warnings must equal the least fixed point computed by the harness's own worklist solver over the documented equations; (a) every execution from every initial state is cut into activations (a call is one step reading the argument registers its callee read before writing and clobbering ra and the caller-saved registers; an ecall reads a7 and its documented arguments; a ret reads ra and what the caller reads afterwards) and every register read must find the register live at every node from its defining write. Non-trivial = programs with a branch or call and a non-empty live set".into(),
            bounds: json!({"ctl_len": b.ctl_len, "seq_len": b.seq_len, "skeleton_slots": b.skel_slots, "initial_states": n_states(tier), "step_horizon": 256}),
            assumptions: vec![
                "the equations are those written in the comments of liveness.rs / docs/argument-guess.md; edge relation, function table and known-ecall numbers are read from the implementation (checked by C03, C11, C01)".into(),
                "an ecall's argument registers count as read only when the analyzer's constant for a7 equals the dynamic number".into(),
            ],
            states_counter: "programs_analysed",
            transitions_counter: "reads_checked",
            traces_counter: "traces",
            nontrivial_counter: "nontrivial",
            exhaustive: true,
        }
    }
}
