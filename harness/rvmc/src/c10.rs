//! C10 — output is deterministic and free of duplicate diagnostics.
//!
//! Programs: an order-stress family built from the anchors plus the program
//! pool. Schedules: every hash-order schedule within the deviation bound at the
//! rva_verif choice points x every relative order of the file UUIDs; each
//! schedule is replayed on freshly parsed input (new random node UUIDs and hash
//! seeds), and the real binary is run repeatedly with true random seeds.

use crate::cli;
use crate::driver::*;
use crate::imp::{self, Diag, MemReader};
use crate::pool::Pool;
use crate::sched;
use serde_json::{json, Value};
use std::time::Duration;

pub struct C10 {
    stress: Vec<(&'static str, Vec<(String, String)>)>,
    quick: Pool,
    thorough: Pool,
}

fn f(name: &str, text: &str) -> (String, String) {
    (name.to_string(), text.to_string())
}

pub fn stress_family() -> Vec<(&'static str, Vec<(String, String)>)> {
    vec![
        ("two-undefined-labels", vec![f("base.s", "main:\n    beq t0, t1, U1\n    j U2\n")]),
        ("three-undefined-labels", vec![f("base.s", "main:\n    beq t0, t1, Ub\n    jal Ua\n    la t0, Uc\n    j Ub\n")]),
        ("undefined-labels-in-two-files", vec![f("base.s", "main:\n    j U1\n    .include \"b.s\"\n"), f("b.s", "    j U2\n")]),
        ("two-garbage-reads-at-equal-depth", vec![f("base.s", "main:\n    beqz a0, z\n    add a0, t0, t1\n    j e\nz:\n    add a0, t1, t0\ne:\n    li a7, 93\n    ecall\n")]),
        ("three-way-garbage-reads", vec![f("base.s", "main:\n    beqz a0, z\n    bltz a0, y\n    add a1, t0, t1\n    j e\ny:\n    add a1, t1, t0\n    j e\nz:\n    sub a1, t0, t1\ne:\n    mv a0, a1\n    li a7, 93\n    ecall\n")]),
        ("multi-label-entry-overlap", vec![f("base.s", "main:\n    jal f\n    jal g\n    jal h\n    li a7, 10\n    ecall\nh:\n    addi a0, a0, 1\nf:\ng:\n    addi a0, a0, 2\n    ret\n")]),
        ("multi-label-function-overwrites-saved", vec![f("base.s", "main:\n    jal f\n    jal g\n    jal k\n    li a7, 10\n    ecall\nf:\ng:\nk:\n    li s0, 1\n    li s1, 2\n    ret\n")]),
        ("three-returns", vec![f("base.s", "main:\n    jal f\n    li a7, 10\n    ecall\nf:\n    beqz a0, r2\n    bltz a0, r3\n    li s0, 1\n    ret\nr2:\n    li s1, 2\n    ret\nr3:\n    li s2, 3\n    ret\n")]),
        ("entry-with-program-entry-and-jump", vec![f("base.s", "f:\n    addi a0, a0, 1\n    beq a0, a1, done\n    j f\ndone:\n    ret\nmain:\n    jal f\n    li a7, 10\n    ecall\n")]),
        ("data-label-before-function", vec![f("base.s", "main:\n    jal f\n    li a7, 10\n    ecall\n.data\nd1:\nd2: .word 1\n.text\nf:\nf2:\n    li t0, 1\n    ret\n")]),
        ("shared-tail", vec![f("base.s", "main:\n    jal f\n    jal g\n    li a7, 10\n    ecall\nf:\n    li s0, 1\n    j tail\ng:\n    li s1, 2\ntail:\n    li s2, 3\n    ret\n")]),
        ("use-after-call-two-paths", vec![f("base.s", "main:\n    li t0, 1\n    li t1, 2\n    jal f\n    beqz a0, z\n    add a0, t0, t1\n    j e\nz:\n    add a0, t1, t0\ne:\n    li a7, 93\n    ecall\nf:\n    li a0, 1\n    ret\n")]),
        ("callee-saved-two-stores", vec![f("base.s", "main:\n    jal f\n    li a7, 10\n    ecall\nf:\n    beqz a0, z\n    li s0, 1\n    j e\nz:\n    li s0, 2\ne:\n    ret\n")]),
        ("diagnostics-in-two-files", vec![f("base.s", "main:\n    li t0, 1\n    .include \"b.s\"\n    li t1, 2\n    li a7, 10\n    ecall\n"), f("b.s", "    li t2, 3\n    add zero, a0, a1\n")]),
        (
            "diagnostics-in-three-files",
            vec![
                f("base.s", "main:\n    li t0, 1\n    .include \"b.s\"\n    .include \"c.s\"\n    li a7, 10\n    ecall\n"),
                f("b.s", "    li t2, 3\n"),
                f("c.s", "    li t3, 4\n    addi t4, t4, t5\n"),
            ],
        ),
        (
            "nested-includes-with-errors",
            vec![
                f("base.s", "main:\n    .include \"b.s\"\n    li a7, 10\n    ecall\n"),
                f("b.s", "    frobnicate\n    .include \"c.s\"\n    li t2, 3\n"),
                f("c.s", "    li t3, 4\n"),
            ],
        ),
        (
            "garbage-reads-at-equal-depth-in-two-files",
            vec![
                f("base.s", "main:\n    beqz a0, z\n    .include \"cold.s\"\nz:\n    add a0, t1, t0\ne:\n    li a7, 93\n    ecall\n"),
                f("cold.s", "    add a0, t0, t1\n    j e\n"),
            ],
        ),
        (
            "saved-stores-in-two-files",
            vec![
                f("base.s", "main:\n    jal f\n    li a7, 10\n    ecall\nf:\n    beqz a0, z\n    .include \"cold.s\"\nz:\n    li s0, 2\ne:\n    ret\n"),
                f("cold.s", "    li s0, 1\n    j e\n"),
            ],
        ),
        ("duplicate-label-twice", vec![f("base.s", "main:\nA:\n    li a7, 10\nA:\n    ecall\nA:\n")]),
        ("handler-and-call", vec![f("base.s", "main:\n    la t0, h\n    csrrw zero, 5, t0\n    jal h\n    li a7, 10\n    ecall\nh:\nh2:\n    li s0, 1\n    ret\n")]),
        ("two-functions-one-exit-two-labels", vec![f("base.s", "main:\n    jal f\n    jal g\n    li a7, 10\n    ecall\nf:\n    li s0, 1\ng:\ng2:\n    li s1, 1\n    ret\n")]),
        ("loop-with-garbage-reads", vec![f("base.s", "main:\nL:\n    add a0, t0, t1\n    add a1, t1, t0\n    bnez a0, L\n    li a7, 10\n    ecall\n")]),
        ("same-read-reached-from-two-calls-of-one-function", vec![f("base.s", "main:\n    li t0, 5\n    beqz a0, L1\n    jal f\n    j L2\nL1:\n    jal f\nL2:\n    mv a0, t0\n    li a7, 10\n    ecall\nf:\n    li a0, 1\n    ret\n")]),
        ("same-read-reached-from-calls-of-two-functions", vec![f("base.s", "main:\n    li t0, 5\n    beqz a0, L1\n    jal f\n    j L2\nL1:\n    jal g\nL2:\n    add a0, t0, t0\n    li a7, 10\n    ecall\nf:\n    li a0, 1\n    ret\ng:\n    li a0, 2\n    ret\n")]),
        ("entry-owned-by-two-functions-on-first-line", vec![f("base.s", "f:\n    li a0, 1\n    ret\ng:\n    j f\nmain:\n    jal f\n    jal g\n    li a7, 10\n    ecall\n")]),
        ("two-jumps-into-one-function", vec![f("base.s", "main:\n    li a0, 1\n    beqz a0, A\n    j f\nA:\n    j f\nf:\n    li a0, 1\n    ret\nother:\n    jal f\n    li a7, 10\n    ecall\n")]),
        ("garbage-read-in-a-shared-tail", vec![f("base.s", "main:\n    jal f\n    jal g\n    li a7, 10\n    ecall\nf:\n    li a0, 1\n    j tail\ng:\n    li a0, 2\ntail:\n    add a0, a0, t3\n    ret\n")]),
        ("garbage-behind-an-ecall-and-from-function-entry", vec![f("base.s", "main:\n    jal f\n    li a7, 10\n    ecall\nf:\n    beqz a0, skip\n    li a7, 1\n    ecall\nskip:\n    mv a0, t0\n    ret\n")]),
        ("garbage-behind-an-ecall-and-from-program-entry", vec![f("base.s", "main:\n    beqz a0, skip\n    li a7, 1\n    ecall\nskip:\n    mv a0, t0\n    li a7, 10\n    ecall\n")]),
        ("saved-register-garbage-by-two-lints", vec![f("base.s", "f:\n    mv a0, s0\n    ret\nmain:\n    jal f\n    li a7, 10\n    ecall\n")]),
        ("load-from-label-into-zero", vec![f("base.s", ".data\nvar: .word 5\n.text\nmain:\n    lw zero, var\n    li a7, 10\n    ecall\n    lw t0, var\n    sw t0, var, t1\n")]),
        ("label-pseudo-instructions-in-data", vec![f("base.s", ".data\nvar: .word 5\n    lw t0, var\n    sw t0, var, t1\n.text\nmain:\n    li a7, 10\n    ecall\n")]),
        (
            "first-reads-at-equal-offsets-in-two-files",
            vec![f("base.s", "main:\n    beqz a0, L\n    .include \"a.s\"\n    .include \"b.s\"\n"), f("a.s", "    mv a1, t0\n    li a7, 10\n    ecall\n"), f("b.s", "L:  mv a2, t0\n    li a7, 10\n    ecall\n")],
        ),
        (
            "one-file-included-twice",
            vec![
                f("base.s", "main:\n    .include \"lib.s\"\n    add zero, a0, a1\n    .include \"lib.s\"\n    li a7, 10\n    ecall\n"),
                f("lib.s", "    addi t0, t0, t1\n    add zero, a0, a1\n"),
            ],
        ),
        (
            "one-file-included-four-times-many-diagnostics",
            vec![
                f(
                    "base.s",
                    "main:\n    .include \"lib.s\"\n    add zero, a0, a1\n    .include \"lib.s\"\n    add zero, a1, a0\n    .include \"lib.s\"\n    frobnicate t0\n    .include \"lib.s\"\n    li a7, 10\n    ecall\n",
                ),
                f("lib.s", "    addi t0, t0, t1\n    add zero, a0, a1\n    frobnicate t0\n    add zero, a1, a0\n    addi t1, t1, t0\n    add zero, a0, a0\n"),
            ],
        ),
    ]
}

fn permutations(n: usize) -> Vec<Vec<u128>> {
    fn rec(n: usize, cur: &mut Vec<u128>, out: &mut Vec<Vec<u128>>) {
        if cur.len() == n {
            out.push(cur.clone());
            return;
        }
        for k in 0..n as u128 {
            if !cur.contains(&k) {
                cur.push(k);
                rec(n, cur, out);
                cur.pop();
            }
        }
    }
    let mut out = Vec::new();
    rec(n, &mut Vec::new(), &mut out);
    out
}

/// what is compared across schedules: everything a user can see of an item
fn visible(d: &Diag) -> (String, i64, usize, usize, String, String, String, Vec<(i64, usize, usize, String)>) {
    (
        d.code.clone(),
        d.file,
        d.start_raw,
        d.end_raw,
        d.title.clone(),
        d.level.clone(),
        d.description.clone(),
        d.related.clone(),
    )
}

impl C10 {
    pub fn new() -> C10 {
        C10 {
            stress: stress_family(),
            quick: Pool::new(389),
            thorough: Pool::new(29),
        }
    }
    fn pool(&self, tier: Tier) -> &Pool {
        tier.pick(&self.quick, &self.thorough)
    }
    fn files(&self, tier: Tier, case: u64) -> Option<(String, Vec<(String, String)>)> {
        let n = self.stress.len() as u64;
        if case < n {
            let (name, files) = &self.stress[case as usize];
            return Some((format!("stress:{name}"), files.clone()));
        }
        let (p, tag) = self.pool(tier).get(case - n)?;
        Some((format!("pool:{tag}"), vec![f("base.s", &p.text())]))
    }

    fn run_files(&self, tier: Tier, case: u64, name: &str, files: &[(String, String)], acc: &mut Acc) {
        let (bound, full_cap, bound_cap) = tier.pick((1, 96, 160), (2, 2048, 4096));
        let orders = permutations(files.len());
        let mut reference: Option<Vec<_>> = None;
        let mut total_schedules = 0usize;
        let mut distinct: Vec<Vec<_>> = Vec::new();
        let mut cli_schedules: Vec<(Vec<u32>, Vec<u128>)> = Vec::new();
        let kind = name.split(':').nth(1).unwrap_or(name).to_string();
        for order in &orders {
            let mut panicked = None;
            let mut run = |prefix: &[u32]| -> Option<(Vec<Diag>, Vec<riscv_analysis::verif::Decision>)> {
                let mut reader = MemReader::new(files.to_vec());
                reader.uuid_order = order.clone();
                reader.import_limit = 64;
                match imp::run_full(reader, "base.s", prefix) {
                    Ok((d, rep, _, _)) => Some((d, rep.decisions)),
                    Err(p) => {
                        panicked = Some(p.0);
                        None
                    }
                }
            };
            let ex = sched::explore(&mut run, bound, full_cap, bound_cap);
            if let Some(p) = panicked {
                acc.count("analysis_panicked", 1);
                acc.outcome(&format!("panic:{}", p.chars().take(40).collect::<String>()), case);
                return;
            }
            if let Some(d) = &ex.replay_divergence {
                acc.violation("C10|machinery|replay-divergence", case, json!({"files": files, "what": d}));
                return;
            }
            total_schedules += ex.runs.len();
            acc.count("schedules", ex.runs.len() as u64);
            acc.count("choice_points", ex.choice_points_max as u64);
            for (schedule, diags) in &ex.runs {
                let obs: Vec<_> = diags.iter().map(visible).collect();
                // (iii) no duplicates inside one result (a file included twice is two
                // instances of its text: the same item once per instance is not a duplicate)
                for i in 0..obs.len() {
                    for j in (i + 1)..obs.len() {
                        if obs[i] == obs[j] && diags[i].instance == diags[j].instance {
                            acc.violation(
                                format!("C10|duplicate-diagnostic|{}|{kind}", obs[i].0),
                                case,
                                json!({"files": files, "schedule": schedule, "file_uuid_order": order.iter().map(|x| *x as u64).collect::<Vec<_>>(), "item": diags[i], "case": case, "tier": tier.name()}),
                            );
                            return;
                        }
                    }
                }
                // (ii) replay on freshly parsed input: same schedule, new random node ids and hash seeds
                for _ in 0..2 {
                    let mut reader = MemReader::new(files.to_vec());
                    reader.uuid_order = order.clone();
                    reader.import_limit = 64;
                    acc.count("traces", 1);
                    match imp::run_full(reader, "base.s", schedule) {
                        Ok((d2, _, _, _)) => {
                            let o2: Vec<_> = d2.iter().map(visible).collect();
                            if o2 != obs {
                                acc.violation(
                                    format!("C10|same-schedule-different-output|{kind}"),
                                    case,
                                    json!({"files": files, "schedule": schedule, "first": diags, "second": d2, "case": case, "tier": tier.name(),
                                           "what": "an iteration order that the explorer does not control influences the output"}),
                                );
                                return;
                            }
                        }
                        Err(_) => {}
                    }
                }
                // (i) identical across schedules and file orders
                match &reference {
                    None => reference = Some(obs.clone()),
                    Some(r) => {
                        if *r != obs {
                            // narrow class: first differing item
                            let k = r.iter().zip(obs.iter()).position(|(a, b)| a != b).unwrap_or(r.len().min(obs.len()));
                            let what = match (r.get(k), obs.get(k)) {
                                (Some(a), Some(b)) if a.0 != b.0 => format!("order-or-kind:{}-vs-{}", a.0, b.0),
                                (Some(a), Some(b)) if a.1 != b.1 => format!("file-of:{}", a.0),
                                (Some(a), Some(_)) => format!("location-or-text-of:{}", a.0),
                                _ => "length".to_string(),
                            };
                            let cause = if schedule.iter().any(|c| *c != 0) { "hash-order" } else { "file-uuid-order" };
                            acc.violation(
                                format!("C10|output-varies|{cause}|{what}|{kind}"),
                                case,
                                json!({"files": files, "schedule": schedule, "file_uuid_order": order.iter().map(|x| *x as u64).collect::<Vec<_>>(),
                                       "canonical": reference_to_json(r), "this": reference_to_json(&obs), "case": case, "tier": tier.name()}),
                            );
                            return;
                        }
                    }
                }
                if !distinct.contains(&obs) {
                    distinct.push(obs);
                }
                if cli_schedules.len() < 4 && (schedule.is_empty() || schedule.iter().any(|c| *c != 0)) {
                    cli_schedules.push((schedule.clone(), order.clone()));
                }
            }
        }
        acc.count("programs", 1);
        if total_schedules >= 2 || files.len() >= 2 {
            acc.count("nontrivial", 1);
        }
        // the library entry point itself (RVParser::run) on the canonical schedule
        {
            let mut reader = MemReader::new(files.to_vec());
            reader.import_limit = 64;
            if let (Ok((lib, _, _)), Some(r)) = (imp::run_library(reader, "base.s", &[]), &reference) {
                let a: Vec<_> = lib.iter().map(|d| (d.file, d.start_raw, d.end_raw, d.title.clone(), d.level.clone())).collect();
                let b: Vec<_> = r.iter().map(|d| (d.1, d.2, d.3, d.4.clone(), d.5.clone())).collect();
                if a != b {
                    acc.violation(
                        format!("C10|library-entry-point-differs|{kind}"),
                        case,
                        json!({"files": files, "rvparser_run": lib, "case": case, "tier": tier.name()}),
                    );
                    return;
                }
            }
        }
        // the real binary: controlled schedules, then true random seeds
        let do_cli = crate::profile() == "release" && (name.starts_with("stress") || case % 5 == 0);
        if do_cli {
            let c = cli::CliCase {
                name: name.to_string(),
                entries: files.iter().map(|(n, t)| cli::Entry::File(n.clone(), t.as_bytes().to_vec())).collect(),
                base: "base.s".into(),
            };
            let dir = cli::materialize(&c);
            for mode in [&["--json"][..], &["--compact", "--no-color"][..], &["--no-color", "--all-files"][..], &["--compact", "--no-color", "--all-files"][..]] {
                let mut outs: Vec<(String, String)> = Vec::new();
                for (schedule, order) in &cli_schedules {
                    let envs = [
                        ("RVA_VERIF_SCHEDULE", schedule.iter().map(|x| x.to_string()).collect::<Vec<_>>().join(",")),
                        ("RVA_VERIF_FILE_ORDER", order.iter().map(|x| x.to_string()).collect::<Vec<_>>().join(",")),
                    ];
                    if let Ok(o) = cli::run_rva("release", &dir, "base.s", mode, &envs, Duration::from_secs(10)) {
                        acc.count("cli_runs", 1);
                        outs.push((format!("schedule {schedule:?} file order {order:?}"), o.stdout));
                    }
                }
                // true random seeds: the only defence at iteration sites the explorer
                // does not control, hence many runs for the order-stress family
                let random_runs = if name.starts_with("stress") { 8 } else { 3 };
                for _ in 0..random_runs {
                    if let Ok(o) = cli::run_rva("release", &dir, "base.s", mode, &[], Duration::from_secs(10)) {
                        acc.count("cli_runs", 1);
                        outs.push(("random seeds".into(), o.stdout));
                    }
                }
                if let Some((w0, first)) = outs.first() {
                    if let Some((w1, other)) = outs.iter().find(|(_, o)| o != first) {
                        acc.violation(
                            format!("C10|cli-output-varies|{}|{kind}", mode.join("")),
                            case,
                            json!({"files": files, "flags": mode, "run_a": w0, "output_a": first, "run_b": w1, "output_b": other, "case": case, "tier": tier.name()}),
                        );
                        let _ = std::fs::remove_dir_all(&dir);
                        return;
                    }
                }
            }
            let _ = std::fs::remove_dir_all(dir);
        }
        acc.outcome(&format!("deterministic:{}", if name.starts_with("stress") { "stress" } else { "pool" }), case);
    }
}

fn reference_to_json(r: &[(String, i64, usize, usize, String, String, String, Vec<(i64, usize, usize, String)>)]) -> Value {
    json!(r.iter().map(|d| json!({"code": d.0, "file": d.1, "start": d.2, "end": d.3, "title": d.4})).collect::<Vec<_>>())
}

impl Property for C10 {
    fn id(&self) -> &'static str {
        "C10"
    }
    fn cases(&self, tier: Tier) -> u64 {
        self.stress.len() as u64 + self.pool(tier).count()
    }
    fn chunk(&self, _tier: Tier) -> u64 {
        8
    }
    fn run_case(&self, tier: Tier, case: u64, acc: &mut Acc) {
        acc.count("cases", 1);
        let Some((name, files)) = self.files(tier, case) else {
            acc.count("not_a_member", 1);
            return;
        };
        if case < 3 || case % 211 == 0 {
            acc.sample(json!({"case": case, "name": name, "files": files}));
        }
        self.run_files(tier, case, &name, &files, acc);
    }
    fn show(&self, tier: Tier, case: u64) -> String {
        format!("{:?}", self.files(tier, case))
    }
    fn replay(&self, w: &Value, acc: &mut Acc) {
        if let Some(case) = w["case"].as_u64() {
            let tier = if w["tier"].as_str() == Some("thorough") { Tier::Thorough } else { Tier::Quick };
            if case < self.cases(tier) {
                self.run_case(tier, case, acc);
            }
        }
    }
    fn info(&self, tier: Tier) -> Info {
        Info {
            rule: "22 order-stress programs (2-3 undefined labels, reads of never-assigned registers at equal distance, multi-label entries, 2-3 returns, entry reached from the program start and by a jump, data labels before a function label, shared tails, 2-3 files with diagnostics in each) plus the program pool (every 389th / 29th member of the quick S family, clean and injected): every hash-order schedule within the deviation bound (whole tree when small) x every relative order of the file UUIDs must give the same sequence of (code, file, range, title, level, description, related); each explored schedule is replayed twice on freshly parsed input (new random node UUIDs and hash seeds); no two items of a result are equal; RVParser::run gives the same items; the rva binary's --json / --compact / pretty (+- --all-files) output is byte-identical under the explored schedules, all file orders and 8 (stress family) / 3 (pool) runs per mode with true random seeds. Non-trivial = programs with >= 2 schedules or >= 2 files".into(),
            bounds: json!({"stress_programs": self.stress.len(), "pool_programs": self.pool(tier).count(), "deviation_bound": tier.pick(1, 2), "full_tree_below": tier.pick(96, 2048), "fresh_replays_per_schedule": 2, "cli_random_seed_runs": "8 per mode for the stress family, 3 for the pool"}),
            assumptions: vec![
                "hash order is explored exhaustively at the hooked sites (H2-H5) and validated at all other sites only by the fresh-seed replays (sampling, secondary)".into(),
                "the --yaml/--debug dump text (not diagnostics) lists func_entry/func_exit in raw hash order and is not compared".into(),
            ],
            states_counter: "schedules",
            transitions_counter: "traces",
            traces_counter: "traces",
            nontrivial_counter: "nontrivial",
            exhaustive: true,
        }
    }
}
