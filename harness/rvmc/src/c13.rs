//! C13 — diagnostics do not depend on how the same program is written.

use crate::model::*;
use crate::driver::*;
use crate::imp;
use crate::pool::Pool;
use crate::surface::*;
use serde_json::{json, Value};

pub struct C13 {
    quick: Pool,
    thorough: Pool,
    subsets_q: Vec<Vec<Rewrite>>,
    subsets_t: Vec<Vec<Rewrite>>,
}

fn compatible(a: Rewrite, b: Rewrite) -> bool {
    use Rewrite::*;
    !matches!(
        (a, b),
        (NoCommas, DoubleCommas) | (DoubleCommas, NoCommas) | (HexImmediates, BinaryImmediates) | (BinaryImmediates, HexImmediates)
    )
}

fn subsets(max: usize) -> Vec<Vec<Rewrite>> {
    let n = REWRITES.len();
    let mut v = Vec::new();
    for mask in 1u32..(1 << n) {
        if mask.count_ones() as usize > max {
            continue;
        }
        let set: Vec<Rewrite> = (0..n).filter(|i| mask & (1 << i) != 0).map(|i| REWRITES[i]).collect();
        if set.iter().all(|a| set.iter().all(|b| a == b || compatible(*a, *b))) {
            v.push(set);
        }
    }
    v.sort_by_key(|s| s.len());
    v
}

impl C13 {
    pub fn new() -> C13 {
        C13 {
            quick: Pool::new(347),
            thorough: Pool::new(41),
            subsets_q: subsets(2),
            subsets_t: subsets(3),
        }
    }
    fn pool(&self, tier: Tier) -> &Pool {
        tier.pick(&self.quick, &self.thorough)
    }
    fn subsets(&self, tier: Tier) -> &Vec<Vec<Rewrite>> {
        tier.pick(&self.subsets_q, &self.subsets_t)
    }

    fn sig_of(text: &str, r: &Rendered) -> Result<(Vec<(String, i64, String)>, usize), String> {
        match imp::analyze_text(text) {
            Ok(run) => Ok((signature(r, &run.diags), run.diags.len())),
            Err(p) => Err(p.0),
        }
    }
}

/// programs the pool does not contain: data lists that continue on the following lines
pub fn extra_programs() -> Vec<(Program, String)> {
    let mut s = vec![label("main"), inst(Inst::La(T0, "tbl".into())), lw(A0, 4, T0), li(A7, 1), ecall(), li(A7, 10), ecall()];
    s.extend([
        Stmt::Directive(".data".into()),
        label("tbl"),
        Stmt::Directive(".word 1".into()),
        Stmt::Directive("2".into()),
        Stmt::Directive("3, 4".into()),
        label("msg"),
        Stmt::Directive(".asciz \"x\"".into()),
    ]);
    // an interrupt handler: recognised only through the address that `la` leaves in the
    // register written to utvec, so every spelling of that `la` has to leave it there
    let handler = |csr: &str, tail: Stmt| Program {
        stmts: vec![
            label("main"),
            inst(Inst::La(T0, "handler".into())),
            pseudo(format!("csrrw zero, {csr}, t0"), Inst::Csr(CsrOp::Rw, ZERO, 5, T0)),
            li(A7, 10),
            ecall(),
            label("handler"),
            addi(T1, T1, 1),
            li(T2, 3),
            tail,
        ],
    };
    vec![
        (Program { stmts: s }, "data-list-continued-on-following-lines".to_string()),
        (handler("utvec", pseudo("uret", Inst::Jalr(0, 1, 0))), "interrupt-handler-installed-through-utvec".to_string()),
        (handler("5", pseudo("uret", Inst::Jalr(0, 1, 0))), "interrupt-handler-installed-through-csr-5".to_string()),
    ]
}

impl Property for C13 {
    fn id(&self) -> &'static str {
        "C13"
    }
    fn cases(&self, tier: Tier) -> u64 {
        self.pool(tier).count() + extra_programs().len() as u64
    }
    fn chunk(&self, _tier: Tier) -> u64 {
        8
    }
    fn run_case(&self, tier: Tier, case: u64, acc: &mut Acc) {
        acc.count("cases", 1);
        let n_pool = self.pool(tier).count();
        let member = if case >= n_pool { extra_programs().into_iter().nth((case - n_pool) as usize) } else { self.pool(tier).get(case) };
        let Some((prog, tag)) = member else {
            acc.count("not_a_member", 1);
            return;
        };
        let plain = render(&prog, &[]);
        let base = match Self::sig_of(&plain.text, &plain) {
            Ok(s) => s,
            Err(_) => {
                acc.count("analysis_panicked", 1);
                return;
            }
        };
        acc.count("programs", 1);
        if base.1 > 0 {
            acc.count("nontrivial", 1);
        }
        if case % 401 == 0 {
            acc.sample(json!({"case": case, "kind": tag, "plain": plain.text, "rewritten_with": "every subset of <= 2/3 rewrite kinds", "example": render(&prog, &[Rewrite::NumericRegisters, Rewrite::NoCommas]).text}));
        }
        for set in self.subsets(tier) {
            let r = render(&prog, set);
            acc.count("rewritten_programs", 1);
            acc.count("traces", 1);
            let got = match Self::sig_of(&r.text, &r) {
                Ok(s) => s,
                Err(p) => {
                    acc.violation(
                        format!("C13|panic-on-rewritten-program|{:?}", set),
                        case,
                        json!({"case": case, "rewrites": format!("{set:?}"), "source": r.text, "panic": p}),
                    );
                    return;
                }
            };
            if got.0 != base.0 {
                // smallest explanation: first differing entry
                let missing: Vec<_> = base.0.iter().filter(|x| !got.0.contains(x)).collect();
                let extra: Vec<_> = got.0.iter().filter(|x| !base.0.contains(x)).collect();
                let what = if let Some(m) = missing.first() {
                    format!("lost:{}:{}", m.0, m.2)
                } else if let Some(e) = extra.first() {
                    format!("new:{}:{}", e.0, e.2)
                } else {
                    "multiplicity".to_string()
                };
                acc.violation(
                    format!("C13|{:?}|{what}", set),
                    case,
                    json!({"case": case, "kind": tag, "rewrites": format!("{set:?}"), "original": plain.text, "rewritten": r.text,
                           "missing": missing, "extra": extra}),
                );
                return;
            }
        }
        acc.outcome(&format!("invariant:{tag}"), case);
    }
    fn show(&self, tier: Tier, case: u64) -> String {
        match self.pool(tier).get(case) {
            Some((p, t)) => format!("[{t}]\n{}", p.text()),
            None => "not a member".into(),
        }
    }
    fn replay(&self, w: &Value, acc: &mut Acc) {
        if let Some(case) = w["case"].as_u64() {
            for tier in [Tier::Quick, Tier::Thorough] {
                if case < self.cases(tier) {
                    if let Some((p, _)) = self.pool(tier).get(case) {
                        if Some(render(&p, &[]).text.as_str()) == w["original"].as_str() {
                            self.run_case(tier, case, acc);
                            return;
                        }
                    }
                }
            }
        }
    }
    fn info(&self, tier: Tier) -> Info {
        Info {
            rule: "program pool (every 347th / 41st member of the quick S family, clean and with one injected violation of each of the 14 classes) x every compatible subset of <= 2 / <= 3 of 13 rewrite kinds (extra spaces, tabs, commas removed, commas doubled, trailing comments, blank lines, upper-case mnemonics, xN register names, hex / binary immediates, label on the instruction's line, omitted zero offsets, pseudo-instructions replaced by their expansion), each applied at all sites: the multiset of (error code, statement index, operand role) must equal that of the plain rendering. Non-trivial = programs that draw at least one diagnostic".into(),
            bounds: json!({"programs": self.pool(tier).count(), "rewrite_subsets": self.subsets(tier).len()}),
            assumptions: vec!["operand roles are compared semantically (rd / rs1 / rs2 / imm / label / whole), so a pseudo-instruction and its expansion are comparable".into()],
            states_counter: "programs",
            transitions_counter: "rewritten_programs",
            traces_counter: "traces",
            nontrivial_counter: "nontrivial",
            exhaustive: true,
        }
    }
}
