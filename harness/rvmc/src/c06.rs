//! C06 — linting any input terminates without crashing.
//!
//! Parts (all enumerated completely within their bounds):
//!   scale     unit strings / statements repeated many times (stack depth, growth)
//!   strings   all strings over a 20-character alphabet up to length n
//!   tokens    all token sequences up to length k over ~50 tokens
//!   mutate    every single-token deletion / duplication / replacement of seed programs
//!   includes  all include graphs on <= 3 files x reader answers with <= 2 deviations
//!   cli       on-disk include graphs and hostile texts through every output mode
//!   kernel    every control-flow kernel program (loops, calls, frames, returns)
//! Oracle: no panic (caught), no abort / stack overflow / OOM (worker death is
//! attributed to the announced case), bounded work (sweep hook, import bound),
//! wall watchdogs.

use crate::c09;
use crate::cli;
use crate::driver::*;
use crate::gen::{self, SeqSpace};
use crate::imp::{self, Answer, MemReader, FAULTS};
use riscv_analysis::parser::{Lexer, RVParser};
use serde_json::{json, Value};
use std::panic::{catch_unwind, AssertUnwindSafe};
use std::time::Instant;
use uuid::Uuid;

pub const CHARS: [char; 20] = [
    'a', '0', '-', '_', ',', ' ', '\t', '\n', '\r', '(', ')', '.', '#', '"', '\'', '\\', ':', '@',
    '\u{e9}', '\u{3000}',
];

pub fn token_alphabet() -> Vec<&'static str> {
    vec![
        "add", "addi", "lui", "lw", "sw", "beq", "jal", "jalr", "ecall", "ret", "li", "la", "mv",
        "j", "call", "csrrw", "csrrwi", "nop", "fence", "div", "slli", "zero", "ra", "sp", "t0",
        "a0", "a7", "s0", "0", "1", "-1", "4", "32", "2047", "-2048", "2147483647", "-2147483648",
        "0x80000000", "-0x80000000", "4294967295", "L:", "L", "main:", "(", ")", ".data", ".text",
        ".word", ".asciz", ".include", ".macro", ".endmacro", ".align", "\"s\"", "'c'", "#c", ".",
    ]
}

#[derive(Clone, Debug)]
enum Case {
    ScaleParse { unit: String, reps: usize },
    ScaleFull { kind: usize, reps: usize },
    StringFull(Vec<usize>),
    StringParse(Vec<usize>),
    Tokens { idx: Vec<usize>, newline: bool },
    Mutate { seed: usize, tok: usize, op: usize },
    Includes { graph: usize, answers: usize },
    Cli { idx: usize },
    /// a control-flow kernel program (loops, calls, frames) through the whole pipeline
    Kernel { idx: u64 },
}

/// Statement kinds for the full-pipeline scaling part: line i of n.
fn scale_line(kind: usize, i: usize) -> String {
    match kind {
        0 => "    addi t0, t0, 1".into(),
        1 => "    addi sp, sp, -4\n    sw t0, 0(sp)".into(),
        2 => "    jal f".into(),
        3 => format!("    beq t0, t1, L{i}\nL{i}:"),
        4 => format!("L{i}:"),
        5 => "    .word 1".into(),
        6 => "    # comment".into(),
        7 => "    lw t1, 0(sp)".into(),
        8 => "    li a7, 1\n    ecall".into(),
        9 => "    frobnicate t0".into(),
        10 => format!("    j U{i}"),
        11 => format!("    jal g{i}"),
        12 => "    add t0, t1".into(),
        14 => format!("    jal fn{i}"),
        _ => "    .macro".into(),
    }
}
const SCALE_KINDS: usize = 15;
const SCALE_NAMES: [&str; SCALE_KINDS] = [
    "addi", "push", "call-one-function", "branch+label", "labels", "data-word", "comment", "load",
    "ecall", "unknown-mnemonic", "undefined-labels", "call-many-functions", "missing-operand",
    "unterminated-macro", "functions-falling-into-each-other",
];

fn scale_program(kind: usize, n: usize) -> String {
    let mut s = String::from("main:\n");
    for i in 0..n {
        s.push_str(&scale_line(kind, i));
        s.push('\n');
    }
    s.push_str("    li a7, 10\n    ecall\n");
    if kind == 2 {
        s.push_str("f:\n    ret\n");
    }
    if kind == 11 {
        for i in 0..n {
            s.push_str(&format!("g{i}:\n    ret\n"));
        }
    }
    if kind == 14 {
        // n called functions, each of which returns or falls into the next one: function i
        // reaches the returns of the functions i..n
        for i in 0..n {
            s.push_str(&format!("fn{i}:\n    beqz a0, skip{i}\n    ret\nskip{i}:\n"));
        }
        s.push_str("    ret\n");
    }
    s
}

pub struct C06 {
    tokens: Vec<&'static str>,
    seeds: Vec<String>,
    seed_tokens: Vec<Vec<(usize, usize)>>,
    cli_cases: Vec<cli::CliCase>,
    layouts: Vec<Layout>,
    kernels: Vec<gen::KernelSpace>,
}

struct Layout {
    scale_parse: Vec<(String, usize)>,
    scale_full: Vec<(usize, usize)>,
    str_full: SeqSpace,
    str_parse: SeqSpace,
    tok: SeqSpace,
    mutate: u64,
    includes: u64,
    cli: u64,
    kernel: u64,
}

const INCLUDE_REQUESTS: usize = 5;

fn answer_sequences(max_dev: usize) -> Vec<Vec<Answer>> {
    // <= max_dev deviations from Ok over the first INCLUDE_REQUESTS import requests
    let mut v = vec![vec![]];
    for i in 0..INCLUDE_REQUESTS {
        for f in FAULTS {
            let mut a = vec![Answer::Ok; i];
            a.push(f);
            v.push(a);
        }
    }
    if max_dev < 2 {
        return v;
    }
    for i in 0..INCLUDE_REQUESTS {
        for j in (i + 1)..INCLUDE_REQUESTS {
            for f in FAULTS {
                for g in FAULTS {
                    let mut a = vec![Answer::Ok; j + 1];
                    a[i] = f;
                    a[j] = g;
                    v.push(a);
                }
            }
        }
    }
    v
}

/// graph g: file i includes file j iff bit (3*i + j) is set; every file also
/// holds one instruction and one label.
pub fn include_graph(g: usize) -> Vec<(String, String)> {
    (0..3)
        .map(|i| {
            let mut t = String::new();
            t.push_str(&format!("lab{i}:\n    addi t{i}, t{i}, 1\n"));
            for j in 0..3 {
                if g & (1 << (3 * i + j)) != 0 {
                    t.push_str(&format!("    .include \"f{j}.s\"\n"));
                }
            }
            if i == 0 {
                t.push_str("    li a7, 10\n    ecall\n");
            }
            (format!("f{i}.s"), t)
        })
        .collect()
}

pub fn graph_is_cyclic(g: usize) -> bool {
    // reachability from file 0 then cycle detection by DFS
    fn dfs(g: usize, n: usize, stack: &mut Vec<usize>) -> bool {
        if stack.contains(&n) {
            return true;
        }
        stack.push(n);
        for j in 0..3 {
            if g & (1 << (3 * n + j)) != 0 && dfs(g, j, stack) {
                return true;
            }
        }
        stack.pop();
        false
    }
    dfs(g, 0, &mut vec![])
}

impl C06 {
    pub fn new() -> C06 {
        let suts = c09::suts();
        let mut seeds: Vec<String> = Vec::new();
        for (i, _) in suts.iter().enumerate() {
            let l = c09::Layout {
                sut: i,
                position: 1,
                indent: 2,
                trail: 2,
                company: c09::Company::Alone,
                ending: c09::Ending::Lf,
                included: false,
            };
            seeds.push(c09::build(&l, &suts).text);
        }
        for k in 0..gen::N_SKELETONS {
            seeds.push(gen::skeleton(k, &[1, 4, 5, 2]).text());
        }
        let seed_tokens = seeds.iter().map(|s| c09::scan(s)).collect();
        let mut c = C06 {
            tokens: token_alphabet(),
            seeds,
            seed_tokens,
            cli_cases: cli::hostile_cases(),
            layouts: vec![],
            kernels: vec![
                gen::KernelSpace::new(gen::KernelBounds::for_tier(Tier::Quick)),
                gen::KernelSpace::new(gen::KernelBounds::for_tier(Tier::Thorough)),
            ],
        };
        c.layouts = vec![c.make_layout(Tier::Quick), c.make_layout(Tier::Thorough)];
        c
    }

    fn layout(&self, tier: Tier) -> &Layout {
        &self.layouts[tier.pick(0, 1)]
    }

    fn make_layout(&self, tier: Tier) -> Layout {
        let mut scale_parse = Vec::new();
        let reps: &[usize] = tier.pick(&[1000, 20_000], &[1000, 20_000, 200_000]);
        let unit_len = tier.pick(2, 3);
        let sp = SeqSpace {
            a: CHARS.len() as u64,
            min: 1,
            max: unit_len,
        };
        for i in 0..sp.count() {
            let unit: String = sp.decode(i).into_iter().map(|k| CHARS[k]).collect();
            for r in reps {
                scale_parse.push((unit.clone(), *r));
            }
        }
        for t in &self.tokens {
            for r in reps {
                scale_parse.push((format!("{t} "), *r));
                scale_parse.push((format!("{t}\n"), *r));
            }
        }
        let mut scale_full = Vec::new();
        let sizes: &[usize] = tier.pick(&[250, 1000], &[250, 1000, 2000]);
        for k in 0..SCALE_KINDS {
            for n in sizes {
                // (the function family has four lines per repetition)
                scale_full.push((k, if k == 14 { *n / 2 } else { *n }));
            }
        }
        let ntok = self.tokens.len() as u64;
        // quick: the short statement programs only; thorough: the skeletons as well
        let mutate: u64 = self
            .seed_tokens
            .iter()
            .take(self.n_seeds(tier))
            .map(|t| t.len() as u64 * (2 + ntok))
            .sum();
        Layout {
            scale_parse,
            scale_full,
            str_full: SeqSpace {
                a: CHARS.len() as u64,
                min: 0,
                max: tier.pick(3, 4),
            },
            str_parse: SeqSpace {
                a: CHARS.len() as u64,
                min: tier.pick(4, 5),
                max: tier.pick(4, 5),
            },
            tok: SeqSpace {
                a: ntok,
                min: 1,
                max: tier.pick(2, 3),
            },
            mutate,
            includes: 512 * answer_sequences(tier.pick(1, 2)).len() as u64,
            cli: self.cli_cases.len() as u64,
            kernel: self.kernels[tier.pick(0, 1)].control_part().1,
        }
    }

    fn n_seeds(&self, tier: Tier) -> usize {
        tier.pick(c09::suts().len(), self.seeds.len())
    }

    fn heavy_count(&self, tier: Tier) -> u64 {
        let l = self.layout(tier);
        (l.scale_parse.len() + l.scale_full.len()) as u64 + l.cli
    }

    fn decode(&self, tier: Tier, mut c: u64) -> Case {
        let l = self.layout(tier);
        if c < l.scale_full.len() as u64 {
            let (kind, reps) = l.scale_full[c as usize];
            return Case::ScaleFull { kind, reps };
        }
        c -= l.scale_full.len() as u64;
        if c < l.scale_parse.len() as u64 {
            let (unit, reps) = l.scale_parse[c as usize].clone();
            return Case::ScaleParse { unit, reps };
        }
        c -= l.scale_parse.len() as u64;
        if c < l.cli {
            return Case::Cli { idx: c as usize };
        }
        c -= l.cli;
        if c < l.str_full.count() {
            return Case::StringFull(l.str_full.decode(c));
        }
        c -= l.str_full.count();
        if c < l.str_parse.count() {
            return Case::StringParse(l.str_parse.decode(c));
        }
        c -= l.str_parse.count();
        if c < 2 * l.tok.count() {
            return Case::Tokens {
                idx: l.tok.decode(c / 2),
                newline: c % 2 == 1,
            };
        }
        c -= 2 * l.tok.count();
        if c < l.mutate {
            let per = 2 + self.tokens.len() as u64;
            for (seed, toks) in self.seed_tokens.iter().enumerate() {
                let n = toks.len() as u64 * per;
                if c < n {
                    return Case::Mutate {
                        seed,
                        tok: (c / per) as usize,
                        op: (c % per) as usize,
                    };
                }
                c -= n;
            }
        }
        c -= l.mutate;
        if c < l.includes {
            let na = answer_sequences(tier.pick(1, 2)).len() as u64;
            return Case::Includes {
                graph: (c / na) as usize,
                answers: (c % na) as usize,
            };
        }
        c -= l.includes;
        Case::Kernel { idx: c }
    }

    fn total(&self, tier: Tier) -> u64 {
        let l = self.layout(tier);
        (l.scale_parse.len() + l.scale_full.len()) as u64
            + l.cli
            + l.str_full.count()
            + l.str_parse.count()
            + 2 * l.tok.count()
            + l.mutate
            + l.includes
            + l.kernel
    }

    /// the library entry point under catch_unwind; returns number of diagnostics
    fn lint_text(text: &str) -> Result<(usize, Vec<riscv_analysis::verif::PassRun>), String> {
        match imp::run_library(MemReader::single(text), "base.s", &[]) {
            Ok((d, rep, _)) => Ok((d.len(), rep.passes)),
            Err(p) => Err(p.0),
        }
    }

    fn parse_only(text: &str) -> Result<(usize, usize, usize), String> {
        let r = catch_unwind(AssertUnwindSafe(|| {
            let toks = Lexer::new(text.to_string(), Uuid::nil()).count();
            let mut p = RVParser::new(MemReader::single(text));
            let (n, e) = p.parse_from_file("base.s", false);
            (toks, n.len(), e.len())
        }));
        r.map_err(imp::panic_message)
    }

    fn panic_class(msg: &str) -> String {
        // location-free, stable part of a panic message
        let m = msg
            .replace(|c: char| c.is_ascii_digit(), "N")
            .chars()
            .take(70)
            .collect::<String>();
        m
    }

    fn mutate_text(&self, seed: usize, tok: usize, op: usize) -> String {
        let text = &self.seeds[seed];
        let cs: Vec<char> = text.chars().collect();
        let (s, e) = self.seed_tokens[seed][tok];
        let before: String = cs[..s].iter().collect();
        let token: String = cs[s..=e].iter().collect();
        let after: String = cs[e + 1..].iter().collect();
        match op {
            0 => format!("{before}{after}"),
            1 => format!("{before}{token} {token}{after}"),
            k => format!("{before}{}{after}", self.tokens[k - 2]),
        }
    }

    fn run(&self, tier: Tier, case: u64, c: &Case, acc: &mut Acc) {
        let prof = crate::profile();
        match c {
            Case::ScaleParse { unit, reps } => {
                acc.count("scale_parse", 1);
                let text = unit.repeat(*reps);
                let n_chars = text.chars().count();
                let t0 = thread_cpu_secs();
                let r = Self::parse_only(&text);
                let dt = thread_cpu_secs() - t0;
                acc.count("traces", 1);
                match r {
                    Ok((toks, nodes, errs)) => {
                        if toks > n_chars + 2 || nodes + errs > n_chars + 3 {
                            acc.violation(
                                "C06|scale|output-longer-than-input",
                                case,
                                json!({"unit": unit, "reps": reps, "tokens": toks, "nodes": nodes, "errors": errs}),
                            );
                        }
                        // generous linear-to-quadratic envelope in absolute terms
                        let limit = 2.0 + (n_chars as f64) * 60e-6;
                        if dt > limit {
                            acc.violation(
                                format!("C06|scale|parse-too-slow|{}", unit.escape_debug()),
                                case,
                                json!({"unit": unit, "reps": reps, "seconds": dt, "limit": limit, "chars": n_chars}),
                            );
                        }
                        acc.outcome("scale-parse-ok", case);
                    }
                    Err(p) => acc.violation(
                        format!("C06|panic|scale-parse|{}|{prof}", Self::panic_class(&p)),
                        case,
                        json!({"unit": unit, "reps": reps, "panic": p}),
                    ),
                }
            }
            Case::ScaleFull { kind, reps } => {
                acc.count("scale_full", 1);
                let text = scale_program(*kind, *reps);
                let t0 = thread_cpu_secs();
                // the sweep hook would abort at 4*nodes+32; scaling has its own envelope
                let r = Self::lint_text(&text);
                let dt = thread_cpu_secs() - t0;
                acc.count("traces", 1);
                match r {
                    Ok((_, passes)) => {
                        let worst = passes.iter().map(|p| p.sweeps).max().unwrap_or(0);
                        acc.outcome(&format!("scale-full:{}:sweeps<={}", SCALE_NAMES[*kind], (worst + 9) / 10 * 10), case);
                        // cubic envelope anchored at 250 lines = 1 s
                        let k = *reps as f64 / 250.0;
                        let limit = 3.0 + 1.0 * k * k * k;
                        if dt > limit {
                            acc.violation(
                                format!("C06|scale|full-too-slow|{}", SCALE_NAMES[*kind]),
                                case,
                                json!({"kind": SCALE_NAMES[*kind], "lines": reps, "seconds": dt, "limit": limit}),
                            );
                        }
                    }
                    Err(p) => acc.violation(
                        format!("C06|panic|scale-full|{}|{}|{prof}", SCALE_NAMES[*kind], Self::panic_class(&p)),
                        case,
                        json!({"kind": SCALE_NAMES[*kind], "lines": reps, "panic": p}),
                    ),
                }
            }
            Case::StringFull(idx) | Case::StringParse(idx) => {
                let text: String = idx.iter().map(|k| CHARS[*k]).collect();
                let full = matches!(c, Case::StringFull(_));
                acc.count(if full { "strings_full" } else { "strings_parse" }, 1);
                acc.count("traces", 1);
                let r = if full {
                    Self::lint_text(&text).map(|x| x.0)
                } else {
                    Self::parse_only(&text).map(|x| x.0)
                };
                match r {
                    Ok(n) => {
                        if n > 0 {
                            acc.count("nontrivial", 1);
                        }
                    }
                    Err(p) => acc.violation(
                        format!("C06|panic|string|{}|{prof}", Self::panic_class(&p)),
                        case,
                        json!({"text": text, "panic": p, "full_pipeline": full}),
                    ),
                }
            }
            Case::Tokens { idx, newline } => {
                acc.count("token_sequences", 1);
                acc.count("traces", 1);
                let sep = if *newline { "\n" } else { " " };
                let mut text = idx.iter().map(|k| self.tokens[*k]).collect::<Vec<_>>().join(sep);
                text.push('\n');
                match Self::lint_text(&text) {
                    Ok((n, _)) => {
                        if n > 0 {
                            acc.count("nontrivial", 1);
                        }
                    }
                    Err(p) => acc.violation(
                        format!("C06|panic|tokens|{}|{prof}", Self::panic_class(&p)),
                        case,
                        json!({"text": text, "panic": p}),
                    ),
                }
            }
            Case::Mutate { seed, tok, op } => {
                acc.count("mutations", 1);
                acc.count("traces", 1);
                let text = self.mutate_text(*seed, *tok, *op);
                match Self::lint_text(&text) {
                    Ok((n, _)) => {
                        if n > 0 {
                            acc.count("nontrivial", 1);
                        }
                    }
                    Err(p) => acc.violation(
                        format!("C06|panic|mutation|{}|{prof}", Self::panic_class(&p)),
                        case,
                        json!({"text": text, "panic": p}),
                    ),
                }
            }
            Case::Includes { graph, answers } => {
                acc.count("include_cases", 1);
                acc.count("traces", 1);
                let files = include_graph(*graph);
                let ans = answer_sequences(tier.pick(1, 2))[*answers].clone();
                let mut reader = MemReader::new(files.clone());
                reader.answers = ans.clone();
                reader.import_limit = 64;
                let r = imp::run_library(reader, "f0.s", &[]);
                match r {
                    Ok((d, _, reader)) => {
                        if reader.requests > 64 {
                            let kind = if graph & 1 != 0 { "self-include" } else { "cycle" };
                            acc.violation(
                                format!("C06|unbounded-include-expansion|{kind}"),
                                case,
                                json!({"files": files, "answers": ans, "import_requests": reader.requests}),
                            );
                        } else if !d.is_empty() {
                            acc.count("nontrivial", 1);
                        }
                    }
                    Err(p) => acc.violation(
                        format!("C06|panic|includes|{}|{prof}", Self::panic_class(&p.0)),
                        case,
                        json!({"files": files, "answers": ans, "panic": p.0}),
                    ),
                }
            }
            Case::Kernel { idx } => {
                acc.count("kernel_programs", 1);
                acc.count("traces", 1);
                let ks = &self.kernels[tier.pick(0, 1)];
                let k = ks.get(ks.control_part().0 + idx);
                let text = k.program.text();
                match Self::lint_text(&text) {
                    Ok(_) => {
                        acc.count("nontrivial", 1);
                    }
                    Err(p) => {
                        let class = if p.contains("sweep limit") {
                            let pass = p.split("exceeded in ").nth(1).and_then(|x| x.split(':').next()).unwrap_or("?").to_string();
                            format!("C06|pass-does-not-converge|{pass}")
                        } else {
                            format!("C06|panic|kernel-program|{}|{prof}", Self::panic_class(&p))
                        };
                        acc.violation(class, case, json!({"text": text, "panic": p, "family": k.family}));
                    }
                }
            }
            Case::Cli { idx } => {
                acc.count("cli_cases", 1);
                if prof != "release" {
                    // the binary is a separate build; run it once, from the release harness
                    return;
                }
                let cc = &self.cli_cases[*idx];
                for r in cli::run_all_modes(cc, case) {
                    acc.count("cli_runs", 1);
                    acc.count("traces", 1);
                    if let Some((class, w)) = r {
                        acc.violation(class, case, w);
                    }
                }
            }
        }
        let _ = tier;
    }
}

impl Property for C06 {
    fn id(&self) -> &'static str {
        "C06"
    }
    fn cases(&self, tier: Tier) -> u64 {
        self.total(tier)
    }
    fn chunk(&self, _tier: Tier) -> u64 {
        4000
    }
    fn chunk_at(&self, tier: Tier, lo: u64) -> u64 {
        if lo < self.heavy_count(tier) {
            6
        } else {
            4000
        }
    }
    fn hang_secs(&self, _tier: Tier) -> u64 {
        120
    }
    fn mem_limit(&self, _tier: Tier) -> u64 {
        6 << 30
    }
    fn profiles(&self, _tier: Tier) -> Vec<&'static str> {
        vec!["release", "checked"]
    }
    fn run_case(&self, tier: Tier, case: u64, acc: &mut Acc) {
        acc.count("cases", 1);
        let t0 = Instant::now();
        let c = self.decode(tier, case);
        let part = match &c {
            Case::ScaleParse { .. } => "us_scale_parse",
            Case::ScaleFull { .. } => "us_scale_full",
            Case::StringFull(_) => "us_strings_full",
            Case::StringParse(_) => "us_strings_parse",
            Case::Tokens { .. } => "us_tokens",
            Case::Mutate { .. } => "us_mutate",
            Case::Includes { .. } => "us_includes",
            Case::Cli { .. } => "us_cli",
            Case::Kernel { .. } => "us_kernel",
        };
        if case % 40009 == 0 || (case < 40 && case % 13 == 0) {
            acc.sample(json!({"case": case, "what": format!("{c:?}").chars().take(300).collect::<String>()}));
        }
        self.run(tier, case, &c, acc);
        acc.count(part, t0.elapsed().as_micros() as u64);
    }
    fn on_worker_death(&self, tier: Tier, case: u64, how: &str, acc: &mut Acc) {
        let c = self.decode(tier, case);
        let (part, detail) = match &c {
            Case::ScaleParse { unit, reps } => (format!("scale-parse|{}", unit.escape_debug()), json!({"unit": unit, "reps": reps})),
            Case::ScaleFull { kind, reps } => (format!("scale-full|{}", SCALE_NAMES[*kind]), json!({"kind": SCALE_NAMES[*kind], "lines": reps})),
            other => ("small-input".to_string(), json!(format!("{other:?}").chars().take(400).collect::<String>())),
        };
        acc.violation(
            format!("C06|death|{part}|{how}"),
            case,
            json!({"case": case, "how": how, "input": detail}),
        );
    }
    fn show(&self, tier: Tier, case: u64) -> String {
        format!("{:?}", self.decode(tier, case)).chars().take(2000).collect()
    }
    fn replay(&self, w: &Value, acc: &mut Acc) {
        if let Some(case) = w["case"].as_u64() {
            let c = self.decode(Tier::Quick, case);
            self.run(Tier::Quick, case, &c, acc);
        } else if let Some(t) = w["text"].as_str() {
            if let Err(p) = Self::lint_text(t) {
                acc.violation(format!("C06|panic|replay|{}", Self::panic_class(&p)), 0, json!({"text": t, "panic": p}));
            }
        }
    }
    fn info(&self, tier: Tier) -> Info {
        let l = self.layout(tier);
        Info {
            rule: "scale: every string of length <= 2/3 over the 20-character alphabet and every token, repeated 1000 / 20000 (/ 200000) times through lexer+parser, and 14 one-line statement kinds repeated 250 / 1000 (/ 2000) times through the whole pipeline; strings: all strings up to length 3/4 through RVParser::run and length 4/5 through lexer+parser; tokens: all sequences up to length 2/3 over 57 tokens (space- and newline-joined) through RVParser::run; mutate: every single-token deletion, duplication and replacement by each alphabet token of 17/27 seed programs; includes: all 512 include graphs on 3 files x all reader-answer sequences with <= 1/2 faults; cli: on-disk include graphs and hostile texts through every output mode of the rva binary (release and dev builds); kernel: every control-flow kernel program and skeleton (all sequences over 12/14 control symbols up to length 4/5: loops, pushes, calls, returns) through RVParser::run with the sweep bound armed. Everything in a release and an overflow-checked build. Non-trivial = inputs that produced at least one token / diagnostic".into(),
            bounds: json!({"scale_parse_cases": l.scale_parse.len(), "scale_full_cases": l.scale_full.len(), "strings_full_len": l.str_full.max, "strings_parse_len": l.str_parse.max, "token_seq_len": l.tok.max, "mutations": l.mutate, "include_cases": l.includes, "cli_cases": l.cli, "kernel_programs": l.kernel, "hang_watchdog_s": 120, "worker_memory_limit": "6 GiB"}),
            assumptions: vec![
                "termination is checked by work bounds (pass sweeps <= 4*nodes+32 via hook H6, <= 64 import requests for 3 files) and wall watchdogs; 'small polynomial' is checked as absolute envelopes on three scales, not proved".into(),
            ],
            states_counter: "cases",
            transitions_counter: "traces",
            traces_counter: "traces",
            nontrivial_counter: "nontrivial",
            exhaustive: true,
        }
    }
}
