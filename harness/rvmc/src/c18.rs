//! C18 — all output channels report the same diagnostics, well-formed and ordered.
//!
//! Every program goes through the rva binary in all 16 combinations of
//! --json / --compact / --no-color / --all-files and through RVParser::run;
//! small parsers for the three output formats extract (severity, title, file,
//! line, columns) and the channels are compared for equal file selection.

use crate::c07;
use crate::c10::stress_family;
use crate::cli;
use crate::driver::*;
use crate::imp::{self, MemReader};
use crate::loc::Locator;
use crate::pool::Pool;
use serde_json::{json, Value};
use std::collections::BTreeMap;
use std::time::Duration;

#[derive(Clone, Debug, PartialEq, Eq, PartialOrd, Ord)]
pub struct Item {
    pub severity: String,
    pub title: String,
    pub file: String,
    pub line: usize,      // 1-based
    pub start_col: usize, // 1-based
    pub end_col: usize,   // 1-based
}

fn strip_ansi(s: &str) -> String {
    let mut out = String::new();
    let mut it = s.chars().peekable();
    while let Some(c) = it.next() {
        if c == '\u{1b}' {
            // ESC [ ... letter
            if it.peek() == Some(&'[') {
                it.next();
                for d in it.by_ref() {
                    if d.is_ascii_alphabetic() {
                        break;
                    }
                }
            }
        } else {
            out.push(c);
        }
    }
    out
}

fn basename(p: &str) -> String {
    p.rsplit('/').next().unwrap_or(p).to_string()
}

const LEVELS: [&str; 4] = ["Error", "Warning", "Info", "Hint"];

/// compact: `{level}: {title} in {path} at {line} {c1}:{c2}`
pub fn parse_compact(out: &str) -> Result<(Vec<Item>, Option<usize>), String> {
    let mut items = Vec::new();
    let mut counter = None;
    for l in out.lines() {
        if l.contains("found in other files") {
            counter = l.split_whitespace().next().and_then(|n| n.parse().ok());
            continue;
        }
        if l.is_empty() {
            continue;
        }
        let (sev, rest) = l.split_once(": ").ok_or_else(|| format!("compact line without severity: {l}"))?;
        if !LEVELS.contains(&sev) {
            return Err(format!("unknown severity in: {l}"));
        }
        let at = rest.rfind(" at ").ok_or_else(|| format!("compact line without position: {l}"))?;
        let (head, pos) = rest.split_at(at);
        let pos = &pos[4..];
        let inn = head.rfind(" in ").ok_or_else(|| format!("compact line without file: {l}"))?;
        let (title, file) = head.split_at(inn);
        let mut p = pos.split_whitespace();
        let line: usize = p.next().and_then(|x| x.parse().ok()).ok_or_else(|| format!("bad line in: {l}"))?;
        let cols = p.next().ok_or_else(|| format!("no columns in: {l}"))?;
        let (c1, c2) = cols.split_once(':').ok_or_else(|| format!("bad columns in: {l}"))?;
        items.push(Item {
            severity: sev.to_string(),
            title: title.to_string(),
            file: basename(&file[4..]),
            line,
            start_col: c1.parse().map_err(|_| format!("bad column in: {l}"))?,
            end_col: c2.parse().map_err(|_| format!("bad column in: {l}"))?,
        });
    }
    Ok((items, counter))
}

pub struct PrettyItem {
    pub item: Item,
    /// (printed line number, printed text, caret offset inside the text, caret length)
    pub excerpt: Option<(usize, String, usize, usize)>,
}

/// pretty: `{level}: {title}` / ` in file: {path}` / `  |` / ` N | text` / `  | ^^^` / blank
pub fn parse_pretty(out: &str) -> Result<(Vec<PrettyItem>, Option<usize>), String> {
    let lines: Vec<&str> = out.lines().collect();
    let mut i = 0;
    let mut items = Vec::new();
    let mut counter = None;
    while i < lines.len() {
        let l = lines[i];
        if l.contains("found in other files") {
            counter = l.split_whitespace().next().and_then(|n| n.parse().ok());
            i += 1;
            continue;
        }
        if l.is_empty() {
            i += 1;
            continue;
        }
        let (sev, title) = l.split_once(": ").ok_or_else(|| format!("pretty block without severity: {l}"))?;
        if !LEVELS.contains(&sev) {
            return Err(format!("unknown severity in: {l}"));
        }
        let f = lines.get(i + 1).ok_or("pretty block without file line")?;
        let file = f.strip_prefix(" in file: ").ok_or_else(|| format!("bad file line: {f}"))?;
        i += 2;
        let mut excerpt = None;
        if lines.get(i).map(|x| x.trim_end().ends_with('|') && x.trim() == "|").unwrap_or(false) {
            // region
            let code = lines.get(i + 1).ok_or("truncated region")?;
            let caret = lines.get(i + 2).ok_or("truncated region")?;
            let (num, text) = code.trim_start().split_once(" | ").or_else(|| code.trim_start().split_once(" |")).ok_or_else(|| format!("bad code line: {code}"))?;
            let n: usize = num.trim().parse().map_err(|_| format!("bad line number: {code}"))?;
            let (_, marks) = caret.split_once(" | ").or_else(|| caret.split_once(" |")).ok_or_else(|| format!("bad caret line: {caret}"))?;
            // the marker is measured in absolute screen columns: the excerpt starts behind
            // the bar of its own line, the marker must stand under it on the next line
            let bar_col = |x: &str| x.chars().position(|c| c == '|');
            let (b0, b1, b2) = (bar_col(lines[i]), bar_col(code), bar_col(caret));
            if b0 != b1 || b1 != b2 {
                return Err(format!("the bars of a source excerpt are not in one column: {:?} / {:?} / {:?}", lines[i], code, caret));
            }
            let text_col = b1.unwrap_or(0) + 2;
            if let Some(bad) = caret.chars().skip(text_col).take_while(|c| *c != '^').find(|c| *c != ' ' && *c != '\t') {
                return Err(format!("the marker line contains {bad:?} in front of the marker: {caret:?}"));
            }
            let len = marks.chars().filter(|c| *c == '^').count();
            let off = match caret.chars().position(|c| c == '^') {
                Some(c) if c >= text_col => c - text_col,
                Some(_) => return Err(format!("marker left of the excerpt: {caret:?}")),
                None => marks.chars().count(),
            };
            // in front of the marker a tab stands exactly where the line above has one, so that
            // marker and text share their screen column whatever the tab width
            {
                let above: Vec<char> = code.chars().collect();
                let below: Vec<char> = caret.chars().collect();
                for k in 0..off {
                    let a = above.get(text_col + k) == Some(&'\t');
                    let b = below.get(text_col + k) == Some(&'\t');
                    if a != b {
                        return Err(format!("the padding in front of the marker does not repeat the tabs of the line above (screen columns differ): {code:?} / {caret:?}"));
                    }
                }
            }
            excerpt = Some((n, text.to_string(), off, len));
            i += 3;
        }
        items.push(PrettyItem {
            item: Item {
                severity: sev.to_string(),
                title: title.to_string(),
                file: basename(file),
                line: 0,
                start_col: 0,
                end_col: 0,
            },
            excerpt,
        });
    }
    Ok((items, counter))
}

pub fn parse_json(out: &str) -> Result<Vec<(Item, usize, usize)>, String> {
    let v: Value = serde_json::from_str(out).map_err(|e| format!("not valid JSON: {e}"))?;
    let arr = v.get("diagnostics").and_then(|d| d.as_array()).ok_or("no 'diagnostics' array")?;
    if v.as_object().map(|o| o.len()) != Some(1) {
        return Err("unexpected top-level keys".into());
    }
    let mut items = Vec::new();
    for d in arr {
        let o = d.as_object().ok_or("diagnostic is not an object")?;
        for k in ["file", "title", "description", "level", "range"] {
            if !o.contains_key(k) {
                return Err(format!("diagnostic without '{k}'"));
            }
        }
        if o.len() != 5 {
            return Err("diagnostic with unexpected keys".into());
        }
        let pos = |which: &str, f: &str| -> Result<usize, String> {
            d["range"][which][f].as_u64().map(|x| x as usize).ok_or_else(|| format!("range.{which}.{f} is not a number"))
        };
        let title = d["title"].as_str().ok_or("title is not a string")?;
        let _ = d["description"].as_str().ok_or("description is not a string")?;
        let level = d["level"].as_str().ok_or("level is not a string")?;
        if !LEVELS.contains(&level) {
            return Err(format!("unknown level {level}"));
        }
        let file = match &d["file"] {
            Value::Null => String::new(),
            Value::String(s) => basename(s),
            _ => return Err("file is neither string nor null".into()),
        };
        items.push((
            Item {
                severity: level.to_string(),
                title: title.to_string(),
                file,
                line: pos("start", "line")? + 1,
                start_col: pos("start", "column")? + 1,
                end_col: pos("end", "column")? + 1,
            },
            pos("start", "raw")?,
            pos("end", "raw")?,
        ));
    }
    Ok(items)
}

pub struct C18 {
    quick: Pool,
    thorough: Pool,
    fixed: Vec<(String, Vec<(String, String)>)>,
}

impl C18 {
    pub fn new() -> C18 {
        let mut fixed: Vec<(String, Vec<(String, String)>)> = stress_family()
            .into_iter()
            .map(|(n, f)| (format!("stress:{n}"), f))
            .collect();
        // malformed files: one of each bad line kind between two good lines
        for k in c07::KINDS.iter().filter(|k| k.is_bad()) {
            let text = format!("{}\n{}\n{}\n    li a7, 10\n    ecall\n", c07::LineKind::Inst.text(0), k.text(1), c07::LineKind::LabelInst.text(2));
            fixed.push((format!("malformed:{}", k.name()), vec![("base.s".into(), text)]));
        }
        // the same with CRLF line endings (diagnostics at the end of a line stand at the CR)
        for k in [c07::LineKind::BadMissingOperand, c07::LineKind::BadOperandKind, c07::LineKind::BadString] {
            let text = format!("{}\r\n{}\r\n{}\r\n    li a7, 10\r\n    ecall\r\n", c07::LineKind::Inst.text(0), k.text(1), c07::LineKind::LabelInst.text(2));
            fixed.push((format!("malformed-crlf:{}", k.name()), vec![("base.s".into(), text)]));
        }
        // CRLF with a comment behind the broken statement (the comment is the unexpected token)
        fixed.push((
            "malformed-crlf:comment-as-unexpected-token".into(),
            vec![("base.s".into(), "main:\r\n    li a0 # c\r\n    addi a0, a0, t1 # d\r\n    li a7, 10\r\n    ecall\r\n".to_string())],
        ));
        // an include path with an escape in it (a Windows-style path): the file does not exist
        fixed.push((
            "malformed:include-path-with-escape".into(),
            vec![("base.s".into(), "main:\n    .include \"lib\\new_util.s\"\n    add zero, a0, a1\n    li a7, 10\n    ecall\n".to_string())],
        ));
        // a comment with control characters in it as the unexpected token: the title quotes it
        fixed.push((
            "malformed:comment-with-control-characters".into(),
            vec![("base.s".into(), "main:\n    jal # target?\rError: forged \u{7}\tx\n    li a7, 10\n    ecall\n".to_string())],
        ));
        // quotes and a backslash in the token a title quotes: shown as written
        fixed.push((
            "malformed:comment-with-quotes".into(),
            vec![("base.s".into(), "main:\n    jal # don't forget \"t2\" \\ ok\n    li a7, 10\n    ecall\n".to_string())],
        ));
        // a line that starts with white space the lexer does not know
        for (n, ch) in [("no-break-space", '\u{a0}'), ("form-feed", '\u{c}'), ("ideographic-space", '\u{3000}')] {
            let text = format!("main:\n{ch}   li a0, 1\n    add zero, a0, a1\n    li a7, 10\n    ecall\n");
            fixed.push((format!("malformed:leading-{n}"), vec![("base.s".into(), text)]));
        }
        // analysis failures (C16's classes)
        for (n, t) in [
            ("label-without-instruction", "main:\n    j A\nA:\n"),
            ("function-without-return", "main:\n    jal f\n    li a7, 10\n    ecall\nf:\n    j f\n"),
            ("duplicate-label", "A:\n    li a7, 10\nA:\n    ecall\n"),
            ("tab-indented", "main:\n\tadd zero, a0, a1\n\t\tli t0, 1\n \t li a7, 10\n\tecall\n"),
        ] {
            fixed.push((format!("failure:{n}"), vec![("base.s".into(), t.to_string())]));
        }
        C18 {
            quick: Pool::new(487),
            thorough: Pool::new(31),
            fixed,
        }
    }
    fn pool(&self, tier: Tier) -> &Pool {
        tier.pick(&self.quick, &self.thorough)
    }
    fn files(&self, tier: Tier, case: u64) -> Option<(String, Vec<(String, String)>)> {
        let n = self.fixed.len() as u64;
        if case < n {
            return Some(self.fixed[case as usize].clone());
        }
        let (p, tag) = self.pool(tier).get(case - n)?;
        Some((format!("pool:{tag}"), vec![("base.s".into(), p.text())]))
    }

    fn run_files(&self, tier: Tier, case: u64, name: &str, files: &[(String, String)], acc: &mut Acc) {
        let kind = name.split(':').next().unwrap_or("").to_string();
        let witness = |what: &str, d: Value| json!({"case": case, "tier": tier.name(), "name": name, "files": files, "what": what, "detail": d});
        // ---- the library channel
        let mut reader = MemReader::new(files.to_vec());
        reader.import_limit = 64;
        let Ok((lib, _, reader)) = imp::run_library(reader, "base.s", &[]) else {
            acc.count("analysis_panicked", 1);
            return;
        };
        let lib_items: Vec<Item> = lib
            .iter()
            .map(|d| Item {
                severity: d.level.clone(),
                title: d.title.clone(),
                file: if d.file < 0 { String::new() } else { files[d.file as usize].0.clone() },
                line: d.start_line + 1,
                start_col: d.start_col + 1,
                end_col: d.end_col + 1,
            })
            .collect();
        let _ = reader;
        // severity is a function of the error code; titles are non-empty
        let mut r2 = MemReader::new(files.to_vec());
        r2.import_limit = 64;
        if let Ok((coded, _, _, _)) = imp::run_full(r2, "base.s", &[]) {
            let mut sev: BTreeMap<String, String> = BTreeMap::new();
            for d in &coded {
                if let Some(c) = d.title.chars().find(|c| c.is_control()) {
                    acc.violation(
                        format!("C18|title-with-control-character|{}", d.code),
                        case,
                        witness("a title is one printable line in every channel; this one contains a control character", json!({"diagnostic": d, "character": format!("{c:?}")})),
                    );
                    return;
                }
                // a title that quotes a comment shows the comment as it is written (only
                // control characters are escaped)
                if d.code == "parse-expected" && d.file >= 0 {
                    if let Some((_, quoted)) = d.title.split_once("found COMMENT") {
                        let text: String = files[d.file as usize].1.chars().skip(d.start_raw + 1).take(d.end_raw.saturating_sub(d.start_raw)).collect();
                        if !text.chars().any(|c| c.is_control()) && quoted != text {
                            acc.violation(
                                "C18|title-misquotes-the-token|parse-expected",
                                case,
                                witness("the title does not show the comment as it is written", json!({"diagnostic": d, "comment": text})),
                            );
                            return;
                        }
                    }
                }
                if d.title.trim().is_empty() {
                    acc.violation(format!("C18|empty-title|{}", d.code), case, witness("a diagnostic has an empty title", json!(d)));
                    return;
                }
                if let Some(prev) = sev.insert(d.code.clone(), d.level.clone()) {
                    if prev != d.level {
                        acc.violation(format!("C18|severity-not-fixed|{}", d.code), case, witness("one kind, two severities", json!(d)));
                        return;
                    }
                }
                acc.outcome(&format!("severity:{}={}", d.code, d.level), case);
            }
        }
        // sorted by position within each file
        for w in lib_items.windows(2) {
            if w[0].file == w[1].file && (w[0].line, w[0].start_col) > (w[1].line, w[1].start_col) {
                acc.violation(format!("C18|not-sorted-within-file|{kind}"), case, witness("items of one file are not in non-decreasing position", json!({"first": format!("{:?}", w[0]), "second": format!("{:?}", w[1])})));
                return;
            }
        }
        acc.count("programs", 1);
        if !lib_items.is_empty() {
            acc.count("nontrivial", 1);
        }
        // ---- the binary in all 16 configurations
        let c = cli::CliCase {
            name: name.to_string(),
            entries: files.iter().map(|(n, t)| cli::Entry::File(n.clone(), t.as_bytes().to_vec())).collect(),
            base: "base.s".into(),
        };
        let dir = cli::materialize(&c);
        let locs: BTreeMap<String, Locator> = files.iter().map(|(n, t)| (n.clone(), Locator::new(t))).collect();
        let base_only = |v: &[Item]| -> Vec<Item> { v.iter().filter(|i| i.file == "base.s").cloned().collect() };
        let mut result: Option<(String, Value)> = None;
        'configs: for mask in 0..16u32 {
            let mut flags: Vec<&str> = Vec::new();
            if mask & 1 != 0 {
                flags.push("--json");
            }
            if mask & 2 != 0 {
                flags.push("--compact");
            }
            if mask & 4 != 0 {
                flags.push("--no-color");
            }
            if mask & 8 != 0 {
                flags.push("--all-files");
            }
            let envs = [("RVA_VERIF_SCHEDULE", String::new()), ("CLICOLOR_FORCE", "1".to_string())];
            let o = match cli::run_rva("release", &dir, "base.s", &flags, &envs, Duration::from_secs(10)) {
                Ok(o) => o,
                Err(e) => {
                    result = Some(("C18|machinery|cannot-run-rva".into(), json!(e)));
                    break;
                }
            };
            acc.count("cli_runs", 1);
            acc.count("traces", 1);
            if o.timed_out || o.code != Some(0) {
                result = Some((format!("C18|cli-failed|{kind}"), witness("the binary did not finish normally", json!({"flags": flags, "code": o.code, "stderr": o.stderr.chars().take(300).collect::<String>()}))));
                break;
            }
            let json_mode = mask & 1 != 0;
            let all = mask & 8 != 0;
            let expected: Vec<Item> = if all || json_mode { lib_items.clone() } else { base_only(&lib_items) };
            let hidden = lib_items.len() - base_only(&lib_items).len();
            if !json_mode && mask & 4 != 0 && o.stdout.contains('\u{1b}') {
                result = Some((format!("C18|color-codes-despite-no-color|{kind}"), witness("--no-color output contains escape sequences", json!({"flags": flags}))));
                break;
            }
            let text = strip_ansi(&o.stdout);
            if json_mode {
                match parse_json(&text) {
                    Err(e) => {
                        result = Some((format!("C18|json-malformed|{kind}"), witness("the JSON output is not of the documented shape", json!({"flags": flags, "error": e, "stdout": text.chars().take(500).collect::<String>()}))));
                        break;
                    }
                    Ok(items) => {
                        let got: Vec<Item> = items.iter().map(|x| x.0.clone()).collect();
                        if got != expected {
                            let k = got.iter().zip(expected.iter()).position(|(a, b)| a != b).unwrap_or(got.len().min(expected.len()));
                            result = Some((
                                format!("C18|json-differs-from-library|{kind}"),
                                witness("JSON items differ from RVParser::run", json!({"flags": flags, "index": k, "json": format!("{:?}", got.get(k)), "library": format!("{:?}", expected.get(k))})),
                            ));
                            break;
                        }
                        // raw offsets agree with line/column
                        for (it, s, _e) in &items {
                            if let Some(loc) = locs.get(&it.file) {
                                if *s < loc.len() && (loc.line_of(*s) + 1 != it.line || loc.col_of(*s) + 1 != it.start_col) {
                                    result = Some((format!("C18|json-raw-offset-inconsistent|{kind}"), witness("raw offset and line/column disagree", json!({"item": format!("{it:?}"), "raw": s}))));
                                    break 'configs;
                                }
                            }
                        }
                    }
                }
            } else if mask & 2 != 0 {
                match parse_compact(&text) {
                    Err(e) => {
                        result = Some((format!("C18|compact-malformed|{kind}"), witness("compact output does not follow its line grammar", json!({"flags": flags, "error": e, "stdout": text}))));
                        break;
                    }
                    Ok((got, counter)) => {
                        if got != expected {
                            let k = got.iter().zip(expected.iter()).position(|(a, b)| a != b).unwrap_or(got.len().min(expected.len()));
                            result = Some((
                                format!("C18|compact-differs-from-library|{kind}"),
                                witness("compact items differ from RVParser::run", json!({"flags": flags, "index": k, "compact": format!("{:?}", got.get(k)), "library": format!("{:?}", expected.get(k)), "stdout": text})),
                            ));
                            break;
                        }
                        let want = if all || hidden == 0 { None } else { Some(hidden) };
                        if counter != want {
                            result = Some((format!("C18|other-files-counter|{kind}"), witness("wrong 'found in other files' counter", json!({"flags": flags, "counter": counter, "expected": want}))));
                            break;
                        }
                    }
                }
            } else {
                match parse_pretty(&text) {
                    Err(e) => {
                        result = Some((format!("C18|pretty-malformed|{kind}"), witness("pretty output does not follow its block grammar", json!({"flags": flags, "error": e, "stdout": text}))));
                        break;
                    }
                    Ok((got, counter)) => {
                        let a: Vec<(String, String, String)> = got.iter().map(|p| (p.item.severity.clone(), p.item.title.clone(), p.item.file.clone())).collect();
                        let b: Vec<(String, String, String)> = expected.iter().map(|p| (p.severity.clone(), p.title.clone(), p.file.clone())).collect();
                        if a != b {
                            result = Some((format!("C18|pretty-differs-from-library|{kind}"), witness("pretty items differ from RVParser::run", json!({"flags": flags, "pretty": a, "library": b}))));
                            break;
                        }
                        let want = if all || hidden == 0 { None } else { Some(hidden) };
                        if counter != want {
                            result = Some((format!("C18|other-files-counter|{kind}"), witness("wrong 'found in other files' counter", json!({"flags": flags, "counter": counter, "expected": want}))));
                            break;
                        }
                        // excerpts
                        for (p, e) in got.iter().zip(expected.iter()) {
                            let Some(loc) = locs.get(&e.file) else { continue };
                            let Some((n, text_shown, off, len)) = &p.excerpt else {
                                if e.line <= loc.n_lines() && !e.file.is_empty() {
                                    result = Some((format!("C18|pretty-excerpt-missing|{kind}"), witness("no source excerpt for an item with a valid line", json!({"item": format!("{e:?}"), "flags": flags}))));
                                    break 'configs;
                                }
                                continue;
                            };
                            let src = loc.line_text(e.line - 1);
                            // indentation is blanks and tabs; any other character of the line, white
                            // or not, may be what an item points at and has to be shown
                            let lead = src.chars().take_while(|c| *c == ' ' || *c == '\t').count();
                            let expected_text: String = src.chars().skip(lead).collect::<String>().trim_end_matches([' ', '\t', '\r', '\n']).to_string();
                            let good_line = *n == e.line && text_shown.trim_end_matches([' ', '\t']) == expected_text;
                            // the marker starts under the start column (inside the left-aligned text)
                            let want_off = (e.start_col - 1).saturating_sub(lead);
                            let want_len = e.end_col + 1 - e.start_col;
                            // tabs inside the prefix are copied verbatim, so offsets count characters
                            // the characters above the marker are the characters the item reports
                            let shown: Vec<char> = text_shown.chars().collect();
                            let source: Vec<char> = src.chars().collect();
                            let mut under_the_right_text = true;
                            for k in 0..*len {
                                // (the line ending is not shown; a carriage return inside the line is)
                                let body = src.trim_end_matches(['\r', '\n']).chars().count();
                                let reported = source.get(e.start_col - 1 + k).copied().filter(|_| e.start_col - 1 + k < body);
                                let above = shown.get(off + k).copied();
                                if reported != above {
                                    under_the_right_text = false;
                                }
                            }
                            if good_line && *off == want_off && *len == want_len && !under_the_right_text {
                                result = Some((
                                    format!("C18|pretty-excerpt|marker-under-other-text|{kind}"),
                                    witness("the marker stands under other characters than the item reports", json!({"item": format!("{e:?}"), "shown_text": text_shown, "marker_offset": off, "marker_length": len, "source_line": src, "flags": flags})),
                                ));
                                break 'configs;
                            }
                            if !good_line || *off != want_off || *len != want_len {
                                let what = if !good_line { "wrong-line" } else if *off != want_off { "marker-offset" } else { "marker-length" };
                                result = Some((
                                    format!("C18|pretty-excerpt|{what}|{kind}"),
                                    witness("the excerpt does not show the line / the marker is not under the reported columns", json!({"item": format!("{e:?}"), "shown_line": n, "shown_text": text_shown, "marker_offset": off, "marker_length": len, "expected_offset": want_off, "expected_length": want_len, "flags": flags})),
                                ));
                                break 'configs;
                            }
                        }
                    }
                }
            }
        }
        let _ = std::fs::remove_dir_all(dir);
        if let Some((class, w)) = result {
            acc.violation(class, case, w);
            return;
        }
        acc.outcome(&format!("channels-agree:{kind}"), case);
    }
}

impl Property for C18 {
    fn id(&self) -> &'static str {
        "C18"
    }
    fn cases(&self, tier: Tier) -> u64 {
        self.fixed.len() as u64 + self.pool(tier).count()
    }
    fn chunk(&self, _tier: Tier) -> u64 {
        6
    }
    fn run_case(&self, tier: Tier, case: u64, acc: &mut Acc) {
        acc.count("cases", 1);
        let Some((name, files)) = self.files(tier, case) else {
            acc.count("not_a_member", 1);
            return;
        };
        if case % 97 == 0 {
            acc.sample(json!({"case": case, "name": name, "files": files, "configurations": "all 16 combinations of --json --compact --no-color --all-files, and RVParser::run"}));
        }
        self.run_files(tier, case, &name, &files, acc);
    }
    fn show(&self, tier: Tier, case: u64) -> String {
        format!("{:?}", self.files(tier, case))
    }
    fn replay(&self, w: &Value, acc: &mut Acc) {
        if let Some(case) = w["case"].as_u64() {
            let tier = if w["tier"].as_str() == Some("thorough") { Tier::Thorough } else { Tier::Quick };
            if case < self.cases(tier) {
                self.run_case(tier, case, acc);
            }
        }
    }
    fn info(&self, tier: Tier) -> Info {
        Info {
            rule: "programs: the 20 order-stress programs (incl. 2-3-file inputs), one file per malformed line kind, the analysis-failure programs, tab-indented code, and the program pool (every 487th / 31st member of the quick S family, clean and injected) x all 16 combinations of --json / --compact / --no-color / --all-files of the rva binary (colour forced on) plus RVParser::run: a parser per format extracts (severity, title, file, line, columns); for equal file selection the sequences of compact, pretty and JSON (JSON = all files) must equal the library's; JSON must parse and have exactly the documented keys, its raw offsets must agree with line/column; titles non-empty; severity fixed per error code; items sorted by position within a file; --no-color output free of escape sequences; the 'other files' counter right; every pretty excerpt shows the item's line with the marker under the reported columns and of the reported length. Non-trivial = programs with at least one diagnostic".into(),
            bounds: json!({"fixed_programs": self.fixed.len(), "pool_programs": self.pool(tier).count(), "configurations": 16}),
            assumptions: vec!["JSON output has no base-file selection; it is compared with the all-files selection (the statement does not say which selection JSON makes without --all-files)".into()],
            states_counter: "programs",
            transitions_counter: "cli_runs",
            traces_counter: "traces",
            nontrivial_counter: "nontrivial",
            exhaustive: true,
        }
    }
}
