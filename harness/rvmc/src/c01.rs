//! C01 — claimed register and stack values are true on every execution.
//!
//! Every kernel program is analysed by the real pipeline and then executed by
//! the reference interpreter from several initial states; at every arrival at
//! a node all named-kind claims of its in-maps, and after executing it all
//! claims of its out-maps, are evaluated against the machine state.

use crate::driver::*;
use crate::exec::*;
use crate::gen::*;
use crate::imp;
use crate::model::*;
use riscv_analysis::analysis::{AvailableValue, MemoryLocation};
use riscv_analysis::cfg::{AvailableValueMap, CfgNode};
use riscv_analysis::parser::{InstructionProperties, Register};
use serde_json::{json, Value};
use std::rc::Rc;

pub struct C01 {
    quick: KernelSpace,
    thorough: KernelSpace,
}

pub fn initial_machine(k: usize) -> Machine {
    const S: [i32; 4] = [0, 1, -1, 2];
    let mut m = Machine::new((k / 16) as u32 + 1);
    let a = S[k % 4];
    let b = S[(k / 4) % 4];
    m.set(T0, a as u32);
    m.set(T1, b as u32);
    m.set(A0, S[(k + 1) % 4] as u32);
    m.set(A1, S[(k / 2) % 4] as u32);
    m
}

pub fn n_states(tier: Tier) -> usize {
    tier.pick(8, 32)
}

/// order of the 8 quick states: chosen so that t0/t1 comparisons go both ways
pub fn state_index(tier: Tier, j: usize) -> usize {
    match tier {
        // (t0,t1) = (0,0),(1,0),(0,1),(1,1),(-1,2),(2,-1),(2,2),(-1,0)
        Tier::Quick => [0, 1, 4, 5, 14, 11, 15, 2][j],
        Tier::Thorough => j,
    }
}

pub fn kind_of(v: Option<&AvailableValue>) -> &'static str {
    match v {
        None => "none",
        Some(AvailableValue::Constant(_)) => "c",
        Some(AvailableValue::Address(_)) => "a",
        Some(AvailableValue::Memory(..)) => "m",
        Some(AvailableValue::RegisterWithScalar(..)) => "rs",
        Some(AvailableValue::OriginalRegisterWithScalar(..)) => "ors",
        Some(AvailableValue::MemoryAtRegister(..)) => "mr",
        Some(AvailableValue::MemoryAtOriginalRegister(..)) => "omr",
        Some(AvailableValue::ValueInCsr(_)) => "csr",
        Some(AvailableValue::MemoryAtCsr(..)) => "mc",
    }
}

/// The machine value a claim denotes, for the claim kinds the property names.
pub fn denoted(v: &AvailableValue, frame: &Frame, img: &Image) -> Option<u32> {
    match v {
        AvailableValue::Constant(c) => Some(*c as u32),
        AvailableValue::Address(l) => img.addr_of(l.get().as_str()),
        AvailableValue::OriginalRegisterWithScalar(r, k) => {
            Some(frame.snapshot[r.to_num() as usize].wrapping_add(*k as u32))
        }
        _ => None,
    }
}

pub struct FalseClaim {
    pub what: String, // "reg" | "stack"
    pub loc: String,
    pub claim: String,
    pub kind: &'static str,
    pub actual: u32,
    pub denotes: u32,
    pub reg: Option<Reg>,
    pub slot: Option<i32>,
}

/// Evaluate all named-kind claims of a pair of maps; returns (checked, first false).
pub fn check_maps(
    regs: &AvailableValueMap<Register>,
    mem: &AvailableValueMap<MemoryLocation>,
    m: &Machine,
    frame: &Frame,
    img: &Image,
) -> (u64, Option<FalseClaim>) {
    let mut n = 0;
    let mut bad: Option<FalseClaim> = None;
    let mut items: Vec<(u8, &AvailableValue)> = regs.iter().map(|(r, v)| (r.to_num(), v)).collect();
    items.sort_by_key(|x| x.0);
    for (r, v) in items {
        if let Some(d) = denoted(v, frame, img) {
            n += 1;
            let actual = m.get(r);
            if actual != d && bad.is_none() {
                bad = Some(FalseClaim {
                    what: "reg".into(),
                    loc: rn(r).to_string(),
                    claim: format!("{v:?}"),
                    kind: kind_of(Some(v)),
                    actual,
                    denotes: d,
                    reg: Some(r),
                    slot: None,
                });
            }
        }
    }
    let mut slots: Vec<(i32, &AvailableValue)> = mem
        .iter()
        .filter_map(|(l, v)| match l {
            MemoryLocation::StackOffset(k) => Some((*k, v)),
            _ => None,
        })
        .collect();
    slots.sort_by_key(|x| x.0);
    for (k, v) in slots {
        if let Some(d) = denoted(v, frame, img) {
            n += 1;
            let addr = frame.snapshot[SP as usize].wrapping_add(k as u32);
            let actual = m.load(addr, 4);
            if actual != d && bad.is_none() {
                bad = Some(FalseClaim {
                    what: "stack".into(),
                    loc: format!("entry_sp{k:+}"),
                    claim: format!("{v:?}"),
                    kind: kind_of(Some(v)),
                    actual,
                    denotes: d,
                    reg: None,
                    slot: Some(k),
                });
            }
        }
    }
    (n, bad)
}

pub fn mnemonic_of(node: &CfgNode) -> String {
    let n = node.node();
    if n.is_program_entry() {
        return "program-entry".into();
    }
    if n.is_function_entry() {
        return "function-entry".into();
    }
    let text = n.to_string();
    text.split_whitespace().next().unwrap_or("?").to_string()
}

pub struct ExecOutcome {
    pub claims_checked: u64,
    pub steps: usize,
    pub left_subset: Option<&'static str>,
    pub stop: String,
    pub violation: Option<(String, Value)>,
}

/// Execute one program from one initial state, checking every claim.
pub fn execute_checked(
    prog: &Program,
    b: &Binding,
    state: usize,
    horizon: usize,
) -> ExecOutcome {
    let img = Image::new(prog);
    let mut m = initial_machine(state);
    for (a, bytes, v) in &img.data_init {
        m.store(*a, *bytes, *v);
    }
    let mut env = Env::new(vec![0x1234 + state as u32, 0x4321]);
    let mut out = ExecOutcome {
        claims_checked: 0,
        steps: 0,
        left_subset: None,
        stop: String::new(),
        violation: None,
    };
    let mut trace: Vec<usize> = Vec::new();
    let mut done = false;
    let lim = Limits {
        horizon,
        require_callee_convention: true,
    };
    let node_of = |idx: usize| -> &Rc<CfgNode> { &b.inst_nodes[idx] };
    let mut cb = |ev: &Event, m: &Machine, frames: &[Frame]| {
        if done {
            return;
        }
        let frame = frames.last().expect("frame");
        let mut report = |phase: &str, node: &Rc<CfgNode>, fc: FalseClaim, extra: String, trace: &Vec<usize>| {
            let in_kind = match (&fc.reg, &fc.slot) {
                (Some(r), _) => kind_of(
                    node.reg_values_in()
                        .get(&Register::from_num(*r).unwrap()),
                ),
                (_, Some(k)) => kind_of(node.memory_values_in().get(&MemoryLocation::StackOffset(*k))),
                _ => "none",
            };
            let class = if phase == "in" {
                format!("C01|in|{}|{}|{}", fc.what, fc.kind, extra)
            } else {
                format!(
                    "C01|out|{}|{}->{}|{}|{}",
                    fc.what,
                    in_kind,
                    fc.kind,
                    mnemonic_of(node),
                    extra
                )
            };
            let w = json!({
                "source": prog.text(),
                "initial_state": state,
                "executed_instruction_indices": trace,
                "at_node": node.node().to_string(),
                "phase": phase,
                "location": fc.loc,
                "claim": fc.claim,
                "claim_denotes": format!("{:#x}", fc.denotes),
                "machine_has": format!("{:#x}", fc.actual),
            });
            (class, w)
        };
        match ev {
            Event::ProgramStart => {
                let n = &b.program_entry;
                let (c, bad) = check_maps(&n.reg_values_out(), &n.memory_values_out(), m, frame, &img);
                out.claims_checked += c;
                if let Some(fc) = bad {
                    out.violation = Some(report("out", n, fc, "entry".into(), &trace));
                    done = true;
                }
            }
            Event::EnterFunction { idx, via_call, .. } => {
                let n = b.entry_before[*idx].as_ref().expect("entry node");
                // in-claims of an entry node hold for arrivals along an edge only
                let _ = via_call;
                let (c, bad) = check_maps(&n.reg_values_out(), &n.memory_values_out(), m, frame, &img);
                out.claims_checked += c;
                if let Some(fc) = bad {
                    out.violation = Some(report("out", n, fc, "entry".into(), &trace));
                    done = true;
                }
            }
            Event::Before { idx, .. } => {
                let n = node_of(*idx);
                let (c, bad) = check_maps(&n.reg_values_in(), &n.memory_values_in(), m, frame, &img);
                out.claims_checked += c;
                if let Some(fc) = bad {
                    out.violation = Some(report(
                        "in",
                        n,
                        fc,
                        "not-implied-by-executed-predecessor".into(),
                        &trace,
                    ));
                    done = true;
                }
                trace.push(*idx);
            }
            Event::After { idx, info } => {
                if info.is_call {
                    return; // checked on return, in the caller's activation
                }
                let n = node_of(*idx);
                let (c, bad) = check_maps(&n.reg_values_out(), &n.memory_values_out(), m, frame, &img);
                out.claims_checked += c;
                if let Some(fc) = bad {
                    let dest = info.write;
                    let extra = match (&fc.reg, &fc.slot) {
                        (Some(r), _) if Some(*r) == dest => "dest".to_string(),
                        (Some(_), _) => "other-reg".to_string(),
                        (_, Some(k)) => {
                            // is it the slot this instruction stores to?
                            let stored = info.mem.and_then(|(a, _, st)| {
                                if st {
                                    Some(a.wrapping_sub(frame.snapshot[SP as usize]) as i32)
                                } else {
                                    None
                                }
                            });
                            if stored == Some(*k) {
                                "stored-slot".to_string()
                            } else {
                                "other-slot".to_string()
                            }
                        }
                        _ => String::new(),
                    };
                    out.violation = Some(report("out", n, fc, extra, &trace));
                    done = true;
                }
            }
            Event::Returned { call_idx, .. } => {
                let n = node_of(*call_idx);
                let (c, bad) = check_maps(&n.reg_values_out(), &n.memory_values_out(), m, frame, &img);
                out.claims_checked += c;
                if let Some(fc) = bad {
                    let extra = match (&fc.reg, &fc.slot) {
                        (Some(_), _) => "after-return".to_string(),
                        (_, Some(k)) => {
                            let sp_now = m.get(SP).wrapping_sub(frame.snapshot[SP as usize]) as i32;
                            if *k < sp_now {
                                "slot-below-sp-after-return".to_string()
                            } else {
                                "slot-in-frame-after-return".to_string()
                            }
                        }
                        _ => String::new(),
                    };
                    out.violation = Some(report("out", n, fc, extra, &trace));
                    done = true;
                }
            }
            Event::LeftSubset(why) => {
                out.left_subset = Some(why);
                done = true;
            }
            Event::Stopped(s) => {
                out.stop = match s {
                    Stop::Fault(_) => "fault".to_string(),
                    other => format!("{other:?}"),
                };
                done = true;
            }
        }
    };
    out.steps = run_traced(&img, b, &mut m, &mut env, &lim, &mut cb);
    out
}

impl C01 {
    pub fn new() -> C01 {
        C01 {
            quick: KernelSpace::new(KernelBounds::for_tier(Tier::Quick)),
            thorough: KernelSpace::new(KernelBounds::for_tier(Tier::Thorough)),
        }
    }
    fn space(&self, tier: Tier) -> &KernelSpace {
        tier.pick(&self.quick, &self.thorough)
    }

    pub fn run_program(&self, tier: Tier, case: u64, k: &Kernel, acc: &mut Acc) {
        let text = k.program.text();
        let run = match imp::analyze_text(&text) {
            Ok(r) => r,
            Err(p) => {
                // crashes are C06's subject; here the program is simply not analysable
                acc.count("analysis_panicked", 1);
                acc.outcome(&format!("panic:{}", p.0.chars().take(40).collect::<String>()), case);
                return;
            }
        };
        if !run.parse_errors.is_empty() {
            acc.violation(
                "C01|machinery|generated-program-has-parse-errors",
                case,
                json!({"source": text, "errors": run.diags.iter().map(|d| d.title.clone()).collect::<Vec<_>>()}),
            );
            return;
        }
        let cfg = match &run.cfg {
            Ok(c) => c,
            Err(e) => {
                acc.count("cfg_rejected", 1);
                acc.outcome(&format!("cfg-error:{}", imp::cfg_error_code(e)), case);
                return;
            }
        };
        let b = match bind(cfg, &k.program) {
            Ok(b) => b,
            Err(e) => {
                acc.violation("C01|machinery|binding", case, json!({"source": text, "error": e}));
                return;
            }
        };
        acc.count("programs_analysed", 1);
        let mut checked_any = false;
        for j in 0..n_states(tier) {
            let st = state_index(tier, j);
            let o = execute_checked(&k.program, &b, st, 256);
            acc.count("executions", 1);
            acc.count("steps", o.steps as u64);
            acc.count("claims_checked", o.claims_checked);
            if o.claims_checked > 0 {
                checked_any = true;
            }
            if let Some(w) = o.left_subset {
                acc.count("executions_left_subset", 1);
                acc.outcome(&format!("left-subset:{w}"), case);
            } else {
                acc.outcome(&format!("stop:{}", o.stop), case);
            }
            if let Some((class, mut w)) = o.violation {
                w["family"] = json!(k.family);
                w["case"] = json!(case);
                acc.violation(class, case, w);
                break;
            }
        }
        if checked_any {
            acc.count("programs_with_claims", 1);
        }
    }
}

impl Property for C01 {
    fn id(&self) -> &'static str {
        "C01"
    }
    fn cases(&self, tier: Tier) -> u64 {
        self.space(tier).count()
    }
    fn chunk(&self, _tier: Tier) -> u64 {
        3000
    }
    fn run_case(&self, tier: Tier, case: u64, acc: &mut Acc) {
        acc.count("cases", 1);
        let k = self.space(tier).get(case);
        if case % 20011 == 0 {
            acc.sample(json!({"case": case, "family": k.family, "source": k.program.text()}));
        }
        self.run_program(tier, case, &k, acc);
    }
    fn show(&self, tier: Tier, case: u64) -> String {
        let k = self.space(tier).get(case);
        format!("[{}]\n{}", k.family, k.program.text())
    }
    fn replay(&self, w: &Value, acc: &mut Acc) {
        // replay by source text: rebuild the program from the case index when present
        if let Some(case) = w["case"].as_u64() {
            for tier in [Tier::Quick, Tier::Thorough] {
                if case < self.space(tier).count() {
                    let k = self.space(tier).get(case);
                    if Some(k.program.text().as_str()) == w["source"].as_str() {
                        self.run_program(tier, case, &k, acc);
                        return;
                    }
                }
            }
        }
        acc.notes.push("replay: case index does not reproduce the recorded source".into());
    }
    fn info(&self, tier: Tier) -> Info {
        let b = KernelBounds::for_tier(tier);
        Info {
            rule: "every program of the kernel family (single-transfer: every instruction of a ~1650-instruction alphabet after every state-setting prefix; sequence: all sequences over 24 symbols; control-flow: all sequences over 12/14 symbols incl. labels, branches, calls, returns; 10 skeletons x fillers; each as main program and as a called function) is analysed by the real pipeline and executed by the reference RV32IM interpreter from every initial state; all Constant/Address/OriginalRegister+k claims on registers and stack slots are evaluated at every arrival/departure. Non-trivial = distinct programs in which at least one claim was evaluated on an execution".into(),
            bounds: json!({"prefix_len": b.prefix_len, "seq_len": b.seq_len, "ctl_len": b.ctl_len, "skeleton_slots": b.skel_slots, "initial_states": n_states(tier), "step_horizon": 256, "parts": self.space(tier).parts}),
            assumptions: vec![
                "reference interpreter (two cross-checked ALUs) and activation monitor are the oracle; checking stops at the step where an execution leaves the supported subset (indirect jump, stack written through a non-sp base, non-conforming callee)".into(),
                "only the claim kinds named by the property are evaluated (constant, label address, entry value + k; stack slots holding such values)".into(),
            ],
            states_counter: "programs_analysed",
            transitions_counter: "steps",
            traces_counter: "executions",
            nontrivial_counter: "programs_with_claims",
            exhaustive: true,
        }
    }
}
