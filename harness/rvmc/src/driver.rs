//! Generic bounded-exhaustive driver: index-addressable case spaces, worker
//! subprocesses with crash/hang attribution, known-findings matching, replay
//! artefacts and evidence files.

use serde::{Deserialize, Serialize};
use serde_json::{json, Value};
use std::collections::BTreeMap;
use std::io::{Read, Write};
use std::os::unix::fs::FileExt;
use std::path::{Path, PathBuf};
use std::process::{Child, Command, Stdio};
use std::time::{Duration, Instant};

/// root of the verification tree (the `check` script exports its own location)
pub fn verif_root() -> PathBuf {
    PathBuf::from(std::env::var("VERIF_ROOT").unwrap_or_else(|_| "/verif".to_string()))
}

#[derive(Clone, Copy, PartialEq, Eq, Debug)]
pub enum Tier {
    Quick,
    Thorough,
}
impl Tier {
    pub fn name(self) -> &'static str {
        match self {
            Tier::Quick => "quick",
            Tier::Thorough => "thorough",
        }
    }
    pub fn parse(s: &str) -> Option<Tier> {
        match s {
            "quick" => Some(Tier::Quick),
            "thorough" => Some(Tier::Thorough),
            _ => None,
        }
    }
    pub fn pick<T>(self, q: T, t: T) -> T {
        match self {
            Tier::Quick => q,
            Tier::Thorough => t,
        }
    }
}

#[derive(Clone, Debug, Serialize, Deserialize)]
pub struct Violation {
    /// narrow deterministic signature (see DESIGN 2.7)
    pub class: String,
    pub case: u64,
    /// self-contained witness: enough to replay without the explorer
    pub witness: Value,
}

/// What a worker accumulates over its chunk.
#[derive(Clone, Debug, Default, Serialize, Deserialize)]
pub struct Acc {
    pub counters: BTreeMap<String, u64>,
    /// outcome key -> (count, first case index)
    pub outcomes: BTreeMap<String, (u64, u64)>,
    /// class -> (count, smallest witness)
    pub violations: BTreeMap<String, (u64, Violation)>,
    pub samples: Vec<Value>,
    pub notes: Vec<String>,
}

pub const MAX_OUTCOMES: usize = 4096;
pub const MAX_SAMPLES: usize = 6;

impl Acc {
    pub fn count(&mut self, name: &str, n: u64) {
        *self.counters.entry(name.to_string()).or_insert(0) += n;
    }
    pub fn get(&self, name: &str) -> u64 {
        self.counters.get(name).copied().unwrap_or(0)
    }
    pub fn outcome(&mut self, key: &str, case: u64) {
        if let Some(e) = self.outcomes.get_mut(key) {
            e.0 += 1;
            if case < e.1 {
                e.1 = case;
            }
        } else if self.outcomes.len() < MAX_OUTCOMES {
            self.outcomes.insert(key.to_string(), (1, case));
        } else {
            self.count("outcomes_overflow", 1);
        }
    }
    pub fn violation(&mut self, class: impl Into<String>, case: u64, witness: Value) {
        let class = class.into();
        let v = Violation {
            class: class.clone(),
            case,
            witness,
        };
        match self.violations.get_mut(&class) {
            Some(e) => {
                e.0 += 1;
                if case < e.1.case {
                    e.1 = v;
                }
            }
            None => {
                self.violations.insert(class, (1, v));
            }
        }
    }
    pub fn sample(&mut self, v: Value) {
        if self.samples.len() < MAX_SAMPLES {
            self.samples.push(v);
        }
    }
    pub fn merge(&mut self, other: Acc) {
        for (k, v) in other.counters {
            *self.counters.entry(k).or_insert(0) += v;
        }
        for (k, (n, c)) in other.outcomes {
            if let Some(e) = self.outcomes.get_mut(&k) {
                e.0 += n;
                e.1 = e.1.min(c);
            } else if self.outcomes.len() < MAX_OUTCOMES {
                self.outcomes.insert(k, (n, c));
            }
        }
        for (k, (n, v)) in other.violations {
            match self.violations.get_mut(&k) {
                Some(e) => {
                    e.0 += n;
                    if v.case < e.1.case {
                        e.1 = v;
                    }
                }
                None => {
                    self.violations.insert(k, (n, v));
                }
            }
        }
        for s in other.samples {
            if self.samples.len() < MAX_SAMPLES {
                self.samples.push(s);
            }
        }
        for n in other.notes {
            if self.notes.len() < 20 && !self.notes.contains(&n) {
                self.notes.push(n);
            }
        }
    }
}

/// Static description of a check, used for the evidence file.
pub struct Info {
    pub rule: String,
    pub bounds: Value,
    pub assumptions: Vec<String>,
    /// counter names feeding the evidence keys
    pub states_counter: &'static str,
    pub transitions_counter: &'static str,
    pub traces_counter: &'static str,
    pub nontrivial_counter: &'static str,
    pub exhaustive: bool,
}

pub trait Property: Sync {
    fn id(&self) -> &'static str;
    /// number of cases at this tier (cases are 0..n)
    fn cases(&self, tier: Tier) -> u64;
    /// how many cases a worker takes at a time
    fn chunk(&self, _tier: Tier) -> u64 {
        2000
    }
    /// chunk size for the chunk starting at `lo` (heavy cases first, small chunks)
    fn chunk_at(&self, tier: Tier, _lo: u64) -> u64 {
        self.chunk(tier)
    }
    /// seconds without progress before a worker is declared hung on its case
    fn hang_secs(&self, _tier: Tier) -> u64 {
        20
    }
    /// evaluate one case in the worker
    fn run_case(&self, tier: Tier, case: u64, acc: &mut Acc);
    /// human-readable form of one case (debugging aid)
    fn show(&self, _tier: Tier, _case: u64) -> String {
        "n/a".into()
    }
    /// replay a witness (without the explorer); returns violations found
    fn replay(&self, witness: &Value, acc: &mut Acc);
    /// what to do with a worker that died/hung at `case`
    fn on_worker_death(&self, tier: Tier, case: u64, how: &str, acc: &mut Acc) {
        let _ = tier;
        acc.violation(
            format!("{}|worker-{how}", self.id()),
            case,
            json!({"case": case, "how": how}),
        );
    }
    /// parent-side extra work after all cases ran (cross-case checks)
    fn finish(&self, _tier: Tier, _acc: &mut Acc) {}
    fn info(&self, tier: Tier) -> Info;
    /// memory limit per worker (bytes)
    fn mem_limit(&self, _tier: Tier) -> u64 {
        6 << 30
    }
    /// max worker processes
    fn max_workers(&self, _tier: Tier) -> usize {
        16
    }
    /// build profiles of the harness (and thereby of the library) to run the cases in
    fn profiles(&self, _tier: Tier) -> Vec<&'static str> {
        vec!["release"]
    }
}

// ---------------------------------------------------------------- worker side

pub fn worker_main(p: &dyn Property, tier: Tier, lo: u64, hi: u64, idx_path: &str) -> i32 {
    let f = std::fs::OpenOptions::new()
        .write(true)
        .create(true)
        .truncate(false)
        .open(idx_path)
        .expect("idx file");
    let mut acc = Acc::default();
    // silence panic messages of caught panics (they are outcomes, not noise)
    std::panic::set_hook(Box::new(|_| {}));
    for case in lo..hi {
        let _ = f.write_all_at(&case.to_le_bytes(), 0);
        p.run_case(tier, case, &mut acc);
    }
    let _ = f.write_all_at(&u64::MAX.to_le_bytes(), 0);
    let out = serde_json::to_vec(&acc).expect("serialize acc");
    let stdout = std::io::stdout();
    let mut lock = stdout.lock();
    let _ = lock.write_all(&out);
    let _ = lock.flush();
    0
}

// ---------------------------------------------------------------- parent side

/// CPU seconds (user + system) a process has used so far. Watchdogs count CPU time, not
/// wall time: on a loaded machine a healthy worker may not be scheduled for a long while.
pub fn proc_cpu_secs(pid: u32) -> Option<f64> {
    let stat = std::fs::read_to_string(format!("/proc/{pid}/stat")).ok()?;
    let rest = &stat[stat.rfind(')')? + 1..];
    let f: Vec<&str> = rest.split_whitespace().collect();
    let ticks = f.get(11)?.parse::<u64>().ok()? + f.get(12)?.parse::<u64>().ok()?;
    let hz = unsafe { libc::sysconf(libc::_SC_CLK_TCK) };
    Some(ticks as f64 / if hz > 0 { hz as f64 } else { 100.0 })
}

/// CPU seconds used by the calling thread (time envelopes are CPU time, never wall time)
pub fn thread_cpu_secs() -> f64 {
    let mut ts = libc::timespec { tv_sec: 0, tv_nsec: 0 };
    unsafe { libc::clock_gettime(libc::CLOCK_THREAD_CPUTIME_ID, &mut ts) };
    ts.tv_sec as f64 + ts.tv_nsec as f64 * 1e-9
}

/// a process that used no CPU at all for this many times its CPU allowance is blocked
pub const WALL_FACTOR: u32 = 15;

struct Slot {
    child: Child,
    cpu_at_change: f64,
    lo: u64,
    hi: u64,
    idx_path: PathBuf,
    last_idx: u64,
    last_change: Instant,
    reader: Option<std::thread::JoinHandle<Vec<u8>>>,
}

pub fn scratch_dir() -> PathBuf {
    let d = verif_root()
        .join(".scratch")
        .join(format!("{}", std::process::id()));
    std::fs::create_dir_all(&d).expect("scratch dir");
    d
}

pub fn remove_scratch() {
    let d = verif_root()
        .join(".scratch")
        .join(format!("{}", std::process::id()));
    let _ = std::fs::remove_dir_all(d);
}

fn read_idx(path: &Path) -> Option<u64> {
    let mut f = std::fs::File::open(path).ok()?;
    let mut b = [0u8; 8];
    f.read_exact(&mut b).ok()?;
    Some(u64::from_le_bytes(b))
}

pub fn exe_for_profile(profile: &str) -> PathBuf {
    let exe = std::env::current_exe().expect("current exe");
    // .../target/<profile>/rvmc
    let target = exe.parent().and_then(|p| p.parent()).expect("target dir");
    target.join(profile).join("rvmc")
}

fn spawn_worker(
    p: &dyn Property,
    tier: Tier,
    lo: u64,
    hi: u64,
    slot_no: usize,
    profile: &str,
) -> Slot {
    let idx_path = scratch_dir().join(format!("w{slot_no}.idx"));
    let _ = std::fs::write(&idx_path, lo.to_le_bytes());
    let exe = exe_for_profile(profile);
    let mem = p.mem_limit(tier);
    let mut cmd = Command::new(exe);
    cmd.arg("worker")
        .arg(p.id())
        .arg(tier.name())
        .arg(lo.to_string())
        .arg(hi.to_string())
        .arg(&idx_path)
        .stdin(Stdio::null())
        .stdout(Stdio::piped())
        .stderr(Stdio::null());
    unsafe {
        use std::os::unix::process::CommandExt;
        cmd.pre_exec(move || {
            let lim = libc::rlimit {
                rlim_cur: mem,
                rlim_max: mem,
            };
            libc::setrlimit(libc::RLIMIT_AS, &lim);
            Ok(())
        });
    }
    let mut child = cmd.spawn().expect("spawn worker");
    let mut out = child.stdout.take().expect("stdout");
    let reader = std::thread::spawn(move || {
        let mut buf = Vec::new();
        let _ = out.read_to_end(&mut buf);
        buf
    });
    Slot {
        child,
        lo,
        hi,
        idx_path,
        last_idx: lo,
        last_change: Instant::now(),
        cpu_at_change: 0.0,
        reader: Some(reader),
    }
}

pub struct RunResult {
    pub acc: Acc,
    pub wall_s: f64,
    pub machinery_errors: Vec<String>,
}

pub fn run_cases(p: &dyn Property, tier: Tier, seed: u64) -> RunResult {
    let start = Instant::now();
    let mut acc = Acc::default();
    let mut errors = Vec::new();
    for profile in p.profiles(tier) {
        if !exe_for_profile(profile).exists() {
            errors.push(format!("harness binary for profile {profile} is missing"));
            continue;
        }
        run_cases_profile(p, tier, seed, profile, &mut acc, &mut errors);
        acc.count("profiles_run", 1);
    }
    p.finish(tier, &mut acc);
    RunResult {
        acc,
        wall_s: start.elapsed().as_secs_f64(),
        machinery_errors: errors,
    }
}

fn run_cases_profile(
    p: &dyn Property,
    tier: Tier,
    seed: u64,
    profile: &str,
    acc: &mut Acc,
    errors: &mut Vec<String>,
) {
    let total = p.cases(tier);
    let ncpu = std::thread::available_parallelism()
        .map(|n| n.get())
        .unwrap_or(4)
        .min(p.max_workers(tier))
        .max(1);
    let hang = Duration::from_secs(p.hang_secs(tier));

    // chunks are handed out in an order rotated by the seed; the seed never
    // selects cases, only which worker gets which chunk.
    let mut chunks: Vec<(u64, u64)> = Vec::new();
    let mut lo = 0u64;
    while lo < total {
        let hi = (lo + p.chunk_at(tier, lo).max(1)).min(total);
        chunks.push((lo, hi));
        lo = hi;
    }
    if !chunks.is_empty() {
        let k = (seed as usize) % chunks.len();
        chunks.rotate_left(k);
    }
    let mut pending: Vec<(u64, u64)> = chunks;
    pending.reverse();

    let mut slots: Vec<Option<Slot>> = (0..ncpu).map(|_| None).collect();
    loop {
        let mut active = 0;
        for (i, s) in slots.iter_mut().enumerate() {
            if s.is_none() {
                if let Some((lo, hi)) = pending.pop() {
                    *s = Some(spawn_worker(p, tier, lo, hi, i, profile));
                }
            }
            let Some(slot) = s.as_mut() else { continue };
            active += 1;
            match slot.child.try_wait() {
                Ok(Some(status)) => {
                    let buf = slot
                        .reader
                        .take()
                        .map(|r| r.join().unwrap_or_default())
                        .unwrap_or_default();
                    let idx = read_idx(&slot.idx_path).unwrap_or(slot.lo);
                    let parsed: Option<Acc> = if status.success() {
                        serde_json::from_slice(&buf).ok()
                    } else {
                        None
                    };
                    match parsed {
                        Some(a) => acc.merge(a),
                        None => {
                            // died at case idx: record, then continue after it
                            let how = if status.success() {
                                "garbled-output".to_string()
                            } else {
                                use std::os::unix::process::ExitStatusExt;
                                match status.signal() {
                                    Some(sig) => format!("signal-{sig}"),
                                    None => format!("exit-{}", status.code().unwrap_or(-1)),
                                }
                            };
                            if idx == u64::MAX || idx < slot.lo || idx >= slot.hi {
                                errors.push(format!(
                                    "worker for [{},{}) failed ({how}) outside a case",
                                    slot.lo, slot.hi
                                ));
                            } else {
                                p.on_worker_death(tier, idx, &format!("{how}-{profile}"), acc);
                                acc.count("worker_deaths", 1);
                                acc.count("cases", 1);
                                // cases lo..idx of this chunk are lost with the worker's
                                // accumulator: redo them, then go on after the fatal case
                                if idx > slot.lo {
                                    pending.push((slot.lo, idx));
                                }
                                if idx + 1 < slot.hi {
                                    pending.push((idx + 1, slot.hi));
                                }
                            }
                        }
                    }
                    *s = None;
                    active -= 1;
                }
                Ok(None) => {
                    let idx = read_idx(&slot.idx_path).unwrap_or(slot.last_idx);
                    let cpu = proc_cpu_secs(slot.child.id()).unwrap_or(slot.cpu_at_change);
                    if idx != slot.last_idx {
                        slot.last_idx = idx;
                        slot.last_change = Instant::now();
                        slot.cpu_at_change = cpu;
                    } else if cpu - slot.cpu_at_change > hang.as_secs_f64() || slot.last_change.elapsed() > hang * WALL_FACTOR {
                        let _ = slot.child.kill();
                        let _ = slot.child.wait();
                        let _ = slot.reader.take().map(|r| r.join());
                        if idx >= slot.lo && idx < slot.hi {
                            p.on_worker_death(tier, idx, &format!("hang-{profile}"), acc);
                            acc.count("worker_hangs", 1);
                            acc.count("cases", 1);
                            if idx > slot.lo {
                                pending.push((slot.lo, idx));
                            }
                            if idx + 1 < slot.hi {
                                pending.push((idx + 1, slot.hi));
                            }
                        } else {
                            errors.push(format!(
                                "worker for [{},{}) hung outside a case",
                                slot.lo, slot.hi
                            ));
                        }
                        *s = None;
                        active -= 1;
                    }
                }
                Err(e) => {
                    errors.push(format!("wait failed: {e}"));
                    *s = None;
                    active -= 1;
                }
            }
        }
        if active == 0 && pending.is_empty() {
            break;
        }
        std::thread::sleep(Duration::from_millis(15));
    }
}

// ---------------------------------------------------------------- known findings

#[derive(Clone, Debug, Deserialize)]
pub struct KnownFinding {
    pub property: String,
    pub class: String,
    #[serde(default)]
    pub what: String,
}

#[derive(Clone, Debug, Deserialize, Default)]
pub struct KnownFile {
    #[serde(default)]
    pub findings: Vec<KnownFinding>,
    #[serde(default)]
    pub fixed: Vec<Value>,
}

pub fn load_known() -> KnownFile {
    let path = verif_root().join("known_findings.json");
    match std::fs::read_to_string(path) {
        Ok(t) => serde_json::from_str(&t).expect("known_findings.json must parse"),
        Err(_) => KnownFile::default(),
    }
}

/// Report, write replay files and evidence; returns the process exit code.
pub fn conclude(p: &dyn Property, tier: Tier, seed: u64, res: RunResult) -> i32 {
    let id = p.id();
    let known = load_known();
    let info = p.info(tier);
    let acc = &res.acc;
    let mut unlisted = 0;
    let replay_dir = verif_root().join("replays").join(id);
    let _ = std::fs::create_dir_all(&replay_dir);
    let mut known_hits = Vec::new();
    let mut viol_out = Vec::new();
    for (class, (count, v)) in &acc.violations {
        let listed = known
            .findings
            .iter()
            .find(|k| k.property == id && &k.class == class);
        if let Some(k) = listed {
            println!(
                "KNOWN-FINDING: property={id} {class} ({count} cases; first case {}) {}",
                v.case, k.what
            );
            known_hits.push(json!({"class": class, "cases": count, "first_case": v.case}));
        } else {
            unlisted += 1;
            let fname = format!(
                "{}.json",
                class
                    .chars()
                    .map(|c| if c.is_ascii_alphanumeric() || c == '-' || c == '_' {
                        c
                    } else {
                        '_'
                    })
                    .collect::<String>()
            );
            let path = replay_dir.join(fname);
            let body = json!({
                "property": id,
                "class": class,
                "tier": tier.name(),
                "case": v.case,
                "cases_in_class": count,
                "witness": v.witness,
            });
            let _ = std::fs::write(&path, serde_json::to_string_pretty(&body).unwrap());
            println!("VIOLATION property={id} replay={}", path.display());
            println!("  class={class} cases={count} first_case={}", v.case);
            viol_out.push(json!({"class": class, "cases": count, "replay": path}));
        }
    }
    for e in &res.machinery_errors {
        eprintln!("MACHINERY-ERROR: {e}");
    }

    let states = acc.get(info.states_counter).max(1);
    let transitions = acc.get(info.transitions_counter).max(1);
    let mut samples = acc.samples.clone();
    if samples.is_empty() {
        samples.push(json!("no sample recorded"));
    }
    let mut outcomes: Vec<_> = acc.outcomes.iter().collect();
    outcomes.sort_by(|a, b| b.1 .0.cmp(&a.1 .0));
    let top_outcomes: Vec<Value> = outcomes
        .iter()
        .take(25)
        .map(|(k, (n, c))| json!({"outcome": k, "cases": n, "first_case": c}))
        .collect();
    let evidence = json!({
        "property_id": id,
        "tier": tier.name(),
        "seed": seed,
        "level": "model_checking",
        "coverage": {
            "states": states,
            "transitions": transitions,
            "traces_validated_against_impl": acc.get(info.traces_counter),
            "samples": samples,
            "exhaustive": info.exhaustive && res.machinery_errors.is_empty(),
            "evaluations": acc.get("cases"),
            "distinct_nontrivial": acc.get(info.nontrivial_counter),
            "rule": info.rule,
            "bounds": info.bounds,
            "case_space": p.cases(tier),
            "distinct_outcomes": acc.outcomes.len(),
            "top_outcomes": top_outcomes,
            "counters": acc.counters,
            "known_findings_hit": known_hits,
            "unlisted_violations": viol_out,
            "notes": acc.notes,
        },
        "assumptions": info.assumptions,
        "wall_s": res.wall_s,
        "violations": unlisted,
    });
    let ev_dir = verif_root().join("evidence");
    let _ = std::fs::create_dir_all(&ev_dir);
    std::fs::write(
        ev_dir.join(format!("{id}.json")),
        serde_json::to_string_pretty(&evidence).unwrap(),
    )
    .expect("write evidence");
    println!(
        "{id} {}: cases={} states={} transitions={} traces={} outcomes={} violations(unlisted)={} known={} wall={:.1}s",
        tier.name(),
        acc.get("cases"),
        states,
        transitions,
        acc.get(info.traces_counter),
        acc.outcomes.len(),
        unlisted,
        acc.violations.len() - unlisted,
        res.wall_s
    );
    if !res.machinery_errors.is_empty() {
        return 2;
    }
    let expected_cases = p.cases(tier) * p.profiles(tier).len() as u64;
    if acc.get("cases") != expected_cases {
        eprintln!(
            "MACHINERY-ERROR: evaluated {} of {} cases",
            acc.get("cases"),
            expected_cases
        );
        return 2;
    }
    if unlisted > 0 {
        1
    } else {
        0
    }
}
