.data
table:
7
'x'
.text
main:
    li a7, 10
    ecall
