.data
table: .word 1
5 oops
.text
main:
    li a7, 10
    ecall
