.data
table: .word 1
7
'x'
.text
main:
    li a7, 10
    ecall
