#!/bin/sh
# Finding 3: a data directive (.word/.byte/.half/...) keeps reading on the following lines,
# so a malformed line that starts with a number or character literal is absorbed into it.
# Exits 1 when the violation is present, 0 when it is not.
cd "$(dirname "$0")" || exit 2
RVA=${RVA:-/tmp/wt3-C07/target/debug/rva}
[ -x "$RVA" ] || { echo "rva binary not found: $RVA"; exit 2; }
bad=0
lint() { "$RVA" lint "$1" --compact --no-color | sed "s/$1/FILE/"; }

echo "=== absorb.s: lines 3 (7) and 4 ('x') are not statements; line 2 is 'table: .word 1'"
echo "--- rva lint absorb.s";     lint absorb.s
echo "--- rva lint absorb_ref.s (line 2 reduced to 'table:')"; lint absorb_ref.s
for line in 3 4; do
    if lint absorb_ref.s | grep -Eq "^Error: .* at $line " && ! lint absorb.s | grep -Eq " at $line "; then
        echo "VIOLATION: line $line of absorb.s is malformed (error in absorb_ref.s) but is accepted silently after a .word line"
        bad=1
    fi
done

echo "=== partial.s: line 3 is '5 oops'"
echo "--- rva lint partial.s";     lint partial.s
echo "--- rva lint partial_ref.s"; lint partial_ref.s
if lint partial.s | grep -q "found SYMBOL(oops).* at 3 3:6" && lint partial_ref.s | grep -q "found SYMBOL(5).* at 3 1:1"; then
    echo "VIOLATION: on the malformed line 3 of partial.s the text '5' is consumed by the .word of line 2; only 'oops' is reported"
    bad=1
fi

# Library view (optional): show that the node of line 2 depends on the malformed line 3
H=/tmp/hunt-C07/harness/target/debug/c07harness
if [ ! -x "$H" ]; then
    (cd harness && CARGO_TARGET_DIR=/tmp/hunt-C07/harness/target cargo build --offline >/dev/null 2>&1)
fi
if [ -x "$H" ]; then
    echo "--- parser nodes of partial.s, line 2 (library API)"
    "$H" partial.s | grep '^N partial.s 2 '
    sed '3s/.*//' partial.s > partial_deleted.s
    echo "--- same with line 3 deleted"
    "$H" partial_deleted.s | grep '^N partial_deleted.s 2 '
    a=$("$H" partial.s | grep '^N partial.s 2 ' | sed 's/partial.s//')
    b=$("$H" partial_deleted.s | grep '^N partial_deleted.s 2 ' | sed 's/partial_deleted.s//')
    rm -f partial_deleted.s
    if [ "$a" != "$b" ]; then
        echo "VIOLATION: the nodes of line 2 differ when the malformed line 3 is deleted (not contained)"
        bad=1
    fi
fi
exit $bad
