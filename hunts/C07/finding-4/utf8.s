main:
    li a0, 1        # café (UTF-8 e-acute in a comment)
    frobnicate a0   # malformed line
    li a7, 10
    ecall
