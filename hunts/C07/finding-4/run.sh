#!/bin/sh
# Finding 4: one byte that is not valid UTF-8 (e.g. a Latin-1 accented letter inside a comment)
# makes the analyzer drop the WHOLE file; no line of it is parsed or named by a located error.
# Exits 1 when the violation is present, 0 when it is not.
cd "$(dirname "$0")" || exit 2
RVA=${RVA:-/tmp/wt3-C07/target/debug/rva}
[ -x "$RVA" ] || { echo "rva binary not found: $RVA"; exit 2; }
bad=0
echo "--- rva lint utf8.s   (reference: same program, the accented letter encoded as UTF-8)"
"$RVA" lint utf8.s --compact --no-color
echo "--- rva lint latin1.s (byte 0xE9 inside the comment of line 2)"
"$RVA" lint latin1.s --compact --no-color
if "$RVA" lint utf8.s --compact --no-color | grep -q "frobnicate.* at 3 " \
   && ! "$RVA" lint latin1.s --compact --no-color | grep -q " at 3 "; then
    echo "VIOLATION: the malformed line 3 of latin1.s is not reported (nor parsed); the bad byte of line 2 affected every line"
    bad=1
fi
if "$RVA" lint latin1.s --compact --no-color | grep -q "in <unknown file> at 1 1:1"; then
    echo "VIOLATION: the only diagnostic is not located on the offending line (unknown file, 1 1:1)"
    bad=1
fi
echo "--- rva lint incl.s --all-files (the included latin1_lib.s has byte 0xEF in a comment on its line 2)"
"$RVA" lint incl.s --compact --no-color --all-files
if ! "$RVA" lint incl.s --compact --no-color --all-files | grep -q "latin1_lib.s at 3 "; then
    echo "VIOLATION: line 3 of the included file (frobnicate a1) is neither parsed nor reported; the whole included file is dropped"
    bad=1
fi
exit $bad
