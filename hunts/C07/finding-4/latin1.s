main:
    li a0, 1        # café (Latin-1 e-acute in a comment)
    frobnicate a0   # malformed line
    li a7, 10
    ecall
