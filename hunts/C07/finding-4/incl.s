main:
    li a0, 1
    .include "latin1_lib.s"
    li a7, 10
    ecall
