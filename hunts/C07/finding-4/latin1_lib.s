helper:
    li a1, 2   # naïve
    frobnicate a1
    ret
