main:
    li a0, 1

    this line is not assembly at all
    frobnicate a0, a1
.endmacro
    li a7, 10
    ecall
