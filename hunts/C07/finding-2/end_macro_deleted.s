main:
    li a0, 1

    addi a0, a0, 1
.end_macro
    frobnicate a0, a1
    li a7, 10
    ecall
