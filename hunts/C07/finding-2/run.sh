#!/bin/sh
# Finding 2: a `.macro` line swallows the following lines (up to `.endmacro`, or to the
# end of the file) with a single diagnostic on the `.macro` line.
# Exits 1 when the violation is present, 0 when it is not.
cd "$(dirname "$0")" || exit 2
RVA=${RVA:-/tmp/wt3-C07/target/debug/rva}
[ -x "$RVA" ] || { echo "rva binary not found: $RVA"; exit 2; }
bad=0

# Diagnostics that are NOT located on line 3 (the `.macro` line), file name removed
others() { "$RVA" lint "$1" --compact --no-color | sed "s/$1/FILE/" | grep -Ev ' at 3 [0-9]+:[0-9]+$'; }

for f in endmacro end_macro; do
    echo "=== $f.s  (line 3 is '.macro m'; ${f}_deleted.s is the same file with line 3 emptied)"
    echo "--- rva lint $f.s";           "$RVA" lint $f.s --compact --no-color
    echo "--- rva lint ${f}_deleted.s"; "$RVA" lint ${f}_deleted.s --compact --no-color
    others $f.s > o.with; others ${f}_deleted.s > o.without
    if ! cmp -s o.with o.without; then
        echo "VIOLATION ($f.s): the lines other than line 3 are parsed differently when line 3 is deleted"
        bad=1
    fi
done

# The malformed body lines 4 and 5 of endmacro.s are neither nodes nor named by an error
for line in 4 5; do
    if ! "$RVA" lint endmacro.s --compact --no-color | grep -Eq " at $line [0-9]+:[0-9]+$"; then
        echo "VIOLATION (endmacro.s): line $line ('$(sed -n "${line}p" endmacro.s | sed 's/^ *//')') is dropped without a diagnostic located on it"
        bad=1
    fi
done
# In end_macro.s (RARS spelling of the terminator) everything after line 3 is gone, incl. the bad line 6
if ! "$RVA" lint end_macro.s --compact --no-color | grep -Eq " at 6 [0-9]+:[0-9]+$"; then
    echo "VIOLATION (end_macro.s): line 6 ('frobnicate a0, a1'), which lies after '.end_macro', is dropped without a diagnostic located on it"
    bad=1
fi
rm -f o.with o.without
exit $bad
