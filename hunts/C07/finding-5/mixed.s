main:
    li a0, 1   # set a0    frobnicate a0
    li a7, 10
    ecall
