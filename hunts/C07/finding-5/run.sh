#!/bin/sh
# Finding 5: a bare carriage return (classic Mac line ending, or a single line whose LF got lost)
# does not end a comment: everything that follows the CR is swallowed by the comment, silently.
# Exits 1 when the violation is present, 0 when it is not.
cd "$(dirname "$0")" || exit 2
RVA=${RVA:-/tmp/wt3-C07/target/debug/rva}
[ -x "$RVA" ] || { echo "rva binary not found: $RVA"; exit 2; }
bad=0
echo "--- rva lint lf.s       (reference, LF line ends; line 3 is malformed)"
"$RVA" lint lf.s --compact --no-color
echo "--- rva lint cr_only.s  (same text, every line ends with CR only)"
"$RVA" lint cr_only.s --compact --no-color
n=$("$RVA" lint cr_only.s --compact --no-color | wc -l)
if "$RVA" lint lf.s --compact --no-color | grep -q frobnicate && [ "$n" -eq 0 ]; then
    echo "VIOLATION: cr_only.s produces no diagnostic at all: the label, the malformed line and both instructions after the first comment were discarded silently"
    bad=1
fi
echo "--- rva lint crlf.s     (reference, CRLF line ends)"
"$RVA" lint crlf.s --compact --no-color
echo "--- rva lint mixed.s    (CRLF file in which line 2, which ends in a comment, ends with CR only)"
"$RVA" lint mixed.s --compact --no-color
if "$RVA" lint crlf.s --compact --no-color | grep -q frobnicate && ! "$RVA" lint mixed.s --compact --no-color | grep -q frobnicate; then
    echo "VIOLATION: in mixed.s the malformed text 'frobnicate a0' that follows a carriage return is discarded silently"
    bad=1
fi
exit $bad
