# entry point
main:
    frobnicate a0
    li a7, 10
    ecall
