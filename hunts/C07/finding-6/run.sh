#!/bin/sh
# Finding 6: a line that consists of stray commas is dropped without any diagnostic.
# Exits 1 when the violation is present, 0 when it is not.
cd "$(dirname "$0")" || exit 2
RVA=${RVA:-/tmp/wt3-C07/target/debug/rva}
[ -x "$RVA" ] || { echo "rva binary not found: $RVA"; exit 2; }
bad=0
echo "--- rva lint other_punct.s (control: line 3 is ';')"
"$RVA" lint other_punct.s --compact --no-color
echo "--- rva lint commas.s (lines 3, 4, 5 consist of commas)"
"$RVA" lint commas.s --compact --no-color
"$RVA" lint other_punct.s --compact --no-color | grep -q "Unexpected token.* at 3 1:1" || { echo "control failed: ';' is not reported"; exit 2; }
for line in 3 4 5; do
    if ! "$RVA" lint commas.s --compact --no-color | grep -q " at $line "; then
        echo "VIOLATION: line $line of commas.s ('$(sed -n "${line}p" commas.s)') contains stray punctuation, produces no node and is not named by any diagnostic"
        bad=1
    fi
done
exit $bad
