main:
    li a0, 1
,
    , , ,
    ,,,,   # trailing comment
    li a7, 10
    ecall
