main:
    la   t0, helper
    jalr t0, helper
    jalr t0 )
    jalr t0 "junk"
    jalr t0 .data
    jalr t0 helper:
    li   a7, 10
    ecall
helper:
    ret
