main:
    la   t0, helper
    jalr t0
    jalr t0
    jalr t0
    jalr t0
    jalr t0
    li   a7, 10
    ecall
helper:
    ret
