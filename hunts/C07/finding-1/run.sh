#!/bin/sh
# Finding 1: `jalr rs <anything>` silently swallows the token after the register.
# Exits 1 when the violation is present, 0 when it is not.
cd "$(dirname "$0")" || exit 2
RVA=${RVA:-/tmp/wt3-C07/target/debug/rva}
[ -x "$RVA" ] || { echo "rva binary not found: $RVA"; exit 2; }

# stray.s : lines 3-7 are `jalr t0 <stray text>` (a label name, ')', a string, a directive, a label definition)
# clean.s : the same file with the stray text removed
"$RVA" lint stray.s --compact --no-color | sed 's/stray\.s/FILE/' > out.stray
"$RVA" lint clean.s --compact --no-color | sed 's/clean\.s/FILE/' > out.clean
echo "--- diagnostics for stray.s"; cat out.stray
echo "--- diagnostics for clean.s"; cat out.clean

bad=0
for line in 3 4 5 6 7; do
    if ! grep -Eq "^Error: (Expected|Unexpected).* at $line [0-9]+:[0-9]+$" out.stray; then
        echo "VIOLATION: stray text on line $line of stray.s ($(sed -n "${line}p" stray.s | sed 's/^ *//')) produced no parse error"
        bad=1
    fi
done
if cmp -s out.stray out.clean; then
    echo "VIOLATION: output for stray.s is identical to the output for clean.s: the stray tokens were discarded silently"
    bad=1
fi
rm -f out.stray out.clean
exit $bad
