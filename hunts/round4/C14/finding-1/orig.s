.data
counter: .word 0
.text
main:
    jal     helper
    lw      t0, counter
    mv      a0, t0
    li      a7, 1
    ecall
    li      a7, 10
    ecall
helper:
    la      t1, counter
    lw      t2, 0(t1)
    addi    t2, t2, 1
    sw      t2, 0(t1)
    ret
