.data
cnt$1: .word 0
.text
main:
    jal     my.helper
    lw      t0, cnt$1
    mv      a0, t0
    li      a7, 1
    ecall
    li      a7, 10
    ecall
my.helper:
    la      t1, cnt$1
    lw      t2, 0(t1)
    addi    t2, t2, 1
    sw      t2, 0(t1)
    ret
