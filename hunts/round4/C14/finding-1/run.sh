#!/bin/sh
# C14: renaming labels to other valid identifiers must not change the diagnostics.
# `my.helper`, `cnt$1` and `hélper` are valid label names (RARS / GNU as, and the
# tool's own parser/label.rs LabelString::from_str accepts them).
RVA=${RVA:-/tmp/wt6-C14/target/debug/rva}
cd "$(dirname "$0")" || exit 2
strip() { sed -e 's#[^ ]*/\([a-z_]*\)\.s#FILE#'; }
o=$($RVA lint --compact --no-color orig.s | strip)
r1=$($RVA lint --compact --no-color renamed_dot_dollar.s | strip)
r2=$($RVA lint --compact --no-color renamed_unicode.s | strip)
echo "--- original (labels helper, counter):"; echo "$o"
echo "--- renamed helper->my.helper, counter->cnt\$1:"; echo "$r1"
echo "--- renamed helper->hélper:"; echo "$r2"
bad=0
# the renamings keep every line; only columns could move, and the original is clean
[ "$(echo "$o" | grep -c .)" = "$(echo "$r1" | grep -c .)" ] || bad=1
[ "$(echo "$o" | grep -c .)" = "$(echo "$r2" | grep -c .)" ] || bad=1
if [ $bad = 1 ]; then echo "VIOLATION: the renamed programs get diagnostics the original does not have"; exit 1; fi
echo "no violation"; exit 0
