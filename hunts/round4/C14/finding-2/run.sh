#!/bin/sh
# C14: consistently renaming the label `first` must only rename the diagnostics.
# `ret` and `ecall` are accepted as label names everywhere else (`ret:` defines, `jal ret` calls).
RVA=${RVA:-/tmp/wt6-C14/target/debug/rva}
cd "$(dirname "$0")" || exit 2
norm() { sed -e 's#[^ ]*/\([a-z_]*\)\.s#FILE#' -e "s/SYMBOL($1)/SYMBOL(<L>)/"; }
o=$($RVA lint --compact --no-color orig.s | norm first)
p=$($RVA lint --compact --no-color renamed_plain.s | norm other)
r=$($RVA lint --compact --no-color renamed_ret.s | norm ret)
e=$($RVA lint --compact --no-color renamed_ecall.s | norm ecall)
echo "--- original (label first):"; echo "$o"
echo "--- first -> other (same length):"; echo "$p"
echo "--- first -> ret:"; echo "$r"
echo "--- first -> ecall (same length):"; echo "$e"
bad=0
[ "$o" = "$p" ] || { echo "unexpected: plain renaming differs"; bad=1; }
# same length names: the output must be identical up to the name
[ "$o" = "$e" ] || { echo "VIOLATION: first->ecall changes the diagnostics"; bad=1; }
# ret is shorter: compare kinds and lines only
k() { echo "$1" | sed -e 's/ in FILE at \([0-9]*\) .*/ @\1/'; }
[ "$(k "$o")" = "$(k "$r")" ] || { echo "VIOLATION: first->ret changes the diagnostics"; bad=1; }
exit $bad
