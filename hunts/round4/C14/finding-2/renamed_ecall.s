# a jump table: `.word <label>` stores the address of a function (legal in RARS / GNU as)
.data
table:  .word ecall
.text
main:
    la      t0, table
    lw      t1, 0(t0)
    jal     ecall
    li      a7, 10
    ecall
ecall:
    li      a0, 1
    ret
