# a jump table: `.word <label>` stores the address of a function (legal in RARS / GNU as)
.data
table:  .word first
.text
main:
    la      t0, table
    lw      t1, 0(t0)
    jal     first
    li      a7, 10
    ecall
first:
    li      a0, 1
    ret
