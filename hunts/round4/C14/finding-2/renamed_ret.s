# a jump table: `.word <label>` stores the address of a function (legal in RARS / GNU as)
.data
table:  .word ret
.text
main:
    la      t0, table
    lw      t1, 0(t0)
    jal     ret
    li      a7, 10
    ecall
ret:
    li      a0, 1
    ret
