#!/bin/bash
# Finding 1 (C06): FunctionMarkupPass needs time ~ n^4 for n functions that fall
# through into each other.  Exits non-zero when the super-cubic growth is present.
cd "$(dirname "$0")"
RVA=${RVA:-/tmp/wt6-C06/target/release/rva}
SIZES="150 300 600"          # 754 / 1504 / 3004 lines, 8 / 17 / 35 KB
if [ ! -x "$RVA" ]; then
    RVA=/tmp/wt6-C06/target/debug/rva
    SIZES="100 200 400"      # the debug build is ~6x slower
fi
[ -x "$RVA" ] || { echo "no rva binary (cargo build --workspace --offline --release)"; exit 2; }
echo "binary: $RVA"
prev_t=""; prev_n=""; verdict=0
for n in $SIZES; do
    python3 gen.py "$n" > "in$n.s"
    s=$(date +%s.%N)
    timeout 110 "$RVA" lint "in$n.s" --compact > out.txt 2> err.txt
    rc=$?
    e=$(date +%s.%N)
    t=$(echo "$e - $s" | bc -l)
    printf "n=%-4d lines=%-5d bytes=%-6d rc=%-3d time=%.2fs diagnostics=%d\n" \
        "$n" "$(wc -l < in$n.s)" "$(stat -c %s in$n.s)" "$rc" "$t" "$(wc -l < out.txt)"
    if [ "$rc" = 124 ]; then echo "  -> timed out (110 s) on a $(stat -c %s in$n.s)-byte input"; verdict=1; fi
    if [ "$rc" != 0 ] && [ "$rc" != 124 ]; then echo "  -> unexpected exit code"; head -5 err.txt; fi
    if [ -n "$prev_t" ]; then
        k=$(echo "l($t / $prev_t) / l($n / $prev_n)" | bc -l)
        printf "  growth %d -> %d: factor %.1f, exponent %.2f\n" "$prev_n" "$n" "$(echo "$t / $prev_t" | bc -l)" "$k"
        last_k=$k
    fi
    prev_t=$t; prev_n=$n
done
rm -f out.txt err.txt in*.s
# doubling the input: x8 would be cubic, x16 quartic
if [ "$(echo "$last_k > 3.2" | bc -l)" = 1 ]; then
    echo "VIOLATION: running time grows faster than cubic (exponent $last_k over the last doubling; quartic in the limit)"
    verdict=1
fi
[ "$verdict" = 0 ] && echo "no violation observed"
exit $verdict
