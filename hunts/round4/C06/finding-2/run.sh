#!/bin/bash
# Finding 2 (C06): `rva lint` panics when the path of the file is not valid UTF-8.
cd "$(dirname "$0")"
RVA=${RVA:-/tmp/wt6-C06/target/debug/rva}
[ -x "$RVA" ] || RVA=/tmp/wt6-C06/target/release/rva
[ -x "$RVA" ] || { echo "no rva binary"; exit 2; }
d=$(mktemp -d)
name=$(printf 'prog\xff.s')                 # a legal Linux file name, not UTF-8
printf 'main:\n    li a7, 10\n    ecall\n' > "$d/$name"
mkdir "$d/$(printf 'dir\xfe')"
printf 'main:\n    li a7, 10\n    ecall\n' > "$d/$(printf 'dir\xfe')/ok.s"
verdict=0
for target in "$d/$name" "$d/$(printf 'dir\xfe')/ok.s"; do
  for mode in "" --compact --json --yaml --debug; do
    RUST_BACKTRACE=0 "$RVA" lint "$target" $mode > out.txt 2> err.txt
    rc=$?
    if [ $rc -ge 100 ] || grep -q panicked err.txt; then
        echo "mode='$mode' file=$(printf %q "${target#$d/}") exit=$rc: $(grep -A1 panicked err.txt | tr '\n' ' ')"
        verdict=1
    else
        echo "mode='$mode' file=$(printf %q "${target#$d/}") exit=$rc (no panic): $(head -1 out.txt)"
    fi
  done
done
# for comparison: a file whose *content* is not UTF-8 is reported as a diagnostic
printf 'main: # \xff\n' > "$d/content.s"
"$RVA" lint "$d/content.s" --compact | head -1
rm -rf "$d" out.txt err.txt
[ $verdict = 1 ] && echo "VIOLATION: panic (exit code 101) instead of a diagnostic"
exit $verdict
