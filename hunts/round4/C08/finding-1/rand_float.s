# RARS service 43 (RandFloat): a0 = index of the generator, result in fa0.
# a0 is NOT written by the environment call.
main:
    li   a0, 7
    li   a7, 1
    ecall               # PrintInt(a0 = 7): a0 is an argument only, it stays 7 (control case)
    addi a2, a0, 1      # a2 = 8
    li   a0, 7          # generator index
    li   a7, 43         # RandFloat
    ecall               # fa0 = random float, a0 still 7
    addi a1, a0, 1      # a1 = 8
    li   a7, 10
    ecall
