#!/bin/sh
# Exits non-zero when `ecall` with a7 = 43 (RandFloat) is said to overwrite a0.
cd "$(dirname "$0")" || exit 2
RVA=${RVA:-/tmp/wt6-C08/target/debug/rva}
out=$("$RVA" lint rand_float.s --debug --no-color 2>&1)
# values known behind the two `addi aX <- a0, 1` instructions
v1=$(printf '%s\n' "$out" | awk '/^addi a1 <- a0, 1/{f=1} f&&/VALO/{print; exit}')
v2=$(printf '%s\n' "$out" | awk '/^addi a2 <- a0, 1/{f=1} f&&/VALO/{print; exit}')
echo "behind service 43 (RandFloat): $v1"
echo "behind service 1  (PrintInt) : $v2"
case "$v2" in *"a2: 8"*) ;; *) echo "unexpected: the control case (service 1) does not keep a0 either"; exit 2;; esac
case "$v1" in
  *"a0: 7"*"a1: 8"*) echo "OK: a0 survives RandFloat"; exit 0;;
  *) echo "VIOLATION: the analyzer says ecall 43 writes a0 (a0: 7 / a1: 8 are gone), RARS writes fa0 only"; exit 1;;
esac
