# The exit block belongs to the function; it is reached before and after the
# frame is taken.
.text
main:
    li a7, 5
    ecall
    jal ra, f
    li a7, 1
    ecall
    li a7, 10
    ecall
f:
    bltz a0, bad            # sp = entry sp
    addi sp, sp, -16
    sw ra, 12(sp)
    jal ra, g
    bltz a0, bad            # sp = entry sp - 16
    lw ra, 12(sp)
    addi sp, sp, 16
    ret
bad:
    li a0, 1
    li a7, 93
    ecall
g:
    addi a0, a0, -5
    ret
