# Control: early_exit.s with the frame released before the join. Clean.
.text
main:
    li a7, 5
    ecall
    beqz a0, quit
    addi sp, sp, -16
    sw a0, 0(sp)
    li a7, 5
    ecall
    lw t0, 0(sp)
    add a0, a0, t0
    li a7, 1
    ecall
    addi sp, sp, 16
quit:
    li a7, 10
    ecall
