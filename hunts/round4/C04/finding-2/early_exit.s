# main reads a number; 0 ends the program at once, otherwise main takes a frame,
# works with it and ends the program (main never returns, so it has nothing to
# restore).  No function at all.
.text
main:
    li a7, 5
    ecall                   # a0 = number
    beqz a0, quit           # early exit: stack untouched
    addi sp, sp, -16
    sw a0, 0(sp)
    li a7, 5
    ecall                   # a0 = second number
    lw t0, 0(sp)
    add a0, a0, t0
    li a7, 1
    ecall
quit:
    li a7, 10
    ecall
