# A function gives up by jumping to the program's exit block.  The function
# itself restores everything on the path on which it returns.
.text
main:
    addi sp, sp, -16
    li a7, 5
    ecall
    sw a0, 0(sp)
    jal ra, f
    li a7, 1
    ecall
done:
    li a7, 10
    ecall
f:
    addi sp, sp, -32
    sw ra, 28(sp)
    bltz a0, done           # negative input: end the program
    jal ra, g
    lw ra, 28(sp)
    addi sp, sp, 32
    ret
g:
    addi a0, a0, 1
    ret
