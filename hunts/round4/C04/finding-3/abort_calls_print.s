# f is a leaf on its normal path.  On bad input it prints a message (a call) and
# ends the program: it never returns on that path, so it has no reason to save ra.
.data
msg: .string "negative input\n"
.text
main:
    li a7, 5
    ecall
    jal ra, f
    li a7, 1
    ecall
    li a7, 10
    ecall
f:
    bltz a0, bad
    addi a0, a0, 1
    ret
bad:
    la a0, msg
    jal ra, print
    li a0, 1
    li a7, 93
    ecall
print:
    li a7, 4
    ecall
    ret
