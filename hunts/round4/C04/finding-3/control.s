# Control: the abort path is part of main (not of a function). Clean.
.data
msg: .string "negative input\n"
.text
main:
    li a7, 5
    ecall
    bltz a0, bad
    jal ra, f
    li a7, 1
    ecall
    li a7, 10
    ecall
bad:
    la a0, msg
    jal ra, print
    li a0, 1
    li a7, 93
    ecall
f:
    addi a0, a0, 1
    ret
print:
    li a7, 4
    ecall
    ret
