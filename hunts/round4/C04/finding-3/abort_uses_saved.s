# Same with a saved register: the abort path uses s0 (across an ecall) and ends
# the program.
.text
main:
    li a7, 5
    ecall
    jal ra, f
    li a7, 1
    ecall
    li a7, 10
    ecall
f:
    bltz a0, bad
    addi a0, a0, 1
    ret
bad:
    mv s0, a0
    li a0, '!'
    li a7, 11
    ecall
    mv a0, s0
    li a7, 93
    ecall
