# Identifiers with a dot (allowed by RARS, and by LabelString::from_str).
.data
str.hello: .asciz "hello\n"
.text
main:
    la a0, str.hello
    jal ra, print.str
    li a7, 10
    ecall
print.str:
    li a7, 4
    ecall
    ret
