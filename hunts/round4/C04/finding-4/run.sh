#!/bin/sh
# Exits non-zero when the violation is present.
RVA=${RVA:-/tmp/wt6-C04/target/debug/rva}
cd "$(dirname "$0")" || exit 2
bad=0
c=$($RVA lint --no-color --compact control.s 2>&1)
if [ -n "$c" ]; then echo "control.s is not clean (unexpected): $c"; fi
for f in dotted.s dollar.s; do
    out=$($RVA lint --no-color --compact "$f" 2>&1)
    if [ -n "$out" ]; then
        echo "VIOLATION: conforming program $f is not reported clean:"
        echo "$out"
        bad=1
    else
        echo "$f: clean"
    fi
done
exit $bad
