.data
str_hello: .asciz "hello\n"
.text
main:
    la a0, str_hello
    jal ra, print_str
    li a7, 10
    ecall
print_str:
    li a7, 4
    ecall
    ret
