.text
main:
    li a0, 5
    jal ra, $twice
    li a7, 1
    ecall
    li a7, 10
    ecall
$twice:
    slli a0, a0, 1
    ret
