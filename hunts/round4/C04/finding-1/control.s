# Control: identical program, data written in front of the label. Clean.
.text
main:
    jal ra, greet
    li a7, 10
    ecall

.data
hello: .asciz "hello\n"
.text
greet:
    la a0, hello
    li a7, 4
    ecall
    ret
