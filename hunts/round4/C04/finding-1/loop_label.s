# Same thing with a plain jump label (no function involved).
.text
main:
    li s0, 3
again:
.data
nl: .asciz "\n"
.text
    la a0, nl
    li a7, 4
    ecall
    addi s0, s0, -1
    bnez s0, again
    li a7, 10
    ecall
