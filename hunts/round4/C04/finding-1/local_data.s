# A function that keeps its string next to its code: the label of the function
# is written first, then the data of the function, then its instructions.
.text
main:
    jal ra, greet
    li a7, 10
    ecall

greet:
.data
hello: .asciz "hello\n"
.text
    la a0, hello
    li a7, 4
    ecall
    ret
