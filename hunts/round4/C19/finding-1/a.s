main:
    add t0, t1, t2
    li a7, 10
    ecall
