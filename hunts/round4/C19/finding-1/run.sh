#!/bin/sh
# Exits non-zero when the violation is present.
cd "$(dirname "$0")" || exit 2
cargo build --offline --quiet 2>/dev/null || { echo "build failed"; exit 2; }
./target/debug/c19_finding1
