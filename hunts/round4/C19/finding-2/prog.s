main:
    li a0, 5
    li a7, 10
    ecall
