#!/bin/sh
# Exits non-zero when the violation is present.
cd "$(dirname "$0")" || exit 2
RVA=${RVA:-/tmp/wt6-C19/target/debug/rva}
bad=0
$RVA lint --yaml --no-output prog.s > pure.yaml
printf '%s' "reference (--yaml --no-output): "; python3 load.py < pure.yaml || { echo "reference does not load?"; exit 2; }
for flags in "" "--no-color" "--compact" "--json" "--all-files"; do
    $RVA lint --yaml $flags prog.s > out.txt 2>err.txt
    printf '%s' "rva lint --yaml $flags prog.s : stdout "
    if cmp -s out.txt pure.yaml; then echo "is the dump"; else
        extra=$(( $(wc -l < out.txt) - $(wc -l < pure.yaml) ))
        printf '%s' "= dump + $extra more lines (stderr: $(wc -c < err.txt) bytes); "
        python3 load.py < out.txt || bad=1
    fi
done
rm -f out.txt err.txt
if [ $bad -ne 0 ]; then echo "VIOLATION: the stream emitted with --yaml is not a loadable dump"; exit 1; fi
echo "no violation"
