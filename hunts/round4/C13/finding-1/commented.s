main:
    li a0, 1
    li a1, 2
    add a0, a1 # sum
    li a7, 10
    ecall
