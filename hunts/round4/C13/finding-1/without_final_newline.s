main:
    li a7, 10
    ecall
    add a0, a1