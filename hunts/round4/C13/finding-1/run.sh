#!/bin/sh
# C13, finding 1: the diagnostic for a statement that lacks an operand depends on
# what follows it on the line: a line break, a comment, or the end of the file.
# Exits 1 when the violation is present.
cd "$(dirname "$0")" || exit 2
RVA=${RVA:-/tmp/wt6-C13/target/debug/rva}
[ -x "$RVA" ] || { echo "rva binary not found: $RVA"; exit 2; }

# kind (title) and column range of every diagnostic, without the file name
diags() {
    "$RVA" lint "$1" --compact --no-color \
        | sed -E 's/ in \/.*\.s at ([0-9]+) ([0-9]+:[0-9]+)$/ @line \1 cols \2/'
}
# kind only
kinds() {
    "$RVA" lint "$1" --compact --no-color | sed -E 's/ in \/.*\.s at [0-9]+ [0-9]+:[0-9]+$//' | sort
}

status=0
for pair in "plain.s commented.s" "with_final_newline.s without_final_newline.s"; do
    set -- $pair
    echo "== $1"; diags "$1"
    echo "== $2"; diags "$2"
    if [ "$(kinds "$1")" != "$(kinds "$2")" ]; then
        echo "VIOLATION: $1 and $2 differ only in a comment / the final line break,"
        echo "           but the kinds of their diagnostics differ"
        status=1
    fi
    echo
done
[ $status -eq 0 ] && echo "no violation observed"
exit $status
