#!/bin/sh
# Finding 2: `Manager::run` (library entry point) returns the diagnostics of
# one and the same program in different orders from run to run, inside one
# process. Exits 1 when that is observed.
cd "$(dirname "$0")" || exit 2
TARGET=$(mktemp -d /tmp/c10-order-target.XXXXXX)
trap 'rm -rf "$TARGET"' EXIT
CARGO_TARGET_DIR="$TARGET" cargo build --offline --quiet 2>/dev/null || {
    echo "build failed"; CARGO_TARGET_DIR="$TARGET" cargo build --offline 2>&1 | tail -20; exit 2; }
"$TARGET/debug/c10_order" input.s
