main:
    jal  f
    li   a7, 10
    ecall
f:
    add  a0, s0, s1
    ret
