# Diamond include: util.s and io.s both need the shared definitions in common.s
.include "util.s"
.include "io.s"
main:
    li   a0, 1
    li   a7, 1
    ecall
    li   a7, 10
    ecall
