.include "common.s"
