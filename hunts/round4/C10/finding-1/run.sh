#!/bin/sh
# Finding 1: a file that is included twice (here through a diamond:
# main.s -> util.s -> common.s and main.s -> io.s -> common.s) has every one of
# its diagnostics reported twice - same kind, same file name, same range, same
# message. Exits 1 when the duplicates are present.
cd "$(dirname "$0")" || exit 2
RVA="${RVA:-/tmp/wt6-C10/target/debug/rva}"
[ -x "$RVA" ] || { echo "rva binary not found: $RVA"; exit 2; }

compact=$("$RVA" lint main.s --compact --no-color --all-files)
echo "--- rva lint main.s --compact --no-color --all-files"
echo "$compact"
dups=$(echo "$compact" | sort | uniq -d)

echo "--- rva lint main.s --no-color   (default mode: only the count is shown)"
"$RVA" lint main.s --no-color

json_dups=$("$RVA" lint main.s --json | python3 -c '
import json, sys
seen, n = set(), 0
for d in json.load(sys.stdin)["diagnostics"]:
    k = json.dumps(d, sort_keys=True)
    n += k in seen
    seen.add(k)
print(n)')
echo "--- identical items in the --json output: $json_dups"

if [ -n "$dups" ] || [ "$json_dups" != "0" ]; then
    echo "VIOLATION: diagnostics reported more than once:"
    echo "$dups"
    exit 1
fi
echo "no duplicate diagnostics"
exit 0
