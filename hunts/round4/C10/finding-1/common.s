.eqv  ANSWER, 42
    li   t0, 1
