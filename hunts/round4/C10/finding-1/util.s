.include "common.s"
