main:
    li   a0, -zer0
    li   a7, 10
    ecall
