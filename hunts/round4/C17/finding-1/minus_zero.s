main:
    li   a0, -zero          # not a literal in any of the four notations
    addi a1, a0, -ZERO
    csrrwi a2, -zero, 1     # CSR operand
    li   a7, 10
    ecall
.data
    .word -zero             # data directive
