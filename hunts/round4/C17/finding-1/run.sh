#!/bin/sh
# Exits non-zero when the violation is present: the malformed spelling `-zero`
# is accepted as the immediate 0 without any parse error.
cd "$(dirname "$0")" || exit 2
RVA=/tmp/wt6-C17/target/debug/rva
[ -x "$RVA" ] || (cd /tmp/wt6-C17 && cargo build --workspace --offline >/dev/null 2>&1)
[ -x "$RVA" ] || { echo "rva binary missing"; exit 2; }
out=$("$RVA" lint minus_zero.s --compact --no-color 2>&1)
dbg=$("$RVA" lint minus_zero.s --debug --no-color 2>&1 | grep -E '^(addi|csrrwi) ')
ctl=$("$RVA" lint control.s --compact --no-color 2>&1)
echo "--- diagnostics for minus_zero.s:"; echo "$out"
echo "--- instructions as read:"; echo "$dbg"
echo "--- control (-zer0) diagnostics:"; echo "$ctl"
echo "$ctl" | grep -q "Expected IMMEDIATE" || { echo "control failed: harness problem"; exit 2; }
n=$(echo "$out" | grep -c "Expected")
if [ "$n" -eq 0 ] && echo "$dbg" | grep -q "addi a0 <- zero, 0"; then
  echo "VIOLATION: '-zero' / '-ZERO' read as immediate 0 in 4 operand positions, no parse error"
  exit 1
fi
echo "no violation: -zero is rejected"
exit 0
