main:
    li   a7, 10
    ecall
trampoline:
    jalr t0