#!/bin/bash
# Finding 1: `jalr rs` as the last statement of a file without a final newline.
# Exits non-zero when the two spellings of the same program get different diagnostics.
cd "$(dirname "$0")"
RVA=${RVA:-/tmp/wt3-C13/target/debug/rva}
# the two inputs differ only in the final newline
printf 'main:\n    li   a7, 10\n    ecall\ntrampoline:\n    jalr t0\n' > with_newline.s
printf 'main:\n    li   a7, 10\n    ecall\ntrampoline:\n    jalr t0'   > without_newline.s
norm() { "$RVA" lint "$1" --compact --no-color 2>&1 | sed -E 's/ in .* at ([0-9]+) [0-9]+:[0-9]+$/ @line \1/' | sort; }
A=$(norm with_newline.s); B=$(norm without_newline.s)
echo "--- with final newline:";    echo "$A"
echo "--- without final newline:"; echo "$B"
if [ "$A" != "$B" ]; then echo "VIOLATION: diagnostics depend on the final newline"; exit 1; fi
echo "no difference"; exit 0
