#!/bin/bash
# Finding 2: replacing `li t1, 0x12345678` by its expansion `lui t1, 0x12345 ; addi t1, t1, 0x678`
# moves the "Invalid use before assignment" diagnostic to a different instruction.
# Exits non-zero when the diagnostics (kind + text of the source line they point at) differ.
cd "$(dirname "$0")"
RVA=${RVA:-/tmp/wt3-C13/target/debug/rva}
norm() {  # kind + the instruction the diagnostic points at (line numbers differ by construction)
  "$RVA" lint "$1" --compact --no-color 2>&1 | while IFS= read -r l; do
    n=$(echo "$l" | sed -nE 's/.* at ([0-9]+) [0-9]+:[0-9]+$/\1/p')
    k=$(echo "$l" | sed -E 's/ in .* at [0-9]+ [0-9]+:[0-9]+$//')
    if [ -n "$n" ]; then echo "$k  ->  $(sed -n "${n}p" "$1" | sed -E 's/^[ \t]+//; s/[ \t]+/ /g')"; else echo "$l"; fi
  done | sort; }
A=$(norm pseudo.s); B=$(norm expanded.s)
echo "--- pseudo.s   (li t1, 0x12345678):";                      echo "$A"
echo "--- expanded.s (lui t1, 0x12345 ; addi t1, t1, 0x678):";   echo "$B"
if [ "$A" != "$B" ]; then echo "VIOLATION: the diagnostic sits on a different instruction"; exit 1; fi
echo "no difference"; exit 0
