main:
    beqz a0, pathA
    addi a1, a1, 1
    addi a1, a1, 1
    add  a0, a1, t0
    j    done
pathA:
    lui  t1, 0x12345
    addi t1, t1, 0x678
    add  a0, t1, t0
done:
    li   a7, 1
    ecall
    li   a7, 10
    ecall
