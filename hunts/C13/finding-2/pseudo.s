main:
    beqz a0, pathA
    addi a1, a1, 1
    addi a1, a1, 1
    add  a0, a1, t0
    j    done
pathA:
    li   t1, 0x12345678
    add  a0, t1, t0
done:
    li   a7, 1
    ecall
    li   a7, 10
    ecall
