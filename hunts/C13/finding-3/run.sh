#!/bin/bash
# Finding 3: adding comment/blank lines at the top of an included file moves the
# "Invalid use before assignment" diagnostic from an instruction of inc.s to an instruction of main.s.
# Exits non-zero when the diagnostics (kind + file + text of the source line) differ.
cd "$(dirname "$0")"
RVA=${RVA:-/tmp/wt3-C13/target/debug/rva}
norm() {
  "$RVA" lint "$1/main.s" --compact --no-color --all-files 2>&1 | while IFS= read -r l; do
    f=$(echo "$l" | sed -nE 's/.* in (.*) at [0-9]+ [0-9]+:[0-9]+$/\1/p')
    n=$(echo "$l" | sed -nE 's/.* at ([0-9]+) [0-9]+:[0-9]+$/\1/p')
    k=$(echo "$l" | sed -E 's/ in .* at [0-9]+ [0-9]+:[0-9]+$//')
    if [ -n "$n" ]; then echo "$k  ->  $(basename "$f"): $(sed -n "${n}p" "$f" | sed -E 's/^[ \t]+//; s/[ \t]+/ /g')"; else echo "$l"; fi
  done | sort; }
A=$(norm plain); B=$(norm commented)
echo "--- plain/      (inc.s without leading comments), --all-files:"; echo "$A"
echo "--- commented/  (inc.s with 5 leading comment/blank lines), --all-files:"; echo "$B"
echo "--- same two runs without --all-files (what a user sees by default):"
"$RVA" lint plain/main.s --compact --no-color | sed 's/^/plain:     /'
"$RVA" lint commented/main.s --compact --no-color | sed 's/^/commented: /'
if [ "$A" != "$B" ]; then echo "VIOLATION: comments in inc.s changed which instruction is flagged"; exit 1; fi
echo "no difference"; exit 0
