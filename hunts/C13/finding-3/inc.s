# inc.s - prints t0 + 1 and exits.
# (These comment lines are the only difference to plain/inc.s; they make the
#  instructions of this file start at a larger character offset than the
#  instructions after the .include in main.s.)

    addi a0, t0, 1
    li   a7, 1
    ecall
    li   a7, 10
    ecall
