main:
    beqz a0, other
    .include "inc.s"
other:
    addi a0, t0, 2
    li   a7, 1
    ecall
    li   a7, 10
    ecall
