main:
    j p
a:  li t1, 1
b:  li t2, 2
c:  j a
p:  jal t3, b
    li a7, 10
    ecall
