#!/bin/bash
# Finding 3: an include graph in which every file includes the next one twice makes
# `rva lint` take time and memory exponential in the size of the input.
# Exits non-zero when the violation is present.
here="$(cd "$(dirname "$0")" && pwd)"
RVA="${RVA:-/tmp/wt3-C06/target/debug/rva}"
LIMIT="${LIMIT:-20}"
gen() { # gen DEPTH -> directory with DEPTH+1 files
  local n=$1 d="$here/tree$1"
  rm -rf "$d"; mkdir -p "$d"
  for i in $(seq 0 $((n-1))); do
    printf '.include "f%d.s"\n.include "f%d.s"\n' $((i+1)) $((i+1)) > "$d/f$i.s"
  done
  printf 'nop\n' > "$d/f$n.s"
  echo "$d"
}
bad=0
prev=""
for n in 8 10 12 14; do
  d=$(gen $n)
  bytes=$(cat "$d"/*.s | wc -c)
  s=$(date +%s.%N)
  out=$(timeout 120 "$RVA" lint "$d/f0.s" --compact | tail -1)
  e=$(date +%s.%N)
  t=$(echo "$e - $s" | bc)
  echo "depth $n: $((n+1)) files, $bytes bytes of input, ${t}s, last line: $out"
done
d=$(gen 20)
bytes=$(cat "$d"/*.s | wc -c)
timeout "$LIMIT" "$RVA" lint "$d/f0.s" --compact >/dev/null 2>&1
rc=$?
if [ $rc -eq 124 ]; then
  echo "VIOLATION: 21 files / $bytes bytes of input: rva lint did not finish within ${LIMIT}s (time grows 4x per 2 extra files)"
  bad=1
elif [ $rc -ne 0 ]; then
  echo "VIOLATION: 21 files / $bytes bytes of input: rva lint died with rc=$rc (out of memory?)"
  bad=1
else
  echo "ok: depth 20 finished"
fi
exit $bad
