.include "f14.s"
.include "f14.s"
