.include "f9.s"
.include "f9.s"
