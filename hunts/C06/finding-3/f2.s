.include "f3.s"
.include "f3.s"
