.include "f2.s"
.include "f2.s"
