.include "f18.s"
.include "f18.s"
