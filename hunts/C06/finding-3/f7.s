.include "f8.s"
.include "f8.s"
