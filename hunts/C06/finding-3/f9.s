.include "f10.s"
.include "f10.s"
