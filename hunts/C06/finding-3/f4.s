.include "f5.s"
.include "f5.s"
