.include "f20.s"
.include "f20.s"
