nop
