.include "f16.s"
.include "f16.s"
