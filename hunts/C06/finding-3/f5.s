.include "f6.s"
.include "f6.s"
