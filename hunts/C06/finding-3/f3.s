.include "f4.s"
.include "f4.s"
