.include "f7.s"
.include "f7.s"
