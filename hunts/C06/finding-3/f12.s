nop
