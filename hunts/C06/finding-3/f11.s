.include "f12.s"
.include "f12.s"
