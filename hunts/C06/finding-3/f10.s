nop
