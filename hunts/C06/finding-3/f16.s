.include "f17.s"
.include "f17.s"
