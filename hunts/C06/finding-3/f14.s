nop
