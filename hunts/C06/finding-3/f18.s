.include "f19.s"
.include "f19.s"
