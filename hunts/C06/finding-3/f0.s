.include "f1.s"
.include "f1.s"
