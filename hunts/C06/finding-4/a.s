nop
