#!/bin/bash
# Finding 4 (borderline): a file whose NAME is not valid UTF-8 makes the CLI panic.
# Exits non-zero when the violation is present.
here="$(cd "$(dirname "$0")" && pwd)"
RVA="${RVA:-/tmp/wt3-C06/target/debug/rva}"
f="$here/"$'prog\xff.s'
printf 'main:\n    li a7, 10\n    ecall\n' > "$f" || { echo "file system refuses non-UTF-8 names; cannot test"; exit 0; }
bad=0
for mode in "" "--compact" "--json" "--yaml" "--debug"; do
  "$RVA" lint "$f" $mode >/dev/null 2>"$here/stderr.txt"
  rc=$?
  if [ $rc -ne 0 ]; then
    echo "VIOLATION: rva lint <name with byte 0xff> $mode -> rc=$rc: $(grep -A1 -m1 panicked "$here/stderr.txt" | tr '\n' ' ')"
    bad=1
  else
    echo "ok: mode '$mode' rc=0"
  fi
done
# for comparison: the same file inside a directory with a non-UTF-8 name is handled gracefully
d="$here/"$'dir\xff'
mkdir -p "$d" && printf 'nop\n' > "$d/a.s" && (cd "$d" && "$RVA" lint a.s --compact; echo "   (directory case: rc=$?)")
exit $bad
