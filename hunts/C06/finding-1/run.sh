#!/bin/bash
# Finding 1: the available-value fixed point never settles (rva lint loops forever).
# Exits non-zero when the violation is present.
here="$(cd "$(dirname "$0")" && pwd)"
RVA="${RVA:-/tmp/wt3-C06/target/debug/rva}"
LIMIT="${LIMIT:-10}"
bad=0
for f in three_jumps.s counter.s; do
  for mode in "" "--compact" "--json" "--yaml" "--debug"; do
    timeout "$LIMIT" "$RVA" lint "$here/$f" $mode >/dev/null 2>&1
    rc=$?
    if [ $rc -eq 124 ]; then
      echo "VIOLATION: rva lint $f $mode did not finish within ${LIMIT}s ($(wc -c < "$here/$f") bytes of input)"
      bad=1
    else
      echo "ok: rva lint $f $mode finished with rc=$rc"
    fi
  done
done
# Library entry point (RVParser::run over the in-memory reader), if the harness can be built
LT=/tmp/hunt-C06/libtest
if [ -d "$LT" ] && (cd "$LT" && CARGO_TARGET_DIR="$LT/target" cargo build --offline >/dev/null 2>&1); then
  for f in three_jumps.s counter.s; do
    "$LT/target/debug/libtest" "$here/$f" "$LIMIT"; rc=$?
    if [ $rc -ne 0 ]; then echo "VIOLATION (library): RVParser::run on $f rc=$rc"; bad=1; fi
  done
fi
exit $bad
