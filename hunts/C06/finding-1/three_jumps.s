f:
    j h
l:
    j f
h:
    j l
