# A plausible student program: a state machine whose blocks are laid out
# "out of order". Control flow: main -> f -> h -> l -> f ...
main:
    li   a0, 1
f:
    beqz a0, h
    li   a7, 10
    ecall
l:
    addi a0, a0, 1
    j    f
h:
    addi a0, a0, -1
    j    l
