.include "c63.s"
