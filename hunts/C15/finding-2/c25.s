.include "c26.s"
