.include "c53.s"
