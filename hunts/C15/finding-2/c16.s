.include "c17.s"
