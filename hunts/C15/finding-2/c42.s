.include "c43.s"
