.include "c30.s"
