.include "c14.s"
