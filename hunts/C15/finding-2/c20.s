.include "c21.s"
