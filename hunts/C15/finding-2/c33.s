.include "c34.s"
