.include "c58.s"
