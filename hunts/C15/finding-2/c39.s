.include "c40.s"
