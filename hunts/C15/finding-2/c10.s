.include "c11.s"
