.include "c38.s"
