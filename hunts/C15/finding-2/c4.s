.include "c5.s"
