.include "c22.s"
