.include "c6.s"
