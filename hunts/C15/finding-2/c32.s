.include "c33.s"
