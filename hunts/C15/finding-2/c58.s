.include "c59.s"
