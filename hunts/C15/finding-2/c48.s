.include "c49.s"
