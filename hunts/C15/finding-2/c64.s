    ecall
    li t1, 5
