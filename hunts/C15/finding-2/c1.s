.include "c2.s"
