#!/bin/bash
# C15 finding 2: an acyclic include chain deeper than 63 is refused as "Cyclic dependency"
cd "$(dirname "$0")" || exit 2
RVA=${RVA:-/tmp/wt3-C15/target/debug/rva}
rm -rf chain63 chain64
./gen.sh 63 chain63; ./gen.sh 64 chain64
strip() { sed -e "s#$(pwd)/##"; }
echo "== whole.s"; $RVA lint whole.s --compact --no-color --all-files | strip
echo "== chain of 63 nested includes (works)"; $RVA lint chain63/base.s --compact --no-color --all-files | strip
echo "== chain of 64 nested includes"; OUT=$($RVA lint chain64/base.s --compact --no-color --all-files | strip); echo "$OUT"
if echo "$OUT" | grep -q "Cyclic dependency"; then
  echo "== VIOLATION: no file is included twice, yet a cyclic dependency is reported and c64.s is not analysed"
  exit 1
fi
echo "no violation"; exit 0
