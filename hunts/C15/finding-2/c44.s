.include "c45.s"
