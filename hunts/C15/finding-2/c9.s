.include "c10.s"
