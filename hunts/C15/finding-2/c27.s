.include "c28.s"
