main:
    li a7, 10
    ecall
    li t1, 5
