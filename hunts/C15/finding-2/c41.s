.include "c42.s"
