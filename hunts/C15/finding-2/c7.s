.include "c8.s"
