.include "c52.s"
