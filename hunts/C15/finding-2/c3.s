.include "c4.s"
