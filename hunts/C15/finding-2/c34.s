.include "c35.s"
