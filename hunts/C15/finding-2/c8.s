.include "c9.s"
