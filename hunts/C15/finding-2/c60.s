.include "c61.s"
