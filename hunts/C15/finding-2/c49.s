.include "c50.s"
