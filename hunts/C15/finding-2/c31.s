.include "c32.s"
