.include "c25.s"
