.include "c57.s"
