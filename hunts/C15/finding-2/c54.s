.include "c55.s"
