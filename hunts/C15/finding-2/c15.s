.include "c16.s"
