.include "c36.s"
