.include "c20.s"
