.include "c7.s"
