.include "c39.s"
