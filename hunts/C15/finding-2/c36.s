.include "c37.s"
