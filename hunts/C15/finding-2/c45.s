.include "c46.s"
