.include "c29.s"
