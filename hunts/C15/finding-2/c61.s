.include "c62.s"
