.include "c18.s"
