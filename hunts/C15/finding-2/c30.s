.include "c31.s"
