.include "c27.s"
