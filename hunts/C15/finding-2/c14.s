.include "c15.s"
