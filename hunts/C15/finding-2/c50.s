.include "c51.s"
