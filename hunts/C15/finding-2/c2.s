.include "c3.s"
