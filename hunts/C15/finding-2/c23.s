.include "c24.s"
