.include "c12.s"
