.include "c47.s"
