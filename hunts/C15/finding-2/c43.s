.include "c44.s"
