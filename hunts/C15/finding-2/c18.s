.include "c19.s"
