.include "c48.s"
