.include "c56.s"
