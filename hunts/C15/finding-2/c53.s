.include "c54.s"
