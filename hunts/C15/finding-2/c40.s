.include "c41.s"
