main:
    li a7, 10
.include "c1.s"
