.include "c23.s"
