.include "c60.s"
