.include "c13.s"
