.data
tbl: .word 1, 2
     3, 4
     5, 6
.text
main:
    la a0, tbl
    li a7, 10
    ecall
