#!/bin/bash
# C15 finding 3: a statement cannot continue across the end of an included file
cd "$(dirname "$0")" || exit 2
RVA=${RVA:-/tmp/wt3-C15/target/debug/rva}
strip() { sed -e "s#$(pwd)/##"; }
rc=0
echo "== (a) multi-line .word list cut at a line boundary"
echo "-- whole_data.s"; $RVA lint whole_data.s --compact --no-color --all-files | strip
echo "-- base_data.s + more.s (more.s = lines 3-4 of whole_data.s)"
A=$($RVA lint base_data.s --compact --no-color --all-files | strip); echo "$A"
if echo "$A" | grep -q "in more.s"; then
  echo "VIOLATION (a): parse errors in more.s that the pasted file does not have"; rc=1
fi
echo "== (b) included file without a final newline, last statement 'jalr t0'"
echo "-- whole_jalr.s"; $RVA lint whole_jalr.s --compact --no-color --all-files | strip
echo "-- base_jalr.s + tail_nonl.s"
B=$($RVA lint base_jalr.s --compact --no-color --all-files | strip); echo "$B"
if echo "$B" | grep -q "Unexpected end of file"; then
  echo "VIOLATION (b): 'Unexpected end of file' although the text continues in the including file"; rc=1
fi
[ $rc = 0 ] && echo "no violation"
exit $rc
