main:
    jal foo
    li a7, 10
    ecall
foo:
    mv t0, ra
.include "tail_nonl.s"
