.data
tbl: .word 1, 2
.include "more.s"
.text
main:
    la a0, tbl
    li a7, 10
    ecall
