main:
    jal foo
    jal bar
    li a7, 10
    ecall
foo:
.include "frag.s"
    ret
bar:
.include "frag.s"
    ret
