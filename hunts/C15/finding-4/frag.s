    li s1, 1
