main:
    jal foo
    jal bar
    li a7, 10
    ecall
foo:
    li s1, 1
    ret
bar:
    li s1, 1
    ret
