#!/bin/bash
# C15 finding 4: with a reader that gives one id per document (the project's LSP reader), a file that
# is included twice loses diagnostics
cd "$(dirname "$0")" || exit 2
export CARGO_TARGET_DIR=/tmp/hunt-C15/lsptest/target
(cd harness && cargo build --offline -q 2>/dev/null) || { echo "harness build failed"; exit 2; }
L=$CARGO_TARGET_DIR/debug/lsptest
RVA=${RVA:-/tmp/wt3-C15/target/debug/rva}
echo "== single file through the LSP reader"
W=$($L file:///w/whole.s=whole.s); echo "$W"
echo "== base.s including frag.s twice, through the LSP reader (riscv_analysis_lsp/src/lsp/mod.rs, unmodified)"
S=$($L file:///w/base.s=base.s file:///w/frag.s=frag.s); echo "$S"
echo "== the same tree through the CLI reader, for comparison"
$RVA lint base.s --compact --no-color --all-files | sed -e "s#$(pwd)/##"
nw=$(echo "$W" | grep -c "Overwrite callee-saved register")
ns=$(echo "$S" | grep -c "Overwrite callee-saved register")
echo "Overwrite callee-saved register: single file $nw, include tree $ns"
if [ "$nw" != "$ns" ]; then echo "== VIOLATION: a diagnostic of the pasted program is missing"; exit 1; fi
echo "no violation"; exit 0
