main:
    li t1, 5
.include "//["
    li a7, 10
    ecall
