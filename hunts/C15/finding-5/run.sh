#!/bin/bash
# C15 finding 5: the LSP (in-memory) reader panics on an include path that cannot be joined to the
# URI of the including document
cd "$(dirname "$0")" || exit 2
export CARGO_TARGET_DIR=/tmp/hunt-C15/lsptest/target
(cd harness && cargo build --offline -q 2>/dev/null) || { echo "harness build failed"; exit 2; }
L=$CARGO_TARGET_DIR/debug/lsptest
RVA=${RVA:-/tmp/wt3-C15/target/debug/rva}
echo "== ok.s (.include \"missing.s\") through the LSP reader: error on the directive, rest analysed"
$L file:///w/ok.s=ok.s
echo "== bad.s (.include \"//[\") through the CLI reader: error on the directive, rest analysed"
$RVA lint bad.s --compact --no-color | sed -e "s#$(pwd)/##"
echo "== bad.s through the LSP reader"
OUT=$(RUST_BACKTRACE=0 $L file:///w/bad.s=bad.s 2>&1); rc=$?; echo "$OUT"; echo "exit status $rc"
if [ $rc -ne 0 ] || ! echo "$OUT" | grep -q "Unused value"; then
  echo "== VIOLATION: no diagnostics at all, the analysis aborted (panic) instead of an error on the directive"
  exit 1
fi
echo "no violation"; exit 0
