main:
    li t1, 5
.include "missing.s"
    li a7, 10
    ecall
