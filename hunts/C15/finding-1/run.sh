#!/bin/bash
# C15 finding 1: a diagnostic moves to another instruction when the program is split with .include
cd "$(dirname "$0")" || exit 2
RVA=${RVA:-/tmp/wt3-C15/target/debug/rva}
strip() { sed -e "s#$(pwd)/##"; }
W=$($RVA lint whole.s --compact --no-color --all-files | strip)
S=$($RVA lint base.s  --compact --no-color --all-files | strip)
echo "== whole.s (single file)"; echo "$W"
echo "== base.s + tail.s (tail.s = lines 10-12 of whole.s)"; echo "$S"
# Expected after mapping: whole.s line N (N<=9) == base.s line N ; whole.s line 10+k == tail.s line 1+k
EXP=$(echo "$W" | awk '{
  for (i=1;i<=NF;i++) if ($i=="at") { n=$(i+1); f="base.s"; if (n>=10) { n=n-9; f="tail.s" } ; $(i+1)=n; $(i-1)=f }
  print }' | sort)
GOT=$(echo "$S" | sort)
if [ "$EXP" != "$GOT" ]; then
  echo "== VIOLATION: diagnostics differ after mapping positions"
  diff <(echo "$EXP") <(echo "$GOT")
  exit 1
fi
echo "no violation"; exit 0
