main:
    li a0, 1
    jal foo
    li a7, 10
    ecall
foo:
    beq a0, zero, L1
    add a0, t0, a0
    ret
.include "tail.s"
