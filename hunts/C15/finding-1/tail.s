L1:
    add a0, t0, t0
    ret
