#!/bin/bash
# C18 finding 1: --json ignores the file selection (base file only vs --all-files).
cd "$(dirname "$0")"
RVA=${RVA:-/tmp/wt3-C18/target/debug/rva}
n_compact=$($RVA lint main.s --compact --no-color | grep -c -E '^(Error|Warning|Info|Hint): ')
n_pretty=$($RVA lint main.s --no-color | grep -c -E '^(Error|Warning|Info|Hint): ')
n_json=$($RVA lint main.s --json | grep -c '"title"')
n_compact_all=$($RVA lint main.s --compact --no-color --all-files | grep -c -E '^(Error|Warning|Info|Hint): ')
n_json_all=$($RVA lint main.s --json --all-files | grep -c '"title"')
echo "base file only : pretty=$n_pretty compact=$n_compact json=$n_json"
echo "--all-files    : compact=$n_compact_all json=$n_json_all"
$RVA lint main.s --json | grep '"file"' | sort | uniq -c
if [ "$n_json" != "$n_compact" ] || [ "$n_json" != "$n_pretty" ]; then
  echo "VIOLATION: without --all-files the JSON output reports $n_json diagnostics (including other files), pretty/compact report $n_compact"
  exit 1
fi
echo "ok"; exit 0
