    add x0, a0, a0
