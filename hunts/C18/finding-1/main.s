main:
    li a0, 1
    li t0, 5
    .include "inc.s"
    li a7, 10
    ecall
