main:
    li a7, 10
    ecall
    .macro exit_program
    li a7, 10
    ecall
    .end_macro
