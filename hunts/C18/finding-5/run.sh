#!/bin/bash
# C18 finding 5: a diagnostic whose range ends on a later line than it starts
# ("Unexpected end of file" for a .macro that is not closed by .endmacro).
# The columns/marker mix the start column of one line with the end column of another.
cd "$(dirname "$0")"
RVA=${RVA:-/tmp/wt3-C18/target/debug/rva}
rc=0
for f in short_tail.s rars_macro.s; do
  echo "=== $f"
  cat -n $f
  $RVA lint $f --compact --no-color
  $RVA lint $f --no-color | cat -A | sed -n 1,6p
  $RVA lint $f --json | tr -d ' \n' | sed 's/.*"range"://; s/}}}.*/}}/' ; echo
  sl=$($RVA lint $f --json | tr -d ' \n' | sed 's/.*"start":{"line":\([0-9]*\).*/\1/')
  el=$($RVA lint $f --json | tr -d ' \n' | sed 's/.*"end":{"line":\([0-9]*\).*/\1/')
  sc=$($RVA lint $f --compact --no-color | sed -n 's/.* at [0-9]* \([0-9]*\):\([0-9]*\)$/\1/p' | head -1)
  ec=$($RVA lint $f --compact --no-color | sed -n 's/.* at [0-9]* \([0-9]*\):\([0-9]*\)$/\2/p' | head -1)
  srcline=$(sed -n "$((sl+1))p" $f | sed 's/^[ \t]*//')
  marker=$($RVA lint $f --no-color | sed -n 5p | sed 's/^ *| \{0,1\}//')
  ncarets=$(printf '%s' "$marker" | tr -cd '^' | wc -c)
  echo "start line=$((sl+1)) end line=$((el+1)) compact columns=$sc:$ec carets=$ncarets length of shown text=${#srcline}"
  if [ "$sl" != "$el" ]; then
    if [ "$ec" -lt "$sc" ] || [ "$ncarets" = "0" ]; then
      echo "VIOLATION ($f): end column $ec < start column $sc and the excerpt has no marker at all"; rc=1
    elif [ "$ncarets" != "${#srcline}" ]; then
      echo "VIOLATION ($f): the marker ($ncarets carets) is sized by the end column of line $((el+1)), not by the line shown (${#srcline} characters)"; rc=1
    fi
  fi
done
[ $rc = 0 ] && echo ok
exit $rc
