#!/bin/bash
# C18 finding 2: diagnostic titles that contain a line break; the compact output
# (one diagnostic per line) and the pretty header are no longer well-formed.
cd "$(dirname "$0")"
RVA=${RVA:-/tmp/wt3-C18/target/debug/rva}
F=label_operand.s
n_json=$($RVA lint $F --json | grep -c '"title"')
echo "--- compact output:"
$RVA lint $F --compact --no-color
echo "--- JSON titles:"
$RVA lint $F --json | grep '"title"'
# every non-empty compact line must be a complete record
bad=$($RVA lint $F --compact --no-color | grep -v -E '^$|^[0-9]+ diagnostics? found in other files' \
      | grep -c -v -E '^(Error|Warning|Info|Hint): .+ in /.* at [0-9]+ [0-9]+:[0-9]+$')
good=$($RVA lint $F --compact --no-color | grep -c -E '^(Error|Warning|Info|Hint): .+ in /.* at [0-9]+ [0-9]+:[0-9]+$')
nl_titles=$($RVA lint $F --json | grep '"title"' | grep -c '\\n')
echo "json diagnostics=$n_json, complete compact records=$good, broken compact lines=$bad, titles with line break=$nl_titles"
if [ "$bad" != "0" ] || [ "$nl_titles" != "0" ] || [ "$good" != "$n_json" ]; then
  echo "VIOLATION: a title contains a line break; the compact channel does not carry one record per diagnostic"
  exit 1
fi
echo ok; exit 0
