main:
    beq a0, a1, done:
    li a0, "x\ny"
done:
    li a7, 10
    ecall
