#!/bin/bash
# C18 finding 3: in a CRLF file the marker line of a diagnostic on the end of a
# line contains a raw carriage return in front of the caret.
cd "$(dirname "$0")"
RVA=${RVA:-/tmp/wt3-C18/target/debug/rva}
echo "--- LF file (reference), marker line made visible with cat -A:"
$RVA lint lf.s --no-color | cat -A | sed -n 1,6p
echo "--- CRLF file:"
$RVA lint crlf.s --no-color | cat -A | sed -n 1,6p
$RVA lint crlf.s --compact --no-color
marker=$($RVA lint crlf.s --no-color | sed -n 5p)
if printf '%s' "$marker" | grep -q $'\r'; then
  echo "VIOLATION: the marker line contains a carriage return; a terminal draws the caret in column 1 of the gutter, not under the reported column"
  exit 1
fi
echo ok; exit 0
