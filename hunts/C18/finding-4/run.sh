#!/bin/bash
# C18 finding 4: a diagnostic on a character that Rust regards as white space but
# the lexer does not (no-break space, form feed, ...) at the start of a line: the
# excerpt drops the character and puts the marker under a different column.
cd "$(dirname "$0")"
RVA=${RVA:-/tmp/wt3-C18/target/debug/rva}
rc=0
for f in nbsp.s formfeed.s; do
  echo "=== $f (line 2 made visible): $(sed -n 2p $f | cat -A)"
  $RVA lint $f --compact --no-color
  $RVA lint $f --no-color | sed -n 1,6p
  cols=$($RVA lint $f --compact --no-color | sed -n 's/.* at 2 \([0-9]*:[0-9]*\)$/\1/p' | head -1)
  text=$($RVA lint $f --no-color | sed -n 4p)
  marker=$($RVA lint $f --no-color | sed -n 5p)
  # reported columns 1:1 = the first character of the line. The excerpt shows
  # "li a0, 1" and the caret is under the 'l', which is column 5 of the line.
  if [ "$cols" = "1:1" ] && [ "$text" = " 2 | li a0, 1" ] && [ "$marker" = "   | ^" ]; then
    echo "VIOLATION ($f): reported columns 1:1 (the odd space character), marker drawn under 'l' of 'li' (column 5); the character the diagnostic refers to is not in the excerpt"
    rc=1
  fi
done
[ $rc = 0 ] && echo ok
exit $rc
