main:
    li   a0, 3
    jal  f
    li   a7, 1
    ecall
    li   a7, 10
    ecall
f:
    addi a0, a0, 1
    sw   a0, 0(s1)
    ret
