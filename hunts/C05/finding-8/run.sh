#!/bin/bash
cd "$(dirname "$0")" || exit 3
RVA="${RVA:-/tmp/wt3-C05/target/debug/rva}"
if [ ! -x "$RVA" ]; then
    (cd /tmp/wt3-C05 && cargo build --workspace --offline >/dev/null 2>&1)
fi
FAIL=0
# lint FILE -> prints and stores the compact output in $OUT
lint() {
    OUT="$("$RVA" lint "$1" --compact --no-color 2>&1)"
    echo "--- rva lint $1 --compact"
    if [ -n "$OUT" ]; then echo "$OUT"; else echo "(no diagnostics)"; fi
}
# has TITLE LINE : is there a diagnostic with this title on this line?
has() { echo "$OUT" | grep -Eq "^(Error|Warning): $1 in .* at $2 [0-9]+:[0-9]+$"; }
expect_clean() { if [ -n "$OUT" ]; then echo "UNEXPECTED: base program is not clean"; FAIL=2; fi; }
expect() { # TITLE LINE
    if has "$1" "$2"; then echo "ok: '$1' reported on line $2"
    else echo "VIOLATION: no '$1' diagnostic on line $2 (the offending instruction)"; FAIL=1; fi
}
note_wrong() { # TITLE LINE
    if has "$1" "$2"; then echo "observed: '$1' is reported on line $2, which is NOT the offending instruction"; fi
}

lint base.s; expect_clean
echo "# line 10 (injected): sw a0, 0(s1) -- s1 is never assigned in f (nor anywhere else); it is read as an address"
lint store_through_unassigned_s1.s
expect "Invalid use before assignment" 10
echo "# line 10 (injected): lw a0, 4(s1)"
lint load_through_unassigned_s1.s
expect "Invalid use before assignment" 10
echo "# control: add a0, a0, s1 is reported"
lint control_arith.s
expect "Invalid use before assignment" 10

exit $FAIL
