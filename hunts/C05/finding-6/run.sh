#!/bin/bash
cd "$(dirname "$0")" || exit 3
RVA="${RVA:-/tmp/wt3-C05/target/debug/rva}"
if [ ! -x "$RVA" ]; then
    (cd /tmp/wt3-C05 && cargo build --workspace --offline >/dev/null 2>&1)
fi
FAIL=0
# lint FILE -> prints and stores the compact output in $OUT
lint() {
    OUT="$("$RVA" lint "$1" --compact --no-color 2>&1)"
    echo "--- rva lint $1 --compact"
    if [ -n "$OUT" ]; then echo "$OUT"; else echo "(no diagnostics)"; fi
}
# has TITLE LINE : is there a diagnostic with this title on this line?
has() { echo "$OUT" | grep -Eq "^(Error|Warning): $1 in .* at $2 [0-9]+:[0-9]+$"; }
expect_clean() { if [ -n "$OUT" ]; then echo "UNEXPECTED: base program is not clean"; FAIL=2; fi; }
expect() { # TITLE LINE
    if has "$1" "$2"; then echo "ok: '$1' reported on line $2"
    else echo "VIOLATION: no '$1' diagnostic on line $2 (the offending instruction)"; FAIL=1; fi
}
note_wrong() { # TITLE LINE
    if has "$1" "$2"; then echo "observed: '$1' is reported on line $2, which is NOT the offending instruction"; fi
}

lint base.s; expect_clean
echo "# line 15 (injected): sw a0, 0(s0) with s0 = sp+16 = entry sp  (classic frame pointer)"
lint via_frame_pointer.s
expect "Invalid stack offset usage" 15
echo "# line 15 (injected): lw a0, 4(s0) = entry sp + 4"
lint load_above_via_frame_pointer.s
expect "Invalid stack offset usage" 15
echo "# control: the very same address written as 16(sp) IS reported"
lint control_via_sp.s
expect "Invalid stack offset usage" 15
echo "# secondary observation: sw a0, 14(sp) with sp = entry-16 writes bytes entry-2 .. entry+1"
lint misaligned_base.s; expect_clean
lint straddling_store.s
if has "Invalid stack offset usage" 12; then echo "ok"; else echo "observed (secondary, not counted in the exit status): the 4-byte store that reaches entry sp + 1 is not reported"; fi

exit $FAIL
