main:
    li   a0, 3
    jal  f
    li   a7, 1
    ecall
    li   a7, 10
    ecall
f:
    addi sp, sp, -16
    sw   ra, 0(sp)
    addi a0, a0, 1
    sw   a0, 14(sp)
    lw   ra, 0(sp)
    addi sp, sp, 16
    ret
