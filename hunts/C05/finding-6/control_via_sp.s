main:
    li   a0, 3
    jal  f
    li   a7, 1
    ecall
    li   a7, 10
    ecall
f:
    addi sp, sp, -16
    sw   ra, 12(sp)
    sw   s0, 8(sp)
    addi s0, sp, 16
    sw   a0, -12(s0)
    lw   a0, -12(s0)
    sw   a0, 16(sp)
    addi a0, a0, 1
    lw   s0, 8(sp)
    lw   ra, 12(sp)
    addi sp, sp, 16
    ret
