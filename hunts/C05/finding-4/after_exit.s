main:
    li   a0, 3
    li   a7, 1
    ecall
    li   a7, 10
    ecall
    li   a0, 5
    li   a7, 1
    ecall
