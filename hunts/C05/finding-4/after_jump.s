main:
    li   a0, 3
    j    end
    li   a0, 5
    li   a7, 1
    ecall
    li   a0, 6
    li   a1, 7
end:
    li   a7, 1
    ecall
    li   a7, 10
    ecall
