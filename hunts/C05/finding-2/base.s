main:
    li   a0, 1
    jal  f
    li   a7, 1
    ecall
    li   a7, 10
    ecall
f:
    addi a0, a0, 1
    ret
