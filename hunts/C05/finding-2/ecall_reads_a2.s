.data
buf: .space 8
.text
main:
    li   a0, 1
    la   a1, buf
    li   a7, 64
    ecall
    li   a7, 10
    ecall
