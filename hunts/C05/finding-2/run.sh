#!/bin/bash
cd "$(dirname "$0")" || exit 3
RVA="${RVA:-/tmp/wt3-C05/target/debug/rva}"
if [ ! -x "$RVA" ]; then
    (cd /tmp/wt3-C05 && cargo build --workspace --offline >/dev/null 2>&1)
fi
FAIL=0
# lint FILE -> prints and stores the compact output in $OUT
lint() {
    OUT="$("$RVA" lint "$1" --compact --no-color 2>&1)"
    echo "--- rva lint $1 --compact"
    if [ -n "$OUT" ]; then echo "$OUT"; else echo "(no diagnostics)"; fi
}
# has TITLE LINE : is there a diagnostic with this title on this line?
has() { echo "$OUT" | grep -Eq "^(Error|Warning): $1 in .* at $2 [0-9]+:[0-9]+$"; }
expect_clean() { if [ -n "$OUT" ]; then echo "UNEXPECTED: base program is not clean"; FAIL=2; fi; }
expect() { # TITLE LINE
    if has "$1" "$2"; then echo "ok: '$1' reported on line $2"
    else echo "VIOLATION: no '$1' diagnostic on line $2 (the offending instruction)"; FAIL=1; fi
}
note_wrong() { # TITLE LINE
    if has "$1" "$2"; then echo "observed: '$1' is reported on line $2, which is NOT the offending instruction"; fi
}

lint base.s; expect_clean
echo "# a2 is assigned nowhere in the program; f reads it on line 10"
lint callee_reads_a2.s
if [ -z "$OUT" ]; then echo "VIOLATION: the read of the never-assigned register a2 produces no diagnostic at all"; FAIL=1; fi
echo "# same, but main has a correct assignment+read of a2 AFTER the call (lines 4-5)"
lint callee_reads_a2_wrong_place.s
if has "Invalid use before assignment" 12 || has "Invalid use before assignment" 3; then echo "ok: reported at the read in f or at the call"
else echo "VIOLATION: nothing on the read in f (line 12) nor on the call (line 3)"; FAIL=1; fi
note_wrong "Invalid use before assignment" 5
echo "# ecall 64 (Write: a0,a1,a2) reads a2, which is assigned nowhere"
lint ecall_reads_a2.s
if [ -z "$OUT" ]; then echo "VIOLATION: the ecall reads the never-assigned register a2; no diagnostic at all"; FAIL=1; fi

exit $FAIL
