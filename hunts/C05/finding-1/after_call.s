main:
    li   a0, 3
    jal  f
    beq  a0, zero, L1
    li   t0, 5
    add  a0, t0, t0
    j    end
L1:
    li   a2, 1
    li   a3, 1
    add  a0, a2, a3
    add  a0, a0, t0
end:
    li   a7, 1
    ecall
    li   a7, 10
    ecall
f:
    addi a0, a0, 1
    ret
