main:
    li   a0, 3
    li   a1, 4
    jal  add2
    li   a7, 1
    ecall
    li   a7, 10
    ecall
add2:
    addi ra, ra, 4
    addi sp, sp, -16
    sw   ra, 0(sp)
    sw   s0, 4(sp)
    mv   s0, a0
    mv   a0, a1
    jal  twice
    add  a0, a0, s0
    lw   s0, 4(sp)
    lw   ra, 0(sp)
    addi sp, sp, 16
    ret
twice:
    add  a0, a0, a0
    ret
