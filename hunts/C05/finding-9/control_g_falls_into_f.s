main:
    li   a0, 3
    jal  g
    jal  f
    li   a7, 1
    ecall
    li   a7, 10
    ecall
g:
    addi a0, a0, 2
f:
    addi a0, a0, 1
    ret
