#!/bin/bash
cd "$(dirname "$0")" || exit 3
RVA="${RVA:-/tmp/wt3-C05/target/debug/rva}"
if [ ! -x "$RVA" ]; then
    (cd /tmp/wt3-C05 && cargo build --workspace --offline >/dev/null 2>&1)
fi
FAIL=0
# lint FILE -> prints and stores the compact output in $OUT
lint() {
    OUT="$("$RVA" lint "$1" --compact --no-color 2>&1)"
    echo "--- rva lint $1 --compact"
    if [ -n "$OUT" ]; then echo "$OUT"; else echo "(no diagnostics)"; fi
}
# has TITLE LINE : is there a diagnostic with this title on this line?
has() { echo "$OUT" | grep -Eq "^(Error|Warning): $1 in .* at $2 [0-9]+:[0-9]+$"; }
expect_clean() { if [ -n "$OUT" ]; then echo "UNEXPECTED: base program is not clean"; FAIL=2; fi; }
expect() { # TITLE LINE
    if has "$1" "$2"; then echo "ok: '$1' reported on line $2"
    else echo "VIOLATION: no '$1' diagnostic on line $2 (the offending instruction)"; FAIL=1; fi
}
note_wrong() { # TITLE LINE
    if has "$1" "$2"; then echo "observed: '$1' is reported on line $2, which is NOT the offending instruction"; fi
}

lint base.s; expect_clean
echo "# the exit sequence of main is missing: after the ecall on line 5 control falls through into function f (label line 6, first instruction line 7)"
lint main_falls_into_f.s
if echo "$OUT" | grep -Eq "(Node in many functions|Invalid jump to function|First instruction is function) in .* at (5|6|7) "; then echo "ok: an entry-kind diagnostic is reported"
else echo "VIOLATION: f is entered by fall-through, but no control-flow diagnostic (node-in-many-functions / invalid-jump-to-function / first-instruction-is-function) is reported on the entry of f"; FAIL=1; fi
echo "# control: a CALLED function g falling through into f is reported (on the label line 11)"
lint control_g_falls_into_f.s
expect "Node in many functions" 11

exit $FAIL
