#!/bin/bash
cd "$(dirname "$0")" || exit 3
RVA="${RVA:-/tmp/wt3-C05/target/debug/rva}"
if [ ! -x "$RVA" ]; then
    (cd /tmp/wt3-C05 && cargo build --workspace --offline >/dev/null 2>&1)
fi
FAIL=0
# lint FILE -> prints and stores the compact output in $OUT
lint() {
    OUT="$("$RVA" lint "$1" --compact --no-color 2>&1)"
    echo "--- rva lint $1 --compact"
    if [ -n "$OUT" ]; then echo "$OUT"; else echo "(no diagnostics)"; fi
}
# has TITLE LINE : is there a diagnostic with this title on this line?
has() { echo "$OUT" | grep -Eq "^(Error|Warning): $1 in .* at $2 [0-9]+:[0-9]+$"; }
expect_clean() { if [ -n "$OUT" ]; then echo "UNEXPECTED: base program is not clean"; FAIL=2; fi; }
expect() { # TITLE LINE
    if has "$1" "$2"; then echo "ok: '$1' reported on line $2"
    else echo "VIOLATION: no '$1' diagnostic on line $2 (the offending instruction)"; FAIL=1; fi
}
note_wrong() { # TITLE LINE
    if has "$1" "$2"; then echo "observed: '$1' is reported on line $2, which is NOT the offending instruction"; fi
}

lint base.s; expect_clean
echo "# line 5 (injected): add a0, a0, t3 -- t3 is assigned nowhere; an ecall with a7 = 2 (PrintFloat: a constant that is not in the signature table) precedes it"
lint read_after_unlisted_ecall.s
expect "Invalid use before assignment" 5
echo "# control: the same program with a7 = 1 (listed) in front: here the read IS reported"
lint read_after_listed_ecall.s
expect "Invalid use before assignment" 5
lint base_fn.s; expect_clean
echo "# same inside a function (line 11 injected)"
lint fn_read_after_unlisted_ecall.s
expect "Invalid use before assignment" 11
lint call_base.s; expect_clean
echo "# line 10 (injected): beqz t0, fin -- t0 was assigned before the call to f on line 5 and is read after it; an unlisted ecall lies in between"
lint call_then_unlisted_ecall_then_read.s
if has "Invalid use after call" 10 || has "Invalid use before assignment" 10; then echo "ok: reported on line 10"
else echo "VIOLATION: the read of the temporary t0 after the call is not reported (neither as use-after-call nor as use-before-assignment)"; FAIL=1; fi

exit $FAIL
