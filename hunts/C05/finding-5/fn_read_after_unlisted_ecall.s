main:
    jal  f
    li   a7, 1
    ecall
    li   a7, 10
    ecall
f:
    li   a7, 2
    ecall
    li   a0, 4
    add  a0, a0, t3
    ret
