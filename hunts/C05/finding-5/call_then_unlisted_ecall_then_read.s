main:
    li   a0, 3
    li   t0, 7
    add  a0, a0, t0
    jal  f
    li   a7, 1
    ecall
    li   a7, 2
    ecall
    beqz t0, fin
fin:
    li   a7, 10
    ecall
f:
    addi a0, a0, 1
    ret
