main:
    li   a0, 3
    jal  f
    li   t0, 7
    add  a0, a0, t0
    jal  ra, f
    add  a0, a0, t0
    li   a7, 1
    ecall
    li   a7, 10
    ecall
f:
    li   t0, 1
    add  a0, a0, t0
    ret
