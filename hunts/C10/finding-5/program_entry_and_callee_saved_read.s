f:
    mv a0, s0
    ret
main:
    jal f
    li a7, 10
    ecall
