main:
    beqz a0, skip
    li a7, 1
    ecall
skip:
    mv a0, t0
    li a7, 10
    ecall
