#!/bin/bash
cd "$(dirname "$0")" || exit 2
exec ./dupcheck.sh ecall_and_function_entry.s ecall_and_program_entry.s program_entry_and_callee_saved_read.s 
