#!/bin/bash
cd "$(dirname "$0")" || exit 2
exec ./dupcheck.sh load_label_to_zero.s pseudo_in_data.s 
