.data
var: .word 5
    lw t0, var
    sw t0, var, t1
.text
main:
    li a7, 10
    ecall
