.data
var: .word 5
.text
main:
    lw zero, var
    li a7, 10
    ecall
    lw t0, var
    sw t0, var, t1
