main:
    .include "inc.s"
    .include "inc.s"
    li a7, 10
    ecall
