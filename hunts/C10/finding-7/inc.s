    li t0, 1
    addi zero, t0, 1
    foo bar
