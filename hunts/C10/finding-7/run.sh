#!/bin/bash
cd "$(dirname "$0")" || exit 2
exec ./dupcheck.sh main.s
