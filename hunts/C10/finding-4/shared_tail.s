main:
    jal f
    jal g
    li a7, 10
    ecall
f:
    li a0, 1
    j tail
g:
    li a0, 2
tail:
    add a0, a0, t3
    ret
