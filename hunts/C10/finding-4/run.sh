#!/bin/bash
cd "$(dirname "$0")" || exit 2
exec ./dupcheck.sh shared_tail.s 
