#!/bin/bash
# Exits 1 when the --debug / --yaml output of `rva lint` differs between runs.
cd "$(dirname "$0")" || exit 2
RVA=${RVA:-/tmp/wt3-C10/target/debug/rva}
rc=0
for mode in "--debug --no-color" "--yaml --no-color"; do
  ref=$($RVA lint shared_tail.s $mode 2>&1)
  for i in $(seq 40); do
    out=$($RVA lint shared_tail.s $mode 2>&1)
    if [ "$out" != "$ref" ]; then
      echo "VIOLATION: mode '$mode' differs between runs; first differing lines:"
      diff <(echo "$ref") <(echo "$out") | head -8
      rc=1; break
    fi
  done
done
exit $rc
