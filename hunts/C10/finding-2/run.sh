#!/bin/bash
cd "$(dirname "$0")" || exit 2
exec ./dupcheck.sh same_function.s two_functions.s 
