main:
    li t0, 5
    beqz a0, L1
    jal f
    j L2
L1:
    jal f
L2:
    mv a0, t0
    li a7, 10
    ecall
f:
    li a0, 1
    ret
