main:
    li a0, 1
    beqz a0, A
    j f
A:
    j f
f:
    li a0, 1
    ret
other:
    jal f
    li a7, 10
    ecall
