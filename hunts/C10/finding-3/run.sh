#!/bin/bash
cd "$(dirname "$0")" || exit 2
exec ./dupcheck.sh entry_in_two_functions.s two_jumps.s 
