f:
    li a0, 1
    ret
g:
    j f
main:
    jal f
    jal g
    li a7, 10
    ecall
