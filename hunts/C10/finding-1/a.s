    mv a1, t0
    li a7, 10
    ecall
