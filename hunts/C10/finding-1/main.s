main:
    beqz a0, L
    .include "a.s"
    .include "b.s"
