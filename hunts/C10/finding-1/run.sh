#!/bin/bash
# Exits 1 when repeated runs of `rva lint main.s` print different diagnostics.
cd "$(dirname "$0")" || exit 2
RVA=${RVA:-/tmp/wt3-C10/target/debug/rva}
rc=0
for mode in "--compact --no-color --all-files" "--no-color --all-files" "--json"; do
  outs=$(for i in $(seq 40); do $RVA lint main.s $mode 2>&1 | md5sum; done | sort | uniq -c)
  n=$(echo "$outs" | wc -l)
  if [ "$n" -gt 1 ]; then
    echo "VIOLATION: mode '$mode' produced $n different outputs over 40 runs:"
    rc=1
  fi
done
echo "where the 'Invalid use before assignment' diagnostic landed in 40 runs (--compact --all-files):"
for i in $(seq 40); do $RVA lint main.s --compact --no-color --all-files 2>&1 | grep "before assignment"; done | sort | uniq -c
exit $rc
