L:  mv a2, t0
    li a7, 10
    ecall
