#!/bin/sh
# Finding 4: a user label called __return__ collides with the label the analyzer invents
# for the secondary returns of a function.
RVA=${RVA:-/tmp/wt3-C14/target/debug/rva}
cd "$(dirname "$0")" || exit 2
a=$("$RVA" lint orig.s --compact | sed -e 's# in /.* at # at #')
b=$("$RVA" lint renamed.s --compact | sed -e 's# in /.* at # at #')
echo "== orig.s"; echo "$a"; echo "== renamed.s (helper____ -> __return__)"; echo "$b"
if [ "$a" != "$b" ]; then
    echo ">> VIOLATION: same-length renaming helper____ -> __return__ changed the diagnostics"
    exit 1
fi
exit 0
