main:
    li   a0, 5
    jal  foo
    li   a2, 3
    jal  helper____
    li   a7, 10
    ecall
helper____:
    mv   a0, a2
    li   a7, 1
    ecall
    ret
foo:
    beqz a0, foo_else
    li   t0, 1
    ret
foo_else:
    li   a2, 2
    ret
