main:
    li   a0, 5
    jal  foo
    li   a2, 3
    jal  __return__
    li   a7, 10
    ecall
__return__:
    mv   a0, a2
    li   a7, 1
    ecall
    ret
foo:
    beqz a0, foo_else
    li   t0, 1
    ret
foo_else:
    li   a2, 2
    ret
