.data
bufr:    .word 5
.text
main:
    li   a0, 7
    sw   a0, bufr
    lw   zero, bufr
    li   a7, 10
    ecall
