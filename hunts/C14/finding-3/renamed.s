.data
Zero:    .word 5
.text
main:
    li   a0, 7
    sw   a0, Zero
    lw   zero, Zero
    li   a7, 10
    ecall
