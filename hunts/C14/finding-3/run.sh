#!/bin/sh
# Finding 3: a label spelled Zero / ZERO / zERO ... is a valid label, but where an
# immediate is also allowed (lw/sw operand) it is read as the immediate 0.
RVA=${RVA:-/tmp/wt3-C14/target/debug/rva}
cd "$(dirname "$0")" || exit 2
a=$("$RVA" lint orig.s --compact | sed -e 's# in /.* at # at #')
b=$("$RVA" lint renamed.s --compact | sed -e 's# in /.* at # at #')
echo "== orig.s"; echo "$a"; echo "== renamed.s (bufr -> Zero)"; echo "$b"
# the label only occurs at the end of its lines, so line/column of every diagnostic must be unchanged
if [ "$a" != "$b" ]; then
    echo ">> VIOLATION: renaming label bufr -> Zero changed the diagnostics"
    exit 1
fi
exit 0
