main:
    li   a0, 1
    beqz a0, zzz
    jal  bbb
    li   a7, 10
    ecall
