#!/bin/sh
# Finding 2: 'Labels not defined' is attached to the alphabetically smallest label
# (and lists the names sorted), so renaming a label moves the diagnostic.
RVA=${RVA:-/tmp/wt3-C14/target/debug/rva}
cd "$(dirname "$0")" || exit 2
a=$("$RVA" lint orig.s --compact | sed -e 's# in /.* at # at #')
b=$("$RVA" lint renamed.s --compact | sed -e 's# in /.* at # at #')
echo "== orig.s"; echo "$a"; echo "== renamed.s (aaa -> zzz)"; echo "$b"
pa=$(echo "$a" | sed -e 's/.* at //'); pb=$(echo "$b" | sed -e 's/.* at //')
if [ "$pa" != "$pb" ]; then
    echo ">> VIOLATION: position of the diagnostic moved from '$pa' to '$pb' by a same-length renaming"
    exit 1
fi
exit 0
