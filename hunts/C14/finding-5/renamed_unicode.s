main:
    li   t0, 3
boucle_é:
    addi t0, t0, -1
    bnez t0, boucle_é
    li   a7, 10
    ecall
