main:
    li   t0, 3
loop.1:
    addi t0, t0, -1
    bnez t0, loop.1
    li   a7, 10
    ecall
