main:
    li   t0, 3
loop:
    addi t0, t0, -1
    bnez t0, loop
    li   a7, 10
    ecall
