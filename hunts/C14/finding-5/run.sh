#!/bin/sh
# Finding 5: identifiers that parser/label.rs declares valid ('.', '$', non-ASCII letters)
# cannot be lexed; renaming a label to one of them turns a clean program into three errors.
RVA=${RVA:-/tmp/wt3-C14/target/debug/rva}
cd "$(dirname "$0")" || exit 2
fail=0
a=$("$RVA" lint orig.s --compact | sed -e 's# in /.* at # at #')
echo "== orig.s"; echo "$a"
for f in renamed_dot.s renamed_dollar.s renamed_unicode.s; do
    b=$("$RVA" lint "$f" --compact | sed -e 's# in /.* at # at #')
    echo "== $f"; echo "$b"
    # the label is the last token of its lines, so the diagnostics must be literally the same
    if [ "$a" != "$b" ]; then
        echo ">> VIOLATION: $f has different diagnostics than orig.s"
        fail=1
    fi
done
exit $fail
