#!/bin/sh
# Finding 1: 'Node in many functions' is attached to the alphabetically first
# label of the shared entry, so renaming a label moves the diagnostic.
RVA=${RVA:-/tmp/wt3-C14/target/debug/rva}
cd "$(dirname "$0")" || exit 2
strip() { sed -e 's# in /.* at # at #'; }
fail=0
compare() {
    a=$("$RVA" lint "$1" --compact | strip)
    b=$("$RVA" lint "$2" --compact | strip)
    echo "== $1"; echo "$a"; echo "== $2 ($3)"; echo "$b"
    if [ "$a" != "$b" ]; then
        echo ">> VIOLATION: same-length label renaming ($3) changed the diagnostics"
        fail=1
    fi
}
# every renaming keeps the length of the name, so lines and columns are comparable 1:1
compare orig.s  renamed_data_label.s "tbl -> aaa"
compare orig2.s renamed2.s           "fn_b -> zz_b"
exit $fail
