.data
msg:    .word 1
.text
main:
    li   a0, 0
    jal  fn_a
    jal  fn_b
    li   a7, 10
    ecall
fn_a:
    addi a0, a0, 1
.data
tbl:    .word 2
.text
fn_b:
    addi a0, a0, 2
    ret
