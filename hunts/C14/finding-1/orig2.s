main:
    li   a0, 0
    jal  fn_a
    jal  fn_b
    jal  fn_c
    li   a7, 10
    ecall
fn_a:
    addi a0, a0, 1
fn_b:
fn_c:
    addi a0, a0, 2
    ret
