main:
    la t0, f
    jalr ra, t0, 4294967296
    li a7, 10
    ecall
f:
    ret
