main:
    la t0, f
    jalr t0, 4
    li a7, 10
    ecall
f:
    ret
