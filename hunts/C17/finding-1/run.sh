#!/bin/bash
# Finding 1 (C17): `jalr rs, <bad literal>` silently drops the literal and reads it as 0.
# Exits non-zero when the violation is present.
cd "$(dirname "$0")"
RVA=/tmp/wt3-C17/target/debug/rva
if [ ! -x "$RVA" ]; then (cd /tmp/wt3-C17 && cargo build --workspace --offline >/dev/null 2>&1); fi
bad=0
# control: the same literal in the three-operand form IS rejected on line 3
out=$($RVA lint control_three_operand.s --compact --no-color 2>&1)
echo "--- control_three_operand.s (jalr ra, t0, 4294967296)"; echo "$out"
echo "$out" | grep -q "Expected IMMEDIATE, found SYMBOL(4294967296).* at 3 " || echo "(control did not behave as expected)"
for f in out_of_range.s malformed_hex.s malformed_dec.s; do
    lit=$(sed -n 3p $f | sed 's/.*, //')
    out=$($RVA lint $f --compact --no-color 2>&1)
    dbg=$($RVA lint $f --debug --no-color 2>&1 | grep '^jalr' | head -1)
    echo "--- $f (line 3: jalr t0, $lit)"
    echo "$out"
    echo "parsed as: $dbg"
    if echo "$out" | grep -q " at 3 "; then
        echo "OK: a diagnostic is reported on line 3"
    else
        echo "VIOLATION: literal '$lit' is not rejected; no diagnostic on line 3, instruction accepted as 'jalr ra, t0, 0'"
        bad=1
    fi
done
exit $bad
