main:
    la t0, f
    jalr t0, 0x
    li a7, 10
    ecall
f:
    ret
