main:
    la t0, f
    jalr t0, 12ab
    li a7, 10
    ecall
f:
    ret
