main:
    csrrwi t0, 'A', 3
    li a7, 10
    ecall
