#!/bin/bash
# Finding 2 (C17): a character literal is not accepted as a CSR operand although the same value
# written in decimal / hex / binary is. Exits non-zero when the violation is present.
cd "$(dirname "$0")"
RVA=/tmp/wt3-C17/target/debug/rva
if [ ! -x "$RVA" ]; then (cd /tmp/wt3-C17 && cargo build --workspace --offline >/dev/null 2>&1); fi
ref=""
bad=0
for f in csr_65.s csr_0x41.s csr_0b1000001.s csr_A.s; do
    node=$($RVA lint $f --debug --no-color 2>&1 | grep '^csrrwi' | head -1)
    diag=$($RVA lint $f --compact --no-color 2>&1 | grep ' at 2 ' | sed 's/ in .* at / at /')
    echo "--- $f: $(sed -n 2p $f | sed 's/^ *//')"
    echo "    node: ${node:-<none>}"
    echo "    diagnostics on line 2: ${diag:-<none>}"
    [ -z "$ref" ] && ref="$node"
    if [ "$node" != "$ref" ]; then
        echo "    VIOLATION: read differently from the decimal notation ('$ref')"
        bad=1
    fi
done
exit $bad
