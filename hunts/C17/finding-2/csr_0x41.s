main:
    csrrwi t0, 0x41, 3
    li a7, 10
    ecall
