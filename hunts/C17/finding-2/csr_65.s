main:
    csrrwi t0, 65, 3
    li a7, 10
    ecall
