main:
    csrrwi t0, 0b1000001, 3
    li a7, 10
    ecall
