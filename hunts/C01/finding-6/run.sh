#!/bin/bash
dir=$(cd "$(dirname "$0")" && pwd)
RVA=${RVA:-/tmp/wt3-C01/target/debug/rva}
debug_of() { "$RVA" lint "$1" --debug --no-color 2>&1; }                 # --debug dump, one block per CFG node
valo() { printf '%s\n' "$OUT" | awk -v h="$1" -v n="${2:-1}" '$0==h{c++; if(c==n)f=1} f&&/\| VALO \|/{print; exit}'; }   # register values after the N-th node printed as $1
stck() { printf '%s\n' "$OUT" | awk -v h="$1" -v n="${2:-1}" '$0==h{c++; if(c==n)f=1} f&&/\| STCK \|/{print; exit}'; }   # memory values after that node
claims() { printf '%s' "$1" | grep -Eq "[[ ]$2[],]"; }                   # does the map line contain the entry "$2"?
bad=0
# Finding 6: the overlap test for stack stores compares unwrapped 64-bit positions with wrapped 32-bit slot keys.
OUT=$(debug_of "$dir/input.s")
line=$(stck "sb a1 -> -32(sp)")
echo "memory after 'sb a1, -32(sp)' (same address as the preceding sw): $line"
line=$(valo "lw a2 <- -32(sp)")
echo "registers after 'lw a2, -32(sp)': $line"
if claims "$line" "a2: 4660"; then echo "  VIOLATION: analyzer claims a2 == 4660 (0x1234); the low byte was overwritten, the machine has 0x1256 == 4694"; bad=1; fi
OUT=$(debug_of "$dir/call.s")
line=$(valo "lw a2 <- -32(sp)")
echo "call.s: word below sp, call of a conventional function whose frame covers it, then 'lw a2, -32(sp)': $line"
if claims "$line" "a2: 4660"; then echo "  VIOLATION: analyzer claims a2 == 4660; the callee's frame overwrote the word, the machine has a2 == 7"; bad=1; fi
exit $bad
