main:
    li   t0, 0x7ffffff0
    sub  sp, sp, t0          # sp = sp_entry - 0x7ffffff0
    li   a0, 0x1234
    sw   a0, -32(sp)         # a word BELOW sp (address sp_entry - 0x80000010)
    jal  f                   # a conventional callee is free to use everything below sp
    lw   a2, -32(sp)         # machine: a2 = 7 (f's local)      analyzer: a2 = 4660
    li   a7, 10
    ecall
f:
    addi sp, sp, -32
    li   t1, 7
    sw   t1, 0(sp)           # f's own frame: the same address as main's -32(sp)
    addi sp, sp, 32
    ret
