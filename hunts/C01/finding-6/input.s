main:
    li   t0, 0x7ffffff0
    sub  sp, sp, t0          # sp = sp_entry - 0x7ffffff0
    li   a0, 0x1234
    sw   a0, -32(sp)         # address sp_entry - 0x80000010  (== sp_entry + 0x7ffffff0 mod 2^32)
    li   a1, 0x56
    sb   a1, -32(sp)         # same address: word becomes 0x00001256
    lw   a2, -32(sp)         # machine: a2 = 0x1256 = 4694     analyzer: a2 = 4660 (0x1234)
    li   a7, 10
    ecall
