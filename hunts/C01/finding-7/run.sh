#!/bin/bash
dir=$(cd "$(dirname "$0")" && pwd)
RVA=${RVA:-/tmp/wt3-C01/target/debug/rva}
debug_of() { "$RVA" lint "$1" --debug --no-color 2>&1; }                 # --debug dump, one block per CFG node
valo() { printf '%s\n' "$OUT" | awk -v h="$1" -v n="${2:-1}" '$0==h{c++; if(c==n)f=1} f&&/\| VALO \|/{print; exit}'; }   # register values after the N-th node printed as $1
stck() { printf '%s\n' "$OUT" | awk -v h="$1" -v n="${2:-1}" '$0==h{c++; if(c==n)f=1} f&&/\| STCK \|/{print; exit}'; }   # memory values after that node
claims() { printf '%s' "$1" | grep -Eq "[[ ]$2[],]"; }                   # does the map line contain the entry "$2"?
bad=0
# Finding 7: a branch back to a function's own label passes through the FUNCTION ENTRY node, which
# re-declares sp/ra/s0-s11 as "original" although they were changed since the call.
OUT=$(debug_of "$dir/input.s")
line=$(valo "jalr [ra]")
echo "at 'ret' of f (called with a0 == 3): $line"
if claims "$line" "sp: sp" && claims "$line" "s0: s0"; then
  echo "  VIOLATION: analyzer claims sp == sp at entry and s0 == s0 at entry; the machine returns with sp == entry - 8, s0 == entry + 2"
  bad=1
fi
diags=$("$RVA" lint "$dir/input.s" --no-color 2>&1)
echo "diagnostics: ${diags:-<none>}"
exit $bad
