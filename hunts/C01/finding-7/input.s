main:
    li   a0, 3
    jal  f
    li   a7, 10
    ecall
f:
    addi sp, sp, -4          # executed 3 times: sp = entry - 12
    addi s0, s0, 1           # executed 3 times: s0 = entry + 3
    addi a0, a0, -1
    bnez a0, f               # loop back to the first instruction of f (its label)
    addi s0, s0, -1          # executed once:   s0 = entry + 2
    addi sp, sp, 4           # executed once:   sp = entry - 8
    ret                      # analyzer: sp == entry sp, s0 == entry s0; no diagnostic at all
