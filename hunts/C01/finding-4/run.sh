#!/bin/bash
dir=$(cd "$(dirname "$0")" && pwd)
RVA=${RVA:-/tmp/wt3-C01/target/debug/rva}
debug_of() { "$RVA" lint "$1" --debug --no-color 2>&1; }                 # --debug dump, one block per CFG node
valo() { printf '%s\n' "$OUT" | awk -v h="$1" -v n="${2:-1}" '$0==h{c++; if(c==n)f=1} f&&/\| VALO \|/{print; exit}'; }   # register values after the N-th node printed as $1
stck() { printf '%s\n' "$OUT" | awk -v h="$1" -v n="${2:-1}" '$0==h{c++; if(c==n)f=1} f&&/\| STCK \|/{print; exit}'; }   # memory values after that node
claims() { printf '%s' "$1" | grep -Eq "[[ ]$2[],]"; }                   # does the map line contain the entry "$2"?
bad=0
# Finding 4: the width of loads/stores through a CSR-held pointer is ignored.
OUT=$(debug_of "$dir/input.s")
line=$(valo "lb a1 <- 0(t0)")
echo "after 'lb a1, 0(t0)' (word there is 0x1FF): $line"
if claims "$line" "a1: 511"; then echo "  VIOLATION: analyzer claims a1 == 511; lb yields -1"; bad=1; fi
line=$(valo "lw a3 <- 0(t0)")
echo "after 'sb a2(0x77), 1(t0)' and 'lw a3, 0(t0)': $line"
if claims "$line" "a3: 511"; then echo "  VIOLATION: analyzer claims a3 == 511; the machine has 0x77FF == 30719"; bad=1; fi
line=$(valo "lw a5 <- 0(t0)")
echo "after 'sb a4(0x1234), 0(t0)' and 'lw a5, 0(t0)': $line"
if claims "$line" "a5: 4660"; then echo "  VIOLATION: analyzer claims a5 == 4660 (0x1234); the machine has 0x7734 == 30516"; bad=1; fi
exit $bad
