main:
    csrr t0, uscratch        # pointer kept in uscratch
    li   a0, 0x1FF
    sw   a0, 0(t0)           # word = 0x000001FF
    lb   a1, 0(t0)           # machine: a1 = -1 (byte 0xFF sign-extended)   analyzer: a1 = 511
    li   a2, 0x77
    sb   a2, 1(t0)           # word = 0x000077FF
    lw   a3, 0(t0)           # machine: a3 = 30719 (0x77FF)                 analyzer: a3 = 511
    li   a4, 0x1234
    sb   a4, 0(t0)           # stores only 0x34: word = 0x00007734
    lw   a5, 0(t0)           # machine: a5 = 30516 (0x7734)                 analyzer: a5 = 4660 (0x1234)
    li   a7, 10
    ecall
