main:
    csrr t0, uscratch        # t0 = pointer kept in uscratch (save area, as in an interrupt handler)
    li   a0, 5
    sw   a0, 0(t0)           # *(uscratch) = 5
    sw   zero, 0(t0)         # *(uscratch) = 0
    lw   a1, 0(t0)           # machine: a1 = 0     analyzer: a1 = 5
    mv   a7, a1              # analyzer: a7 = 5 -> "known ecall 5"
    ecall
    li   a7, 10
    ecall
