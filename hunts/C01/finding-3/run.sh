#!/bin/bash
dir=$(cd "$(dirname "$0")" && pwd)
RVA=${RVA:-/tmp/wt3-C01/target/debug/rva}
debug_of() { "$RVA" lint "$1" --debug --no-color 2>&1; }                 # --debug dump, one block per CFG node
valo() { printf '%s\n' "$OUT" | awk -v h="$1" -v n="${2:-1}" '$0==h{c++; if(c==n)f=1} f&&/\| VALO \|/{print; exit}'; }   # register values after the N-th node printed as $1
stck() { printf '%s\n' "$OUT" | awk -v h="$1" -v n="${2:-1}" '$0==h{c++; if(c==n)f=1} f&&/\| STCK \|/{print; exit}'; }   # memory values after that node
claims() { printf '%s' "$1" | grep -Eq "[[ ]$2[],]"; }                   # does the map line contain the entry "$2"?
bad=0
# Finding 3: a store of the zero register through a CSR-held pointer does not replace the recorded word.
OUT=$(debug_of "$dir/input.s")
line=$(stck "sw zero -> 0(t0)")
echo "memory after 'sw zero, 0(t0)': $line"
line=$(valo "lw a1 <- 0(t0)")
echo "registers after 'lw a1, 0(t0)': $line"
if claims "$line" "a1: 5"; then echo "  VIOLATION: analyzer claims a1 == 5; the word was overwritten with 0, the machine has a1 == 0"; bad=1; fi
line=$(valo "add a7 <- a1, zero")
if claims "$line" "a7: 5"; then echo "  ... and the ecall number is taken to be 5 (machine: 0)"; fi
exit $bad
