#!/bin/bash
dir=$(cd "$(dirname "$0")" && pwd)
RVA=${RVA:-/tmp/wt3-C01/target/debug/rva}
debug_of() { "$RVA" lint "$1" --debug --no-color 2>&1; }                 # --debug dump, one block per CFG node
valo() { printf '%s\n' "$OUT" | awk -v h="$1" -v n="${2:-1}" '$0==h{c++; if(c==n)f=1} f&&/\| VALO \|/{print; exit}'; }   # register values after the N-th node printed as $1
stck() { printf '%s\n' "$OUT" | awk -v h="$1" -v n="${2:-1}" '$0==h{c++; if(c==n)f=1} f&&/\| STCK \|/{print; exit}'; }   # memory values after that node
claims() { printf '%s' "$1" | grep -Eq "[[ ]$2[],]"; }                   # does the map line contain the entry "$2"?
bad=0
# Finding 2: csrrs/csrrc/csrrsi/csrrci change a CSR but the recorded content of the CSR is kept.
OUT=$(debug_of "$dir/input.s")

line=$(valo "csrrs t0 <- 64 <- zero" 1)
echo "after 'csrr t0, uscratch' (uscratch was written 1, then bit 2 set): $line"
if claims "$line" "t0: 1"; then echo "  VIOLATION: analyzer claims t0 == 1, the machine has t0 == 5"; bad=1; fi

line=$(valo "ecall" 1)
echo "after the first ecall: $line"
if claims "$line" "a7: 1" && claims "$line" "a0: 42"; then
  echo "  VIOLATION: ecall number claimed 1 (PrintInt, no result) so a0 == 42 is kept; the machine runs ecall 5 (ReadInt) and overwrites a0"
  bad=1
fi

line=$(valo "csrrs t3 <- 64 <- zero" 1)
echo "after 'csrr t3, uscratch' (uscratch was written 7, then bit 1 cleared): $line"
if claims "$line" "t3: 7"; then echo "  VIOLATION: analyzer claims t3 == 7, the machine has t3 == 5"; bad=1; fi
exit $bad
