main:
    csrwi uscratch, 1        # uscratch = 1
    csrsi uscratch, 4        # uscratch = 5   (csrrsi x0, uscratch, 4)
    csrr  t0, uscratch       # t0 = 5         analyzer: t0 = 1
    mv    a7, t0             # a7 = 5 (ReadInt) analyzer: a7 = 1 (PrintInt)
    li    a0, 42
    ecall                    # machine: ReadInt, a0 := input; analyzer: PrintInt(a0), a0 stays 42
    mv    a1, a0             # analyzer: a1 = 42
    li    t1, 7
    csrw  t1, uscratch       # uscratch = 7   (RARS operand order: csrw rs, csr)
    li    t2, 2
    csrc  t2, uscratch       # uscratch = 5   (csrrc x0, uscratch, t2)
    csrr  t3, uscratch       # t3 = 5         analyzer: t3 = 7
    li    a7, 10
    ecall
