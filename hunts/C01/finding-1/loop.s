main:
    li   tp, 1
    li   a0, 3
    jal  f
    li   a7, 10
    ecall
f:
    mv   a7, tp
    ecall
    li   tp, 4
    addi a0, a0, -1
    bnez a0, f
    ret
