main:
    li   tp, 1
    li   a0, 42
    jal  f
    jal  g
    li   a7, 10
    ecall
g:
    li   tp, 4
    la   a0, msg
    j    f
f:
    mv   a7, tp
    ecall
    ret
.data
msg: .asciz "hi"
