#!/bin/bash
dir=$(cd "$(dirname "$0")" && pwd)
RVA=${RVA:-/tmp/wt3-C01/target/debug/rva}
debug_of() { "$RVA" lint "$1" --debug --no-color 2>&1; }                 # --debug dump, one block per CFG node
valo() { printf '%s\n' "$OUT" | awk -v h="$1" -v n="${2:-1}" '$0==h{c++; if(c==n)f=1} f&&/\| VALO \|/{print; exit}'; }   # register values after the N-th node printed as $1
stck() { printf '%s\n' "$OUT" | awk -v h="$1" -v n="${2:-1}" '$0==h{c++; if(c==n)f=1} f&&/\| STCK \|/{print; exit}'; }   # memory values after that node
claims() { printf '%s' "$1" | grep -Eq "[[ ]$2[],]"; }                   # does the map line contain the entry "$2"?
bad=0
# Finding 1: values of gp/tp flow from CFG predecessors through a FUNCTION ENTRY node,
# although the function is also entered by a call (which is not a CFG edge).

OUT=$(debug_of "$dir/loop.s")
line=$(valo "add a7 <- tp, zero")
echo "loop.s     after 'mv a7, tp' (first instruction of f): $line"
if claims "$line" "a7: 4"; then
  echo "  VIOLATION: analyzer claims a7 == 4 there; on the first entry (jal f from main, tp == 1) the machine has a7 == 1"
  bad=1
fi

OUT=$(debug_of "$dir/tailjump.s")
line=$(valo "add a7 <- tp, zero")
echo "tailjump.s after 'mv a7, tp' (first instruction of f): $line"
if claims "$line" "a7: 4"; then
  echo "  VIOLATION: analyzer claims a7 == 4 there; when f is called from main (tp == 1) the machine has a7 == 1"
  bad=1
fi
exit $bad
