#!/bin/bash
dir=$(cd "$(dirname "$0")" && pwd)
RVA=${RVA:-/tmp/wt3-C01/target/debug/rva}
debug_of() { "$RVA" lint "$1" --debug --no-color 2>&1; }                 # --debug dump, one block per CFG node
valo() { printf '%s\n' "$OUT" | awk -v h="$1" -v n="${2:-1}" '$0==h{c++; if(c==n)f=1} f&&/\| VALO \|/{print; exit}'; }   # register values after the N-th node printed as $1
stck() { printf '%s\n' "$OUT" | awk -v h="$1" -v n="${2:-1}" '$0==h{c++; if(c==n)f=1} f&&/\| STCK \|/{print; exit}'; }   # memory values after that node
claims() { printf '%s' "$1" | grep -Eq "[[ ]$2[],]"; }                   # does the map line contain the entry "$2"?
bad=0
# Finding 5: "*(csr) + off" entries survive (a) a rewrite of the CSR, (b) stores through another register.
OUT=$(debug_of "$dir/input.s")
line=$(valo "lw a1 <- 0(t2)")
echo "input.s: uscratch re-pointed to buf (contains 99), then 'lw a1, 0(t2)': $line"
if claims "$line" "a1: 5"; then echo "  VIOLATION: analyzer claims a1 == 5 (the word at the OLD pointer); the machine loads buf[0] == 99"; bad=1; fi
OUT=$(debug_of "$dir/alias.s")
line=$(valo "lw a1 <- 0(t0)")
echo "alias.s: the word is overwritten through a copy of the pointer, then 'lw a1, 0(t0)': $line"
if claims "$line" "a1: 5"; then echo "  VIOLATION: analyzer claims a1 == 5; the machine has a1 == 9"; bad=1; fi
exit $bad
