main:
    csrr t0, uscratch        # pointer P kept in uscratch
    li   a0, 5
    sw   a0, 0(t0)           # *(P) = 5
    mv   t1, t0              # plain copy of the pointer
    li   a2, 9
    sw   a2, 0(t1)           # *(P) = 9
    lw   a1, 0(t0)           # machine: a1 = 9    analyzer: a1 = 5
    li   a7, 10
    ecall
