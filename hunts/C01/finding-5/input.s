main:
    csrr t0, uscratch        # t0 = old pointer P
    li   a0, 5
    sw   a0, 0(t0)           # *(P) = 5
    la   t1, buf
    csrw t1, uscratch        # uscratch = &buf   (RARS operand order: csrw rs, csr)
    li   t1, 0               # the register that was written to the CSR is reused
    csrr t2, uscratch        # t2 = &buf
    lw   a1, 0(t2)           # machine: a1 = buf[0] = 99     analyzer: a1 = 5
    li   a7, 10
    ecall
.data
buf: .word 99
