main:
    jal fa
    jal fb
    li a7, 10
    ecall
fa:
    beq a0, zero, fa_tail
    addi a0, a0, 1
    ret
fa_tail:
    addi a0, a0, 2
    ret
fb:
    addi a0, a0, 3
    j fa_tail
