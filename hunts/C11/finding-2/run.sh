#!/bin/sh
cd "$(dirname "$0")" || exit 2
RVA=/tmp/wt3-C11/target/debug/rva
[ -x "$RVA" ] || { echo "missing $RVA (cargo build --workspace --offline)"; exit 2; }
python3 f2.py
rc=$?
echo "--- lint output:"
"$RVA" lint shared_second_return.s --no-color
exit $rc
