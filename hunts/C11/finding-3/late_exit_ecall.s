main:
    jal f
    li a7, 10
    ecall
f:
    li a7, 10
    beq a0, zero, second
    li a7, 93
    ecall
second:
    ecall
    addi a0, a0, 1
    ret
