#!/bin/sh
# Exits non-zero when f is attributed instructions (and an exit) it no longer reaches.
cd "$(dirname "$0")" || exit 2
RVA=/tmp/wt3-C11/target/debug/rva
[ -x "$RVA" ] || { echo "missing $RVA (cargo build --workspace --offline)"; exit 2; }
python3 c11check.py late_exit_ecall.s
rc=$?
echo "--- the tool itself calls an instruction of f unreachable:"
"$RVA" lint late_exit_ecall.s --no-color | grep -A4 'Unreachable'
echo "--- while it lists it under function f:"
"$RVA" lint late_exit_ecall.s --debug | grep -A7 '^addi a0 <- a0, 1' | grep -E '^addi|FN'
exit $rc
