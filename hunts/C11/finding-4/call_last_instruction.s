main:
    jal f
    li a7, 10
    ecall
fail:
    addi a0, a0, 2
    ret
f:
    beq a0, zero, bad
    ret
bad:
    addi a0, a0, 1
    jal fail
