main:
    jal f
    li a7, 10
    ecall
f:
    beq a0, zero, done
    addi a0, a0, 1
    jr t0
done:
    ret
