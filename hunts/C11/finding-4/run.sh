#!/bin/sh
# Exits non-zero when an instruction that f reaches by fall-through is in no function
# and is called unreachable.
cd "$(dirname "$0")" || exit 2
RVA=/tmp/wt3-C11/target/debug/rva
[ -x "$RVA" ] || { echo "missing $RVA (cargo build --workspace --offline)"; exit 2; }
rc=0
echo "=== indirect_jump.s: f: beq ..., done ; addi ; jr t0 ; done: ret"
"$RVA" lint indirect_jump.s --debug > dbg1.txt 2>/dev/null
grep -A7 '^jalr \[t0\]' dbg1.txt | grep -E '^jalr|NEXT|FN'
grep -A7 '^addi a0 <- a0, 1' dbg1.txt | grep -E '^addi|NEXT|FN'
if grep -A7 '^jalr \[t0\]' dbg1.txt | grep -q 'FN   | N/A'; then
  echo "VIOLATION: 'jr t0' (line 8), reached from f's entry by fall-through, is attributed to no function"; rc=1
fi
if "$RVA" lint indirect_jump.s --no-color | grep -A4 'Unreachable line of code' | grep -q '8 | jr t0'; then
  echo "VIOLATION: 'jr t0' is reported as unreachable code"; rc=1
fi
echo "=== call_last_instruction.s: the file ends with 'jal fail' inside f"
"$RVA" lint call_last_instruction.s --debug > dbg2.txt 2>/dev/null
grep -A7 '^jal \[fail\]' dbg2.txt | grep -E '^jal|NEXT|FN'
if grep -A7 '^jal \[fail\]' dbg2.txt | grep -q 'FN   | N/A'; then
  echo "VIOLATION: 'jal fail' (line 13), reached from f's entry, is attributed to no function"; rc=1
fi
rm -f dbg1.txt dbg2.txt
exit $rc
