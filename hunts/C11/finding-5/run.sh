#!/bin/sh
# Exits non-zero when `handler` is installed in utvec (the tool's own values say so) but is not a function.
cd "$(dirname "$0")" || exit 2
RVA=/tmp/wt3-C11/target/debug/rva
[ -x "$RVA" ] || { echo "missing $RVA (cargo build --workspace --offline)"; exit 2; }
"$RVA" lint handler_behind_exit.s --debug > dbg.txt 2>/dev/null
echo "--- the installation as the tool sees it in its final CFG:"
grep -A3 '^csrrw zero <- 5 <- t0' dbg.txt
nfunc=$(grep -c 'FUNCTION ENTRY' dbg.txt)
echo "function entries in the CFG: $nfunc"
rc=0
if grep -A3 '^csrrw zero <- 5 <- t0' dbg.txt | grep -q 't0: handler' && [ "$nfunc" -eq 0 ]; then
  echo "VIOLATION: utvec <- address of 'handler', yet 'handler' is not a function"; rc=1
fi
"$RVA" lint handler_behind_exit.s --no-color | grep -A4 'Unreachable'
# control: without the (dead) 'li t0, 0' the handler is recognised
grep -v 'li t0, 0' handler_behind_exit.s > control.s
echo "control (line 'li t0, 0' removed): function entries = $("$RVA" lint control.s --debug 2>/dev/null | grep -c 'FUNCTION ENTRY')"
rm -f dbg.txt control.s
exit $rc
