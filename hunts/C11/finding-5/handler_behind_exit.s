main:
    la t0, handler
    beq a0, zero, install
    li t0, 0
    li a7, 10
    ecall
install:
    csrrw zero, utvec, t0
    li a7, 10
    ecall
handler:
    addi sp, sp, -4
    sw t1, 0(sp)
    lw t1, 0(sp)
    addi sp, sp, 4
    uret
