main:
    jal f
    li a7, 10
    ecall
g:
    ret
f:
