#!/bin/sh
# Exits non-zero when 'jal f' (f: a label with no instruction behind it) is accepted silently and f is no function.
cd "$(dirname "$0")" || exit 2
RVA=/tmp/wt3-C11/target/debug/rva
[ -x "$RVA" ] || { echo "missing $RVA (cargo build --workspace --offline)"; exit 2; }
out=$("$RVA" lint call_trailing_label.s --no-color 2>&1)
echo "$out"
nfunc=$("$RVA" lint call_trailing_label.s --debug 2>/dev/null | grep -c 'FUNCTION ENTRY')
echo "function entries in the CFG: $nfunc"
rc=0
if [ "$nfunc" -eq 0 ] && ! echo "$out" | grep -q -i 'label without instruction\|not defined'; then
  echo "VIOLATION: 'jal f' names f, f is not a function, and no diagnostic says why"; rc=1
fi
printf 'main:\n    j f\ng:\n    ret\nf:\n' > control.s
echo "control ('j f' instead of 'jal f'):"; "$RVA" lint control.s --no-color 2>&1 | head -2
rm -f control.s
exit $rc
