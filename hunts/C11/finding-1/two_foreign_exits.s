main:
    jal fa
    jal fb
    jal fc
    li a7, 10
    ecall
fa:
    addi a0, a0, 1
fa_mid:
    addi a0, a0, 2
    ret
fb:
    addi a0, a0, 3
fb_mid:
    addi a0, a0, 4
    ret
fc:
    beq a0, zero, fa_mid
    j fb_mid
