#!/bin/sh
# Exits non-zero when function fc keeps two returns (violation present).
cd "$(dirname "$0")" || exit 2
RVA=/tmp/wt3-C11/target/debug/rva
[ -x "$RVA" ] || { echo "missing $RVA (cargo build --workspace --offline)"; exit 2; }
python3 c11check.py two_foreign_exits.s
rc=$?
echo "--- the two returns as the tool sees them (both still 'jalr [ra]', NEXT 0, both in fc):"
"$RVA" lint two_foreign_exits.s --debug | grep -A7 '^jalr \[ra\]' | grep -E '^jalr|NEXT|FN'
exit $rc
