main:
    li   a0, 5
loop:
    j    test
body:
    addi a0, a0, -1
    j    loop
test:
    bnez a0, body
    li   a7, 10
    ecall
