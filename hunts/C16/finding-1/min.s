f:
    j d1
L3:
    j f
d1:
    bnez a1, L3
