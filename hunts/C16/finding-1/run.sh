#!/bin/bash
# Exits non-zero when the violation (the analyzer never answers) is present.
cd "$(dirname "$0")"
RVA=${RVA:-/tmp/wt3-C16/target/debug/rva}
LIMIT=${LIMIT:-30}
bad=0
for f in loop.s min.s; do
    out=$(timeout "$LIMIT" "$RVA" lint "$f" --no-color --compact 2>&1); rc=$?
    if [ $rc -eq 124 ]; then
        echo "VIOLATION: 'rva lint $f' printed nothing and was still running after ${LIMIT}s (killed)"
        bad=1
    else
        echo "ok: 'rva lint $f' finished with exit code $rc and printed:"; echo "$out"
    fi
done
exit $bad
