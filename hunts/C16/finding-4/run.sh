#!/bin/bash
# Exits non-zero when a label problem gets no error at its own occurrence.
cd "$(dirname "$0")"
RVA=${RVA:-/tmp/wt3-C16/target/debug/rva}
bad=0
out=$(timeout 30 "$RVA" lint two_undefined.s --no-color --compact 2>&1)
echo "--- two_undefined.s:"; echo "$out"
# alpha is used on line 2, beta on line 4
echo "$out" | grep -q "alpha.* at 2 " || { echo "VIOLATION: no error naming 'alpha' at line 2"; bad=1; }
echo "$out" | grep -q "beta.* at 4 "  || { echo "VIOLATION: undefined label 'beta' (line 4) has no error at its occurrence; it is only listed in the error placed on 'alpha' (line 2)"; bad=1; }
out=$(timeout 30 "$RVA" lint undefined_and_duplicate.s --no-color --compact 2>&1)
echo "--- undefined_and_duplicate.s:"; echo "$out"
echo "$out" | grep -q "missing.* at 6 " || { echo "VIOLATION: no error naming 'missing' at line 6"; bad=1; }
echo "$out" | grep -q "Duplicate label: twice" || { echo "VIOLATION: duplicate label 'twice' (line 5) produces no error at all"; bad=1; }
exit $bad
