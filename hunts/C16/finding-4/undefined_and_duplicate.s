main:
    li   t0, 1
twice:
    addi t0, t0, 1
twice:
    j    missing
