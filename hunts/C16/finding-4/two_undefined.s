main:
    j    alpha
    li   t0, 1
    beq  t0, t1, beta
    li   a7, 10
    ecall
