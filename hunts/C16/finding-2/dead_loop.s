main:
    li   a7, 10
    ecall
g:
    li   a7, 5
L2:
    beq  sp, t1, f
    jal  s0, L2
f:
    bnez a0, g
