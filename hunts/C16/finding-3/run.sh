#!/bin/bash
# Exits non-zero when an analysis-stopping error is not visible in default output.
cd "$(dirname "$0")"
RVA=${RVA:-/tmp/wt3-C16/target/debug/rva}
bad=0
check() { # dir, text that the stopping error must show
    for flags in "--no-color" "--no-color --compact"; do
        out=$(timeout 30 "$RVA" lint "$1/main.s" $flags 2>&1)
        all=$(timeout 30 "$RVA" lint "$1/main.s" $flags --all-files 2>&1)
        echo "--- $1, default output ($flags):"; echo "$out"
        echo "--- $1, with --all-files:"; echo "$all"
        if echo "$all" | grep -q "$2" && ! echo "$out" | grep -q "$2"; then
            echo "VIOLATION: the analysis stopped with '$2' but default output does not show it (and shows no lint for main.s either)"
            bad=1
        fi
    done
}
check case-a "Function without return"
check case-b "Labels not defined: nowhere"
check case-c "Duplicate label: foo"
exit $bad
