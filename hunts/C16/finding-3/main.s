.include "lib.s"
main:
    li   t0, 1
    li   a7, 10
    ecall
