foo:
    j    nowhere
