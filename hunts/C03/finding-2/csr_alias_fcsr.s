main:
    csrrwi x0, fcsr, 10         # fcsr = 10  (frm = 0, fflags = 10)
    csrrwi x0, frm, 1           # frm = fcsr[7:5] = 1  ->  fcsr = 42
    csrrs  a7, fcsr, x0         # a7 = 42 (analyzer: 10)
    li     a0, 0
    li     a1, 5
    ecall                       # RandIntRange (a7 = 42): execution continues
    li     a7, 10               # line 8: reached by every execution
    ecall
