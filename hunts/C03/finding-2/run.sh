#!/bin/bash
# Exits non-zero when the violation is present.
cd "$(dirname "$0")"
RVA=${RVA:-/tmp/wt3-C03/target/debug/rva}
bad=0
for f in csr_set_bits.s csr_clear_bits.s csr_alias_fcsr.s; do
  out=$("$RVA" lint "$f" --compact --no-color 2>&1)
  echo "== $f"
  echo "$out"
  if echo "$out" | grep -q "Unreachable line of code in .* at 8 "; then
    echo "VIOLATION: line 8 (li a7, 10) is executed by every concrete run but is reported unreachable;"
    echo "           the fall-through edge behind the non-exit ecall on line 7 was cut."
    bad=1
  fi
done
exit $bad
