main:
    li     t0, 88
    li     t1, 93
    csrrw  x0, uscratch, t1     # uscratch = 93
    csrrc  x0, uscratch, t0     # uscratch = 93 & ~88 = 5
    csrrs  a7, uscratch, x0     # a7 = 5 (analyzer: 93)
    ecall                       # ReadInt (a7 = 5): execution continues
    li     a7, 10               # line 8: reached by every execution
    ecall
