main:
    li     t0, 10
    csrrw  x0, uscratch, t0     # uscratch = 10
    csrrsi x0, uscratch, 1      # uscratch = 10 | 1 = 11
    csrrs  a7, uscratch, x0     # a7 = 11 (analyzer: 10)
    li     a0, 65
    ecall                       # PrintChar (a7 = 11): execution continues
    li     a7, 10               # line 8: reached by every execution
    ecall
