#!/bin/bash
# Exits non-zero when the violation is present.
cd "$(dirname "$0")"
RVA=${RVA:-/tmp/wt3-C03/target/debug/rva}
bad=0
check() { # file line
  out=$("$RVA" lint "$1" --compact --no-color 2>&1)
  echo "== $1"
  echo "$out"
  if echo "$out" | grep -q "Unreachable line of code in .* at $2 "; then
    echo "VIOLATION: line $2 is executed by every concrete run but is reported unreachable;"
    echo "           the fall-through edge behind the non-exit ecall on the line before it was cut."
    bad=1
  fi
}
check escaped_pointer.s 10
check callee_saved_trusted.s 7
check csr_across_call.s 7
exit $bad
