main:
    addi sp, sp, -4
    li   t0, 10
    sw   t0, 0(sp)      # local variable = 10
    mv   a0, sp         # pass its address
    jal  clear          # set1(&local): local = 1   (ABI-conforming callee)
    lw   a7, 0(sp)      # a7 = 1 (analyzer: 10)
    li   a0, 42
    ecall               # PrintInt (a7 = 1): execution continues
    addi sp, sp, 4      # line 10: reached by every execution
    li   a7, 10
    ecall
clear:
    li   t0, 1
    sw   t0, 0(a0)      # *a0 = 1
    ret
