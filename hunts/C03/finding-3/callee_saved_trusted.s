main:
    li   s0, 10
    jal  f              # f overwrites s0 (breaks the convention, but is a legal program)
    mv   a7, s0         # a7 = 1 (analyzer: 10)
    li   a0, 7
    ecall               # PrintInt (a7 = 1): execution continues
    li   a7, 10         # line 7: reached by every execution
    ecall
f:
    li   s0, 1
    ret
