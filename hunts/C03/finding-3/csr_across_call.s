main:
    csrrwi x0, uscratch, 10    # uscratch = 10
    jal    f                   # f sets uscratch = 1 (no convention protects a CSR)
    csrrs  a7, uscratch, x0    # a7 = 1 (analyzer: 10)
    li     a0, 7
    ecall                      # PrintInt: execution continues
    li     a7, 10              # line 7: reached by every execution
    ecall
f:
    csrrwi x0, uscratch, 1
    ret
