main:
    addi sp, sp, -4
    li   t0, 10
    sw   t0, 0(sp)      # stack word = 10
    mv   t1, sp         # t1 is another name for the same address
    li   t2, 1
    sw   t2, 0(t1)      # the same stack word = 1
    lw   a7, 0(sp)      # a7 = 1 in every execution (analyzer: 10)
    li   a0, 42
    ecall               # PrintInt (a7 = 1): execution continues below
    addi sp, sp, 4      # line 11: reached by every execution
    li   a7, 10
    ecall
