main:
    addi sp, sp, -4
    li   t0, 10
    sw   t0, 0(sp)      # stack word = 10
    mv   a0, sp         # buffer = that stack word
    li   a1, 4
    li   a7, 8
    ecall               # ReadString: the environment overwrites the buffer
    lw   a7, 0(sp)      # a7 = the bytes read, e.g. 1 for input byte 0x01 (analyzer: 10)
    ecall               # with input byte 0x01: PrintInt, execution continues
    addi sp, sp, 4      # line 11: reached by such an execution
    li   a7, 10
    ecall
