#!/bin/bash
# Exits non-zero when the violation is present.
cd "$(dirname "$0")"
RVA=${RVA:-/tmp/wt3-C03/target/debug/rva}
bad=0
for f in alias_store.s ecall_writes_buffer.s; do
  out=$("$RVA" lint "$f" --compact --no-color 2>&1)
  echo "== $f"
  echo "$out"
  if echo "$out" | grep -q "Unreachable line of code in .* at 11 "; then
    echo "VIOLATION: line 11 (addi sp, sp, 4) is executed by a concrete run but is reported unreachable;"
    echo "           the fall-through edge behind the non-exit ecall on line 10 was cut."
    bad=1
  fi
  # show the successor count of the ecall on line 10 (second-to-last ecall) from the graph
  "$RVA" lint "$f" --debug --no-color 2>/dev/null | awk '/^ecall/{e=1} e && /NEXT/{print "   ecall NEXT count:", $4; e=0}'
done
exit $bad
