#!/bin/bash
# Not a C03 violation by the letter (no graph is ever finished) - rva does not terminate on this valid 7-line program.
cd "$(dirname "$0")"
RVA=${RVA:-/tmp/wt3-C03/target/debug/rva}
timeout 20 "$RVA" lint hang.s --compact --no-color
rc=$?
if [ $rc -eq 124 ]; then echo "NON-TERMINATION: rva still running after 20 s (AvailableValuePass oscillates)"; exit 1; fi
exit 0
