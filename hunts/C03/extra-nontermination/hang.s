L1:
    addi a0, zero, -2
    beq a1, a0, L2
    ret
L0:
    jal zero, L1
L2:
    j L0
