main:
    li   a7, 10
    j    fin
A:
    li   a7, 1          # dead: its only predecessor is the jump behind the second exit
fin:
    ecall               # a7 = 10 in every execution: an exit ecall
    li   a0, 0          # never executed
    li   a7, 10
    ecall               # recognised as exit (0 successors)
    j    A              # dead: behind a recognised exit
