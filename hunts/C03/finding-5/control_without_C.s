main:
    li   a7, 10
    j    fin
A:
    li   a7, 1
fin:
    ecall
    li   a0, 0
    ret
