main:
    li   a7, 10
    j    fin
A:
    li   a7, 1          # dead: its only predecessor is C, which is dead
fin:
    ecall               # a7 = 10 in every execution: an exit ecall
    li   a0, 0          # never executed
    ret
C:
    j    A              # dead (behind ret, nothing jumps to C)
