#!/bin/bash
# Exits non-zero when the violation is present.
cd "$(dirname "$0")"
RVA=${RVA:-/tmp/wt3-C03/target/debug/rva}
bad=0
for f in single_sweep.s behind_exit.s; do
  echo "== $f"
  # successor count of the first ecall (label fin) and predecessor-less nodes that still have successors
  n=$("$RVA" lint "$f" --debug --no-color 2>/dev/null | awk '/^ecall/{e=1} e && /NEXT/{print $4; exit}')
  echo "successors of the ecall at 'fin' (a7 = 10 in every execution): $n"
  "$RVA" lint "$f" --compact --no-color 2>&1 | grep -E "Unknown ecall|Unreachable"
  if [ "$n" != "0" ]; then
    echo "VIOLATION: an edge leaves an ecall that is an exit ecall (a7 = 10) in every execution;"
    echo "           the value 1 comes only from node A, which rva itself reports as unreachable."
    bad=1
  fi
done
exit $bad
