main:
    li   a0, 1
    li   gp, 1
    jal  f              # first entry into f: by call, gp = 1
    li   a0, 1
    li   gp, 10         # second entry into f: by falling through, gp = 10
f:
    beqz a0, done
    mv   a7, gp         # 1 on the call, 10 on the fall-through
    li   a0, 5
    ecall               # call: PrintInt, continues; fall-through: Exit
    li   a0, 0          # line 12: reached by the execution that came in by the call
done:
    ret
