#!/bin/bash
# Exits non-zero when the violation is present.
cd "$(dirname "$0")"
RVA=${RVA:-/tmp/wt3-C03/target/debug/rva}
out=$("$RVA" lint gp_through_entry.s --compact --no-color 2>&1)
echo "$out"
if echo "$out" | grep -q "Unreachable line of code in .* at 12 "; then
  echo "VIOLATION: line 12 (li a0, 0) is executed (f called with gp = 1 -> a7 = 1 -> PrintInt) but is reported unreachable;"
  echo "           the fall-through edge behind the ecall on line 11 was cut because gp = 10 was taken from the fall-through entry only."
  exit 1
fi
exit 0
