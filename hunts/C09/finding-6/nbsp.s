main:
    addi t0, zero, 2
    li a7, 10
    ecall
