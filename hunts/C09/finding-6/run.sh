#!/bin/sh
# Finding 6: the pretty printer puts the caret under a different character than the one
# the diagnostic designates when the line starts with a character that Rust regards as
# white space but the lexer does not (here U+00A0, no-break space).
RVA=${RVA:-/tmp/wt3-C09/target/debug/rva}
cd "$(dirname "$0")" || exit 2
"$RVA" lint --no-color nbsp.s
python3 - "$RVA" <<'PY'
import json, subprocess, sys
rva = sys.argv[1]
f = "nbsp.s"
text = open(f, newline="", encoding="utf-8").read()
d = json.loads(subprocess.run([rva, "lint", "--json", f], capture_output=True, text=True).stdout)["diagnostics"][0]
s = d["range"]["start"]
designated = text[s["raw"]]
pretty = subprocess.run([rva, "lint", "--no-color", f], capture_output=True, text=True).stdout.split("\n")
# first diagnostic: lines are: title, file, gutter, source line, caret line
src_line, caret_line = pretty[3], pretty[4]
bar = src_line.index("|")
shown = src_line[bar + 2:]
carets = caret_line[caret_line.index("|") + 2:]
col = carets.index("^")
under = shown[col] if col < len(shown) else ""
print(f"json/compact: '{d['title']}' at line {s['line']+1} column {s['column']+1} = {designated!r} (U+{ord(designated):04X})")
print(f"pretty: source line shown as {shown!r}, caret under {under!r}")
if under != designated:
    print("VIOLATION: the caret marks a character the message is not about (the designated one is not even shown)")
    sys.exit(1)
PY
