.data
table: .word 1, 2
       3

       4 # more
flag:  .byte 1
.text
main:
    li a7, 10
    ecall
