#!/bin/sh
# Finding 5: a data directive whose value list continues on following lines yields a
# parser node whose range runs over several lines (library API: ParserNode::range()).
cd "$(dirname "$0")" || exit 2
(cd nodecheck && cargo build --offline --quiet 2>/dev/null) || { echo "build failed"; exit 2; }
./nodecheck/target/debug/nodecheck data.s
