main:
    jal foo
    li a7, 10
    ecall
foo:
    call bar
    ret
bar:
    jal baz
    jalr zero, ra, 0
baz:
    la t0, qux
    jalr t0
    ret
qux:
    ret
