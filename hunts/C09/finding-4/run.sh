#!/bin/sh
# Finding 4: a diagnostic about the implicitly written register ra (call / jal label /
# jalr rs) designates the bare mnemonic: neither a register nor the whole instruction.
RVA=${RVA:-/tmp/wt3-C09/target/debug/rva}
cd "$(dirname "$0")" || exit 2
"$RVA" lint --no-color implicit_ra.s
python3 - "$RVA" <<'PY'
import json, subprocess, sys
rva = sys.argv[1]
f = "implicit_ra.s"
text = open(f, newline="").read()
lines = text.split("\n")
regs = {"ra", "x1"}
out = subprocess.run([rva, "lint", "--json", f], capture_output=True, text=True).stdout
bad = 0
for d in json.loads(out)["diagnostics"]:
    if d["title"] != "Overwrite callee-saved register":
        continue
    s, e = d["range"]["start"], d["range"]["end"]
    got = text[s["raw"]:e["raw"] + 1]
    instr = lines[s["line"]].split("#")[0].strip()
    ok = got in regs or got == instr
    print(f"{f}:{s['line']+1}: '{d['title']}' designates {got!r}; the instruction is {instr!r} -> {'ok' if ok else 'VIOLATION (only the mnemonic)'}")
    bad |= not ok
sys.exit(1 if bad else 0)
PY
