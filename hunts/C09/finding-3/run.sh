#!/bin/sh
# Finding 3: "Invalid string" diagnostics end at the character where the lexer gave up:
# past the last character of the file, or on the line terminator.
RVA=${RVA:-/tmp/wt3-C09/target/debug/rva}
cd "$(dirname "$0")" || exit 2
python3 - "$RVA" <<'PY'
import json, subprocess, sys
rva = sys.argv[1]
bad = 0
for f in ("unclosed_at_eof.s", "unclosed_at_eol.s", "bad_escape.s"):
    text = open(f, newline="").read()
    out = subprocess.run([rva, "lint", "--json", f], capture_output=True, text=True).stdout
    for d in json.loads(out)["diagnostics"]:
        s, e = d["range"]["start"], d["range"]["end"]
        got = text[s["raw"]:e["raw"] + 1]
        probs = []
        if e["raw"] >= len(text):
            probs.append(f"end offset {e['raw']} is outside the file (length {len(text)})")
        if "\n" in got:
            probs.append("range contains the line terminator")
        line = text.split("\n")[s["line"]]
        if e["column"] >= len(line):
            probs.append(f"end column {e['column']+1} is beyond the line (length {len(line)})")
        print(f"{f}: '{d['title']}' {s['line']+1}:{s['column']+1}-{e['column']+1} text {got!r}: " + ("; ".join(probs) + " -> VIOLATION" if probs else "inside the line (but only part of the literal)"))
        bad |= bool(probs)
sys.exit(1 if bad else 0)
PY
