main:
    li a7, 10
    ecall
.data
msg: .asciz "abc