main:
    .macro inc_a0
    addi a0, a0, 1
    .end_macro
    li a7, 10
    ecall
