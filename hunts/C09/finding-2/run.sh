#!/bin/sh
# Finding 2: a `.macro` without a recognised end (`.endmacro`; RARS' `.end_macro` is not
# recognised) gives an "Unexpected end of file" diagnostic whose range runs over several
# lines; the compact and pretty printers combine the first line with the last line's column.
RVA=${RVA:-/tmp/wt3-C09/target/debug/rva}
cd "$(dirname "$0")" || exit 2
echo "--- compact:"; "$RVA" lint --compact --no-color macro.s
echo "--- pretty:";  "$RVA" lint --no-color macro.s
python3 - "$RVA" <<'PY'
import json, subprocess, sys
rva = sys.argv[1]
text = open("macro.s", newline="").read()
out = subprocess.run([rva, "lint", "--json", "macro.s"], capture_output=True, text=True).stdout
bad = 0
for d in json.loads(out)["diagnostics"]:
    s, e = d["range"]["start"], d["range"]["end"]
    got = text[s["raw"]:e["raw"] + 1]
    multi = s["line"] != e["line"]
    print(f"json: '{d['title']}' lines {s['line']+1}..{e['line']+1}, cols {s['column']+1}..{e['column']+1}, text {got!r} -> {'VIOLATION (not on a single line)' if multi else 'ok'}")
    bad |= multi
sys.exit(1 if bad else 0)
PY
