#!/bin/sh
# Finding 1: the one-operand form `jalr rs` swallows the token that follows it
# (a trailing comment, or the next statement on the line) into the instruction's range.
RVA=${RVA:-/tmp/wt3-C09/target/debug/rva}
cd "$(dirname "$0")" || exit 2
python3 - "$RVA" <<'PY'
import json, subprocess, sys
rva = sys.argv[1]
bad = 0
for f, line, want in (("jalr_comment.s", 5, "jalr t0"), ("jalr_two_statements.s", 3, "jalr t0")):
    text = open(f, newline="").read()
    out = subprocess.run([rva, "lint", "--json", f], capture_output=True, text=True).stdout
    for d in json.loads(out)["diagnostics"]:
        s, e = d["range"]["start"], d["range"]["end"]
        if s["line"] == line and d["title"] == "Unreachable line of code":
            got = text[s["raw"]:e["raw"] + 1]
            ok = got == want
            print(f"{f}:{line+1}: '{d['title']}' designates {got!r}, expected {want!r} -> {'ok' if ok else 'VIOLATION'}")
            bad |= not ok
sys.exit(1 if bad else 0)
PY
