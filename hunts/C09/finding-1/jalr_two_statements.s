main:
    li a7, 10
    ecall
    jalr t0 ecall
f:  ret
