main:
    la t0, f
    jalr t0 # call f
    li a7, 10
    ecall
    jalr t0 # never reached
f:  ret
