main:
    la t0, handler
    csrrw zero, utvec, t0
    li a7, 10
    ecall
handler:
    csrrw a0, uscratch, a0
    csrrw a0, uscratch, a0
    uret
