#!/bin/bash
# Finding 1: the "interrupt handler" annotation of a function entry does not survive dump + load.
# Exits non-zero when the violation is present.
set -u
here="$(cd "$(dirname "$0")" && pwd)"
WT=/tmp/wt3-C19
RVA=$WT/target/debug/rva
export CARGO_TARGET_DIR=/tmp/hunt-C19/target
[ -x "$RVA" ] || (cd $WT && cargo build --workspace --offline >/dev/null 2>&1)
(cd "$here/checker" && cargo build --offline >/dev/null 2>&1) || { echo "checker build failed"; exit 99; }
"$RVA" lint "$here/handler.s" --yaml --no-output > "$here/dump.yaml" || { echo "rva failed"; exit 99; }
echo "function entry as it appears in the dump:"
grep -n "FuncEntry" "$here/dump.yaml"
"$CARGO_TARGET_DIR/debug/c19-finding1" "$here/handler.s" "$here/dump.yaml"
