main:
    addi t0, t0, 1
    li a7, 10
    ecall
