#!/bin/bash
# Finding 2: a loaded dump never compares equal to the structure that was written
# (node identity is not serialised, and ParserNode equality is identity only); conversely
# loaded structures compare equal although their instructions differ.
# Exits non-zero when the violation is present.
set -u
here="$(cd "$(dirname "$0")" && pwd)"
WT=/tmp/wt3-C19
RVA=$WT/target/debug/rva
export CARGO_TARGET_DIR=/tmp/hunt-C19/target
[ -x "$RVA" ] || (cd $WT && cargo build --workspace --offline >/dev/null 2>&1)
(cd "$here/checker" && cargo build --offline >/dev/null 2>&1) || { echo "checker build failed"; exit 99; }
"$RVA" lint "$here/a.s" --yaml --no-output > "$here/a.yaml" || exit 99
"$RVA" lint "$here/b.s" --yaml --no-output > "$here/b.yaml" || exit 99
echo "diff of the two dumps:"; diff "$here/a.yaml" "$here/b.yaml"
"$CARGO_TARGET_DIR/debug/c19-finding2" "$here/a.s" "$here/a.yaml" "$here/b.yaml"
