main:
    xori t0, t0, 77
    li a7, 10
    ecall
