#!/bin/sh
# Exits non-zero when the violation is present.
RVA=${RVA:-/tmp/wt4-C16/target/debug/rva}
cd "$(dirname "$0")" || exit 2
fail=0
ctl=$("$RVA" lint --no-color --compact control.s 2>&1)
echo "control.s (lw a0, Nowhere):"; echo "$ctl" | sed 's/^/    /'
echo "$ctl" | grep -q "Labels not defined: Nowhere" || { echo "control does not behave as expected - cannot judge"; exit 2; }
for f in zero_load.s zero_store.s; do
    out=$("$RVA" lint --no-color --compact "$f" 2>&1)
    echo "$f:"; echo "${out:-<no output at all>}" | sed 's/^/    /'
    if echo "$out" | grep -qi "Labels not defined: Z"; then
        echo "    -> undefined label reported (ok)"
    else
        echo "    -> VIOLATION: the undefined label Zero/ZERO is not reported"
        fail=1
    fi
done
exit $fail
