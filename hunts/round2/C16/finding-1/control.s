main:
    lw   a0, Nowhere     # control: any other undefined name is reported
    li   a7, 1
    ecall
    li   a7, 10
    ecall
