main:
    lw   a0, Zero        # "Zero" is defined nowhere
    li   a7, 1
    ecall
    li   a7, 10
    ecall
