main:
    li   a0, 7
    sw   a0, ZERO, t0    # "ZERO" is defined nowhere
    li   a7, 10
    ecall
