#!/bin/sh
# Exits non-zero when the violation is present.
RVA=${RVA:-/tmp/wt4-C16/target/debug/rva}
cd "$(dirname "$0")" || exit 2
fail=0
show() { echo "$1:"; echo "${2:-<no output at all>}" | sed 's/^/    /'; }
ctl=$("$RVA" lint --no-color --compact lf_control.s 2>&1); show "lf_control.s (LF line ends)" "$ctl"
echo "$ctl" | grep -q "Labels not defined: nowhere" || { echo "control does not behave as expected"; exit 2; }
nc=$("$RVA" lint --no-color --compact cr_no_comment.s 2>&1); show "cr_no_comment.s (CR line ends, no comment)" "$nc"
echo "$nc" | grep -q "Labels not defined: nowhere" || echo "    (note: even without a comment the label is not reported)"
for f in cr_comment_first.s cr_comment_later.s; do
    out=$("$RVA" lint --no-color --compact "$f" 2>&1); show "$f (CR line ends)" "$out"
    if echo "$out" | grep -q "Labels not defined: nowhere"; then
        echo "    -> undefined label reported (ok)"
    else
        echo "    -> VIOLATION: 'j nowhere' is not reported; everything behind the first '#' was dropped without any message"
        fail=1
    fi
done
exit $fail
