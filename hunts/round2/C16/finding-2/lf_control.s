# my first program
main:
    nop
    j nowhere
