#!/bin/sh
# Exits non-zero when the violation is present.
RVA=${RVA:-/tmp/wt4-C16/target/debug/rva}
cd "$(dirname "$0")" || exit 2
fail=0
work=$(mktemp -d ./work.XXXXXX) || exit 2
trap 'rm -rf "$work"' EXIT
show() { echo "$1:"; echo "${2:-<no output at all>}" | sed 's/^/    /'; }

ctl=$("$RVA" lint --no-color --compact prog.s 2>&1)
show "control: prog.s in a plain directory" "$ctl"
echo "$ctl" | grep -q "Saving to zero register" || { echo "control does not behave as expected"; exit 2; }

# (a) the same program in a directory whose name is Latin-1 ("cafe" with e-acute = byte 0xE9)
d="$work/$(printf 'caf\351')"
mkdir "$d" || { echo "file system refuses non-UTF-8 names - cannot judge"; exit 2; }
cp prog.s "$d/prog.s"
out=$( cd "$d" && "$RVA" lint --no-color prog.s 2>&1 ); rc=$?
show "(a) prog.s inside directory caf\\xE9, rc=$rc" "$out"
if echo "$out" | grep -q "Unexpected error" && echo "$out" | grep -q "<unknown file>"; then
    echo "    -> VIOLATION: generic 'Unexpected error' attached to no file, no lint results"
    fail=1
fi

# (b) the same program in a file whose name is Latin-1
f="$work/$(printf 'pr\351sentation.s')"
cp prog.s "$f"
out=$("$RVA" lint --no-color "$f" 2>&1); rc=$?
show "(b) file pr\\xE9sentation.s, rc=$rc" "$(echo "$out" | head -4)"
if [ $rc -ne 0 ] && echo "$out" | grep -q "panicked"; then
    echo "    -> VIOLATION: the tool panics (internal error), no lint results"
    fail=1
fi
exit $fail
