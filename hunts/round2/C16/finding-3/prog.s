main:
    nop
    li   a7, 10
    ecall
