#!/bin/sh
# Finding 5 (rendering, borderline): in the pretty excerpt the carets under an instruction whose operands are
# separated by tabs do not cover the instruction: one caret per character, but a tab is several columns wide.
cd "$(dirname "$0")" || exit 2
RVA=${RVA:-/tmp/wt4-C09/target/debug/rva}
python3 - "$RVA" <<'PY'
import subprocess, sys
rva = sys.argv[1]
out = subprocess.run([rva, "lint", "--no-color", "tabs.s"], capture_output=True, text=True, timeout=60).stdout
lines = out.split("\n")
bad = 0
for i, l in enumerate(lines):
    if l.startswith("Warning: Unreachable line of code"):
        code, carets = lines[i + 3].expandtabs(8), lines[i + 4].expandtabs(8)
        print(code); print(carets)
        first, last = carets.index("^"), carets.rindex("^")
        shown = code[first:last + 1]
        want = code.split("| ", 1)[1]
        print("text above the carets:", repr(shown)); print("instruction          :", repr(want))
        if shown != want:
            print("VIOLATION: the carets do not cover the instruction (last operand not underlined)")
            bad = 1
sys.exit(bad)
PY
