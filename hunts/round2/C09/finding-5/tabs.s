main:
	li a7, 10
	ecall
	add	a3,	a3,	a3
