.data
other:
    li a0, 2
    ret
