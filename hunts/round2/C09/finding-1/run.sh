#!/bin/sh
# Finding 1: a diagnostic about the second return of a function is located at the FIRST return
# (other line, possibly other file). Exits non-zero when the violation is present.
cd "$(dirname "$0")" || exit 2
RVA=${RVA:-/tmp/wt4-C09/target/debug/rva}
python3 - "$RVA" <<'PY'
import json, subprocess, sys, os
rva = sys.argv[1]
bad = 0
def diags(path):
    out = subprocess.run([rva, "lint", "--json", path], capture_output=True, text=True, timeout=60).stdout
    return json.loads(out)["diagnostics"]

# Case A: one file. Lines (0-based): 7 `ret` is in .text, 10 `li a0, 2` and 11 `jalr zero, ra, 0` are in .data
seg = [(d["range"]["start"]["line"], d["range"]["start"]["column"], d["range"]["end"]["column"])
       for d in diags("two_returns.s") if d["title"] == "Invalid segment"]
print("case A: 'Invalid segment' reported at (line, col, endcol) 0-based:", seg)
src = open("two_returns.s").read().split("\n")
for (l, c, e) in seg:
    print("   designates:", repr(src[l][c:e+1]), "on line", l + 1)
if any(l == 7 for (l, _, _) in seg):
    print("VIOLATION: `ret` on line 8 is in .text, yet 'Invalid segment' is located there")
    bad = 1
if not any(l == 11 for (l, _, _) in seg):
    print("VIOLATION: `jalr zero, ra, 0` on line 12 (in .data) has no diagnostic at its own location")
    bad = 1

# Case B: the second return lives in an included file; its diagnostic is reported in the including file
ds = [d for d in diags("inc/main.s") if d["title"] == "Invalid segment"]
where = [(os.path.basename(d["file"]), d["range"]["start"]["line"] + 1) for d in ds]
print("case B: 'Invalid segment' reported at (file, line):", where)
if ("main.s", 8) in where:
    print("VIOLATION: diagnostic for `ret` of tail.s line 4 is located in main.s line 8")
    bad = 1
if ("tail.s", 4) not in where:
    print("VIOLATION: nothing reported at tail.s line 4")
    bad = 1
sys.exit(bad)
PY
