main:
    jal foo
    li a7, 10
    ecall
foo:
    beqz a0, other
    li a0, 1
    ret
.data
other:
    li a0, 2
    jalr zero, ra, 0
