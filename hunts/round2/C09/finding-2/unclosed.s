main:
    li a7, 10
    ecall
.macro never_closed
    add a0, a0, a0
