main:
    li a7, 10
    ecall
.macro done
    li a7, 10
    ecall
.end_macro
