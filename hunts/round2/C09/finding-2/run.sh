#!/bin/sh
# Finding 2: the error for a `.macro` that is not closed by `.endmacro` (RARS spells it `.end_macro`)
# has a range that starts on the `.macro` line and ends on the last line of the file.
cd "$(dirname "$0")" || exit 2
RVA=${RVA:-/tmp/wt4-C09/target/debug/rva}
python3 - "$RVA" <<'PY'
import json, subprocess, sys
rva = sys.argv[1]
bad = 0
for f in ("rars_macro.s", "unclosed.s"):
    out = subprocess.run([rva, "lint", "--json", f], capture_output=True, text=True, timeout=60).stdout
    src = open(f).read()
    for d in json.loads(out)["diagnostics"]:
        s, e = d["range"]["start"], d["range"]["end"]
        text = src[s["raw"]:e["raw"] + 1]
        print(f"{f}: {d['title']!r} at {s['line']+1}:{s['column']+1} - {e['line']+1}:{e['column']+1} designates {text!r}")
        if s["line"] != e["line"]:
            print("VIOLATION: the range spans", e["line"] - s["line"] + 1, "lines")
            bad = 1
    c = subprocess.run([rva, "lint", "--compact", "--no-color", f], capture_output=True, text=True, timeout=60).stdout
    print("compact output:", c.strip(), " <- start line with the end column of another line")
sys.exit(bad)
PY
