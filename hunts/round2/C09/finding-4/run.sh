#!/bin/sh
# Finding 4: with CR LF line ends the range of a broken string / character literal (and of a comment
# token named in an error) includes the carriage return: the same text gets another end column than with LF.
cd "$(dirname "$0")" || exit 2
RVA=${RVA:-/tmp/wt4-C09/target/debug/rva}
python3 - "$RVA" <<'PY'
import json, subprocess, sys
rva = sys.argv[1]
body = ['.data', 's: .asciz "abc', "t: .byte 'a", '.text', 'main:', '    add a0, a1 # two operands', '    li a7, 10', '    ecall', '']
res = {}
for name, nl in (("lf.s", "\n"), ("crlf.s", "\r\n")):
    src = nl.join(body)
    open(name, "w", newline="").write(src)
    out = subprocess.run([rva, "lint", "--json", name], capture_output=True, text=True, timeout=60).stdout
    res[name] = []
    for d in json.loads(out)["diagnostics"]:
        s, e = d["range"]["start"], d["range"]["end"]
        text = src[s["raw"]:e["raw"] + 1]
        res[name].append((d["title"], s["line"], s["column"], e["column"], text))
        print(f"{name}: {d['title']!r} {s['line']+1}:{s['column']+1}-{e['column']+1} designates {text!r}")
bad = 0
for a, b in zip(res["lf.s"], res["crlf.s"]):
    if a[:4] != b[:4]:
        print("VIOLATION: LF", a, "vs CRLF", b)
        bad = 1
    if b[4].endswith("\r"):
        print("VIOLATION: range ends on the carriage return:", repr(b[4]))
        bad = 1
sys.exit(bad)
PY
