.data
s: .asciz "abc
t: .byte 'a
.text
main:
    add a0, a1 # two operands
    li a7, 10
    ecall
