#!/bin/sh
# Finding 3: a diagnostic about the link register that `call L` / `jal L` / `jalr rs` write implicitly
# designates the mnemonic alone - neither a register nor the instruction (mnemonic through last operand).
cd "$(dirname "$0")" || exit 2
RVA=${RVA:-/tmp/wt4-C09/target/debug/rva}
python3 - "$RVA" <<'PY'
import json, subprocess, sys
rva = sys.argv[1]
f = "implicit_ra.s"
out = subprocess.run([rva, "lint", "--json", f], capture_output=True, text=True, timeout=60).stdout
src = open(f).read(); lines = src.split("\n")
bad = 0
for d in json.loads(out)["diagnostics"]:
    s, e = d["range"]["start"], d["range"]["end"]
    text = src[s["raw"]:e["raw"] + 1]
    stmt = lines[s["line"]].strip()
    verdict = "ok"
    if text != stmt and text not in ("ra", "x1", "a0", "t0"):
        verdict = "VIOLATION: neither a register nor the whole instruction"
        bad = 1
    print(f"line {s['line']+1} `{stmt}`: {d['title']!r} designates {text!r}  {verdict}")
sys.exit(bad)
PY
