main:
    jal foo
    jal qux
    li a7, 10
    ecall
foo:
    call bar
    ret
bar:
    jal baz
    ret
baz:
    la t0, leaf
    jalr t0
    ret
qux:
    jal ra, leaf
    ret
leaf:
    ret
