main:
    li a0, 1
.include "alias.s"
    li a7, 10
    ecall
