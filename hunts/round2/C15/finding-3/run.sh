#!/bin/sh
# Finding 3: a self-include through a second name of the same file (hard link)
# is not recognised as a cycle; the file is pasted 64 times, its labels become
# "duplicate" and the analysis of everything else is lost.
# Control: the same through a symbolic link is handled as the property demands.
cd "$(dirname "$0")" || exit 2
RVA=${RVA:-/tmp/wt4-C15/target/debug/rva}
W=$(mktemp -d ./work.XXXXXX) || exit 2
trap 'rm -rf "$W"' EXIT
mkdir "$W/hard" "$W/sym"
cp main.s "$W/hard/main.s"; ln "$W/hard/main.s" "$W/hard/alias.s" || { echo "cannot create hard link"; exit 2; }
cp main.s "$W/sym/main.s";  ln -s main.s "$W/sym/alias.s"
norm() { (cd "$1" && timeout 60 "$RVA" lint --compact --all-files --no-color main.s | sed -E 's/ in \/.*\/([a-z]+\.s) at / in \1 at /'); }
echo "symbolic link (control):"; s=$(norm "$W/sym");  echo "$s" | sed 's/^/    /'
echo "hard link:";               h=$(norm "$W/hard"); echo "$h" | sed 's/^/    /'
bad=0
echo "$h" | grep -q "Duplicate label" && { echo "VIOLATION: the self-include made 'main' a duplicate label (analysis stopped)"; bad=1; }
echo "$h" | grep -q "Unused value"   || { echo "VIOLATION: the warning for 'li a0, 1' (present in the control) is lost"; bad=1; }
exit $bad
