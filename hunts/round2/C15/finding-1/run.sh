#!/bin/sh
# Finding 1: a statement that continues over a line break (data directive
# continuation lines, .macro ... .endmacro) is cut short at an include boundary.
# Exits 1 when the single file and the include tree give different diagnostics.
cd "$(dirname "$0")" || exit 2
RVA=${RVA:-/tmp/wt4-C15/target/debug/rva}
titles() { # file -> sorted "level: title" lines (locations dropped on purpose)
    timeout 60 "$RVA" lint --compact --all-files --no-color "$1" | sed 's/ in \/.*//' | sort
}
bad=0
check() { # single split description
    a=$(titles "$1"); b=$(titles "$2")
    if [ "$a" != "$b" ]; then
        bad=1
        echo "VIOLATION ($3)"
        echo "  single file $1:"; echo "${a:-<no diagnostics>}" | sed 's/^/      /'
        echo "  include tree $2:"; echo "${b:-<no diagnostics>}" | sed 's/^/      /'
    else
        echo "ok ($3)"
    fi
}
check single.s  main.s  "continuation lines of .word live in the included file"
check single.s  main2.s "the .word line lives in the included file, its continuation lines in the parent"
check msingle.s mmain.s ".macro in the included file, .endmacro in the parent"
exit $bad
