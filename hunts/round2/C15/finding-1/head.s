table: .word 1, 2
