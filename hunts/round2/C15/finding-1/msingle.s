main:
    li a0, 1
    .macro inc
    addi a0, a0, 1
    .endmacro
    li a7, 1
    ecall
    li a7, 10
    ecall
