.data
table: .word 1, 2
    3, 4
    5, 6
.text
main:
    la a0, table
    li a7, 1
    ecall
    li a7, 10
    ecall
