    .macro inc
