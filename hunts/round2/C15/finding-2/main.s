main:
.include "part.s"
    li a7, 10
    ecall
