main:
    li t0, 1
    addi t0, t0
    li a7, 10
    ecall
