.data
.include "spart.s"
.text
main:
    li a7, 10
    ecall
