#!/bin/sh
# Finding 2: an included file without a final newline - its end is reported as
# the end of the input although the text goes on in the parent.
# Exits 1 when single file and include tree differ in title / line / columns.
cd "$(dirname "$0")" || exit 2
RVA=${RVA:-/tmp/wt4-C15/target/debug/rva}
# "level: title @columns" per diagnostic (file name and line dropped: the line
# numbers legitimately differ, the columns of a pasted line do not)
norm() { timeout 60 "$RVA" lint --compact --all-files --no-color "$1" | sed -E 's/ in \/.* at [0-9]+ / @/' | sort; }
desc() { timeout 60 "$RVA" lint --json "$1" | grep '"description"' | sort; }
bad=0
a=$(norm single.s); b=$(norm main.s)
if [ "$a" != "$b" ]; then
    bad=1
    echo "VIOLATION (incomplete last statement of an included file without final newline)"
    echo "  single.s:"; echo "$a" | sed 's/^/      /'
    echo "  main.s + part.s:"; echo "$b" | sed 's/^/      /'
else echo "ok (incomplete statement)"; fi
a=$(desc ssingle.s); b=$(desc smain.s)
if [ "$a" != "$b" ]; then
    bad=1
    echo "VIOLATION (unterminated string as last line of an included file without final newline)"
    echo "  ssingle.s:"; echo "$a"
    echo "  smain.s + spart.s:"; echo "$b"
else echo "ok (unterminated string)"; fi
exit $bad
