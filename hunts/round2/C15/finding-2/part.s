    li t0, 1
    addi t0, t0