.data
s:  .ascii "abc
.text
main:
    li a7, 10
    ecall
