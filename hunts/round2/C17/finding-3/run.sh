#!/bin/sh
# Finding 3: a literal is cut at the first character that cannot be part of a
# symbol; the prefix is accepted as the number. When the rest happens to spell a
# directive there is no diagnostic at all; otherwise the error sits on the tail
# and the instruction still enters the analysis with the truncated value.
# Exits 1 when the violation is present.
cd "$(dirname "$0")"
RVA=${RVA:-/tmp/wt4-C17/target/debug/rva}
out=$("$RVA" lint --compact --no-color cut.s)
echo "--- diagnostics:"; echo "$out"
dbg=$("$RVA" lint --debug cut.s)
echo "--- instructions built from the malformed literals:"
echo "$dbg" | grep -E '^addi a[0-37] <- zero, '
silent=0
for l in 2 5 6 7; do
  echo "$out" | grep -q -E "^Error.* at $l " || silent=$((silent+1))
done
trunc=$(echo "$dbg" | grep -c -E '^(addi a0 <- zero, 1|addi a1 <- zero, 16|addi a2 <- zero, 97|addi a3 <- zero, 3|addi a7 <- zero, 10)$')
echo "lines 2,5,6,7 without any error: $silent of 4; truncated values accepted: $trunc of 5"
echo "$dbg" | grep -q 'VALO.*a7: 10' && echo "the ecall after 'li a7, 10.5' is analysed as exit (a7 = 10)"
if [ "$silent" -gt 0 ] || [ "$trunc" -gt 0 ]; then
  echo "VIOLATION: malformed literals 1.text / 0x10.align / 'a'.data / 7.word silently read as 1 / 16 / 97 / 7; 3.75 and 10.5 enter the analysis as 3 and 10"
  exit 1
fi
echo "no violation"; exit 0
