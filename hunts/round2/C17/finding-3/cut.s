.data
tbl:    .word 7.word 8            # "7.word" is not a literal
.text
main:
    li   a0, 1.text               # "1.text"  is not a literal
    li   a1, 0x10.align 2         # "0x10.align" is not a literal
    li   a2, 'a'.data             # "'a'.data" is not a literal
.text
    li   a3, 3.75                 # fraction: not one of the four notations
    li   a7, 10.5                 # likewise
    ecall
