#!/bin/sh
# Finding 1: a literal with an explicit '+' sign is rejected.
# Exits 1 when the violation is present.
cd "$(dirname "$0")"
RVA=${RVA:-/tmp/wt4-C17/target/debug/rva}
echo "--- same program without the '+' signs (reference):"
"$RVA" lint --compact --no-color noplus.s | grep '^Error' 
ref_nodes=$("$RVA" lint --debug noplus.s | grep -c -E '^(addi t0 <- zero, 5|addi t1 <- t0, 16|lw t2 <- 4\(t0\)|csrrwi zero <- 64 <- 1)$')
echo "reference: $ref_nodes of 4 instructions with the expected immediates"
echo "--- with '+' signs:"
out=$("$RVA" lint --compact --no-color plus.s)
echo "$out" | grep '^Error'
nodes=$("$RVA" lint --debug plus.s | grep -c -E '^(addi t0 <- zero, 5|addi t1 <- t0, 16|lw t2 <- 4\(t0\)|csrrwi zero <- 64 <- 1)$')
nerr=$(echo "$out" | grep -c 'Unexpected token')
echo "with '+': $nodes of 4 instructions parsed, $nerr 'Unexpected token' errors"
if [ "$ref_nodes" -eq 4 ] && { [ "$nodes" -ne 4 ] || [ "$nerr" -gt 0 ]; }; then
  echo "VIOLATION: +5 / +0x10 / +0b101 are not read as 5 / 16 / 5 but rejected"
  exit 1
fi
echo "no violation"
exit 0
