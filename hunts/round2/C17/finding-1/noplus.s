# every '' below is an explicit (optional) sign on a well-formed literal
.data
tbl:    .word 5, 0x10, 0b101
.text
main:
    li   t0, 5
    addi t1, t0, 0x10
    lw   t2, 4(t0)
    csrrwi zero, 0x40, 1
    li   a7, 10
    ecall
