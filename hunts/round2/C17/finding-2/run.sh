#!/bin/sh
# Finding 2: the register name `zero` (any case, optionally with '-') is
# accepted wherever a numeric literal is expected and read as 0.
# Exits 1 when the violation is present.
cd "$(dirname "$0")"
RVA=${RVA:-/tmp/wt4-C17/target/debug/rva}
out=$("$RVA" lint --compact --no-color zero.s)
echo "--- diagnostics:"; echo "$out"
dbg=$("$RVA" lint --debug zero.s)
echo "--- instructions built from the malformed operands:"
echo "$dbg" | grep -E '^(addi t0 <- zero, 0|addi t1 <- t0, 0|lw t2 <- 0\(t0\)|lui t3 <- zero, 0|csrrwi zero <- 64 <- 0|csrrw t4 <- 0 <- t0)$'
n=$(echo "$dbg" | grep -c -E '^(addi t0 <- zero, 0|addi t1 <- t0, 0|lw t2 <- 0\(t0\)|lui t3 <- zero, 0|csrrwi zero <- 64 <- 0|csrrw t4 <- 0 <- t0)$')
perr=$(echo "$out" | grep -c -E 'Expected|Unexpected')
echo "accepted as 0: $n of 6 instruction operands; parse errors: $perr (8 malformed operands in the file)"
if [ "$n" -gt 0 ] || [ "$perr" -lt 8 ]; then
  echo "VIOLATION: 'zero' / '-zero' / 'ZERO' are read as the number 0 instead of being rejected"
  exit 1
fi
echo "no violation"; exit 0
