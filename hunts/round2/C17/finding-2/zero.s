# none of the operands marked (*) is a numeric literal in any notation
.data
tbl:    .word 1, -zero, ZERO, 4      # (*)
        .space -Zero                 # (*)
.text
main:
    li     t0, -zero                 # (*)
    addi   t1, t0, zero              # (*)
    lw     t2, -ZERO(t0)             # (*)
    lui    t3, zero                  # (*)
    csrrwi zero, 0x40, -zero         # (*)
    csrrw  t4, -zero, t0             # (*) CSR number
    li     a7, 10
    ecall
