# clean except line 6: t3 was never assigned.  Service 2 (RARS PrintFloat) is a
# constant number the tool accepts without complaint but has no signature for.
main:
    li a7, 2
    ecall
    addi a0, t3, 1
    li a7, 1
    ecall
    li a7, 10
    ecall
