# control: same as after_call.s with service 11 (in the tool's table) instead of 2
main:
    li a0, 3
    li t1, 4
    jal ra, foo
    li a7, 11
    ecall
    add a0, a0, t1
    li a7, 1
    ecall
    li a7, 10
    ecall
foo:
    addi a0, a0, 1
    ret
