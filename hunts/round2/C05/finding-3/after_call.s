# clean except line 8: t1 is read after the call to foo
main:
    li a0, 3
    li t1, 4
    jal ra, foo
    li a7, 2
    ecall
    add a0, a0, t1
    li a7, 1
    ecall
    li a7, 10
    ecall
foo:
    addi a0, a0, 1
    ret
