#!/bin/bash
# Finding 3: behind an ecall whose (constant) number has no entry in the
# signature table, reads of never-assigned / call-clobbered temporaries vanish.
RVA=${RVA:-/tmp/wt4-C05/target/debug/rva}
cd "$(dirname "$0")"
bad=0
echo "== base_clean.s"; timeout 60 "$RVA" lint base_clean.s --compact --no-color 2>&1
check() { # file line
    out=$(timeout 60 "$RVA" lint "$1" --compact --no-color 2>&1)
    echo "== $1 (offending read on line $2)"; echo "${out:-<no diagnostics>}"
    if ! echo "$out" | grep -E "Invalid use (before assignment|after call)" | grep -Eq " at $2 [0-9]+:[0-9]+"; then
        echo "VIOLATION: no use-before-assignment / use-after-call diagnostic on line $2"
        bad=1
    fi
}
check never_assigned.s 6
check after_call.s 8
echo "== control_known_service.s"; timeout 60 "$RVA" lint control_known_service.s --compact --no-color 2>&1
exit $bad
