# the base program of never_assigned.s: no diagnostics
main:
    li a7, 2
    ecall
    li a0, 1
    li a7, 1
    ecall
    li a7, 10
    ecall
