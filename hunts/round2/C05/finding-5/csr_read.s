# clean except lines 4-6: three pure CSR reads into registers nobody reads
main:
    li a0, 3
    csrr t1, 64
    csrrsi t2, 0x41, 0
    csrrs t3, 66, zero
    li a7, 1
    ecall
    li a7, 10
    ecall
