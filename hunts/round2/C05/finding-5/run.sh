#!/bin/bash
# Finding 5: an assignment nobody reads is not reported when it is made by a CSR read.
RVA=${RVA:-/tmp/wt4-C05/target/debug/rva}
cd "$(dirname "$0")"
out=$(timeout 60 "$RVA" lint csr_read.s --compact --no-color 2>&1)
echo "== csr_read.s"; echo "${out:-<no diagnostics>}"
echo "== control.s (a load into an unread register)"; timeout 60 "$RVA" lint control.s --compact --no-color 2>&1
n=$(echo "$out" | grep -c "Unused value")
if [ "$n" -lt 3 ]; then echo "VIOLATION: $n of 3 dead CSR reads reported"; exit 1; fi
exit 0
