main:
    li a0, 3
    lw t1, -4(sp)
    li a7, 1
    ecall
    li a7, 10
    ecall
