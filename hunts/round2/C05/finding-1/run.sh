#!/bin/bash
# Finding 1: a never-assigned register that is read implicitly (argument of a
# known ecall, argument of a called function) produces no diagnostic at all.
RVA=${RVA:-/tmp/wt4-C05/target/debug/rva}
cd "$(dirname "$0")"
bad=0
for f in ecall_args.s call_arg.s; do
    out=$(timeout 60 "$RVA" lint "$f" --compact --no-color 2>&1)
    echo "== $f"; echo "${out:-<no diagnostics>}"
    if ! echo "$out" | grep -q "Invalid use before assignment"; then
        echo "VIOLATION: no 'Invalid use before assignment' diagnostic for $f"
        bad=1
    fi
done
echo "== control ecall_args_ok.s (explicit read of the same registers)"
timeout 60 "$RVA" lint ecall_args_ok.s --compact --no-color 2>&1
exit $bad
