# clean except: foo reads a5, which nobody ever assigns
main:
    li a0, 3
    jal ra, foo
    li a7, 1
    ecall
    li a7, 10
    ecall
foo:
    add a0, a0, a5
    ret
