# control: the same never-assigned registers read by an ordinary instruction
main:
    li a0, 60
    li a1, 500
    add a0, a2, a3
    li a7, 1
    ecall
    li a7, 10
    ecall
