# clean except: ecall 31 (MidiOut) reads a0..a3, but a2 and a3 are never assigned
main:
    li a0, 60
    li a1, 500
    li a7, 31
    ecall
    li a7, 10
    ecall
