#!/bin/bash
# Finding 6: a stack access that starts below the entry stack pointer but
# reaches bytes at / above it is not reported (the access width is ignored).
RVA=${RVA:-/tmp/wt4-C05/target/debug/rva}
cd "$(dirname "$0")"
out=$(timeout 60 "$RVA" lint straddle.s --compact --no-color 2>&1)
echo "== straddle.s"; echo "${out:-<no diagnostics>}"
echo "== control.s (same accesses two / one byte higher)"; timeout 60 "$RVA" lint control.s --compact --no-color 2>&1
n=$(echo "$out" | grep -c "Invalid stack offset usage")
if [ "$n" -lt 2 ]; then echo "VIOLATION: $n of 2 accesses that touch the entry stack pointer reported"; exit 1; fi
exit 0
