main:
    li a0, 3
    jal ra, foo
    li a7, 1
    ecall
    li a7, 10
    ecall
foo:
    addi sp, sp, -8
    sw a0, 8(sp)
    lh a0, 8(sp)
    addi sp, sp, 8
    ret
