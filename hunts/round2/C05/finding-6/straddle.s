# clean except lines 11-12: a word store at entry_sp-2 (covers entry_sp+0, +1) and a
# halfword load at entry_sp-1 (covers entry_sp+0)
main:
    li a0, 3
    jal ra, foo
    li a7, 1
    ecall
    li a7, 10
    ecall
foo:
    addi sp, sp, -8
    sw a0, 6(sp)
    lh a0, 7(sp)
    addi sp, sp, 8
    ret
