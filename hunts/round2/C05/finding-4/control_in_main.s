# control: the same load in the main program is reported
main:
    li a0, 3
    lw t0, 0(s1)
    add a0, a0, t0
    li a7, 1
    ecall
    li a7, 10
    ecall
