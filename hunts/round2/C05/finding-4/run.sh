#!/bin/bash
# Finding 4: inside a function, a never-assigned saved register used as the
# base address of a load/store is not reported.
RVA=${RVA:-/tmp/wt4-C05/target/debug/rva}
cd "$(dirname "$0")"
bad=0
out=$(timeout 60 "$RVA" lint base_address.s --compact --no-color 2>&1)
echo "== base_address.s (offending read: s1 on line 11)"; echo "${out:-<no diagnostics>}"
if ! echo "$out" | grep "Invalid use before assignment" | grep -Eq " at 11 "; then
    echo "VIOLATION: the read of s1 on line 11 is not reported"; bad=1
fi
for f in control_via_mv.s control_in_main.s; do echo "== $f"; timeout 60 "$RVA" lint $f --compact --no-color 2>&1; done
exit $bad
