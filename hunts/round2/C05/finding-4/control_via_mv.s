# control: the same read through a copy is reported
main:
    li a0, 3
    jal ra, foo
    li a7, 1
    ecall
    li a7, 10
    ecall
foo:
    addi a0, a0, 1
    mv t1, s1
    lw t0, 0(t1)
    add a0, a0, t0
    ret
