# clean except line 11: s1 is never assigned (anywhere) and used as an address
main:
    li a0, 3
    jal ra, foo
    li a7, 1
    ecall
    li a7, 10
    ecall
foo:
    addi a0, a0, 1
    lw t0, 0(s1)
    add a0, a0, t0
    ret
