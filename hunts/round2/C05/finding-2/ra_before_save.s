# clean except line 12: ra is modified before it is saved, so the value that is
# saved and faithfully restored is not the value at entry
main:
    li a0, 3
    jal ra, foo
    li a7, 1
    ecall
    li a7, 10
    ecall
foo:
    addi sp, sp, -8
    addi ra, ra, 4
    sw ra, 0(sp)
    sw s0, 4(sp)
    mv s0, a0
    jal ra, bar
    add a0, a0, s0
    lw ra, 0(sp)
    lw s0, 4(sp)
    addi sp, sp, 8
    ret
bar:
    addi a0, a0, 1
    ret
