# clean except line 16: sp is lowered by 16 and never raised again
main:
    li a0, 3
    jal ra, foo
    li a7, 1
    ecall
    li a7, 10
    ecall
foo:
    addi sp, sp, -8
    sw ra, 0(sp)
    sw s0, 4(sp)
    mv s0, a0
    jal ra, bar
    add a0, a0, s0
    addi sp, sp, -16
    lw ra, 16(sp)
    lw s0, 20(sp)
    addi sp, sp, 8
    ret
bar:
    addi a0, a0, 1
    ret
