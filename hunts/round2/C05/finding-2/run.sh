#!/bin/bash
# Finding 2: an unrestored modification of ra / sp inside a function that has a
# prologue and epilogue is blamed on the (correct) restoring instruction, never
# on the offending one.
RVA=${RVA:-/tmp/wt4-C05/target/debug/rva}
cd "$(dirname "$0")"
bad=0
check() { # file offending-line
    out=$(timeout 60 "$RVA" lint "$1" --compact --no-color 2>&1)
    echo "== $1 (offending instruction on line $2)"; echo "${out:-<no diagnostics>}"
    if ! echo "$out" | grep -Eq " at $2 [0-9]+:[0-9]+"; then
        echo "VIOLATION: no diagnostic is located on line $2"
        bad=1
    fi
}
check ra_before_save.s 12
check sp_in_frame.s 16
exit $bad
