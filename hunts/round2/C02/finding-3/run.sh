#!/bin/sh
# Exits 1 when the violation is present: registers read by a function that is
# entered by fall-through are not live in front of its entry.
cd "$(dirname "$0")" || exit 2
RVA=${RVA:-/tmp/wt4-C02/target/debug/rva}
[ -x "$RVA" ] || { echo "rva binary not found: $RVA"; exit 2; }
rc=0
out=$(timeout 60 "$RVA" lint fallthrough.s --no-color --compact 2>&1)
echo "--- rva lint fallthrough.s"; echo "$out"
if echo "$out" | grep -q "Unused value in .*fallthrough.s at 16 "; then
    echo "VIOLATION: 'li a1, 10' (line 16) is called unused, but the next instruction executed ('add a0, a0, a1', by fall-through into add) reads a1"; rc=1
fi
if echo "$out" | grep -q "Unused value in .*fallthrough.s at 4 "; then
    echo "VIOLATION: 'li a0, 1' (line 4) is called unused, but add_default passes a0 on to 'add a0, a0, a1': a0 is missing from the inferred arguments of add_default"; rc=1
fi
live=$(timeout 60 "$RVA" lint fallthrough.s --no-color --debug 2>/dev/null | grep -A1 "^jal \[add_default\]" | grep LIVI)
echo "--- live-in of 'jal add_default': $live   (expected to contain a0)"
echo "--- control (explicit 'j add' instead of the fall-through):"
timeout 60 "$RVA" lint jump.s --no-color --compact 2>&1
exit $rc
