# add_default(x) = add(x, 10): sets the default second argument and falls
# through into add(x, y).  Both are called from main.
main:
    li   a0, 1
    jal  add_default        # a0 = 1 + 10
    li   a7, 1
    ecall                   # print 11
    li   a0, 1
    li   a1, 2
    jal  add                # a0 = 1 + 2
    li   a7, 1
    ecall                   # print 3
    li   a7, 10
    ecall
add_default:
    li   a1, 10
add:
    add  a0, a0, a1
    ret
