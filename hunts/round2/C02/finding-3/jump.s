# Control: the same program, but add_default enters add with an explicit jump.
main:
    li   a0, 1
    jal  add_default        # a0 = 1 + 10
    li   a7, 1
    ecall                   # print 11
    li   a0, 1
    li   a1, 2
    jal  add                # a0 = 1 + 2
    li   a7, 1
    ecall                   # print 3
    li   a7, 10
    ecall
add_default:
    li   a1, 10
    j    add
add:
    add  a0, a0, a1
    ret
