#!/bin/sh
# Exits 1 when the violation is present: a user function that is called
# `__return__` makes every redirected return of another function a "call" of it.
cd "$(dirname "$0")" || exit 2
RVA=${RVA:-/tmp/wt4-C02/target/debug/rva}
[ -x "$RVA" ] || { echo "rva binary not found: $RVA"; exit 2; }
rc=0
dump() { timeout 60 "$RVA" lint "$1" --no-color --debug 2>/dev/null | grep -v "VALO\|STCK\|UDEF\|NEXT" | grep -v "^$" | paste - - - - ; }
callsite=$(dump return_label.s | grep "^jal \[f\]" | cut -f2)
control=$(dump control.s | grep "^jal \[f\]" | cut -f2)
echo "live-in of 'jal f', function named __return__ : $callsite"
echo "live-in of 'jal f', same program, function named show: $control"
case "$callsite" in *a2*) echo "VIOLATION: a2 is live in front of 'jal f' (inferred argument of f) although f never reads a2"; rc=1;; esac
w1=$(timeout 60 "$RVA" lint return_label.s --no-color --compact 2>&1 | grep -c "Unused value in .* at 4 ")
w2=$(timeout 60 "$RVA" lint control.s --no-color --compact 2>&1 | grep -c "Unused value in .* at 4 ")
echo "'li a2, 9' (line 4) reported unused: with __return__: $w1, with show: $w2"
[ "$w1" != "$w2" ] && { echo "VIOLATION: the result of the analysis depends on the name of a function"; rc=1; }
exit $rc
