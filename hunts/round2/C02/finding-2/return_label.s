# A program that happens to call one of its functions `__return__`.
# f has two returns; f never touches a2.
main:
    li   a2, 9              # never read on any path: f ignores a2, and the
    li   a0, 1              # next assignment to a2 comes before any read
    jal  f
    li   a2, 7
    jal  __return__
    li   a7, 10
    ecall
f:
    beqz a0, f2
    ret
f2:
    li   a0, 3
    ret
__return__:
    mv   a0, a2
    li   a7, 1
    ecall
    ret
