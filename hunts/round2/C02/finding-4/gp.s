# main sets up the global pointer, a function uses it (the normal use of gp:
# it is neither caller- nor callee-saved, it is set once and read everywhere).
.data
val: .word 42
.text
main:
    la   gp, val
    jal  f
    li   a7, 1
    ecall                   # prints 42
    li   a7, 10
    ecall
f:
    lw   a0, 0(gp)
    ret
