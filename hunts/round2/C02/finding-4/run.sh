#!/bin/sh
# Exits 1 when the violation is present: a register that survives calls and is
# read by the callee (gp, tp) is not live in front of the call.
cd "$(dirname "$0")" || exit 2
RVA=${RVA:-/tmp/wt4-C02/target/debug/rva}
[ -x "$RVA" ] || { echo "rva binary not found: $RVA"; exit 2; }
rc=0
for r in gp tp; do
    out=$(timeout 60 "$RVA" lint $r.s --no-color --compact 2>&1)
    echo "--- rva lint $r.s"; echo "$out"
    if echo "$out" | grep -q "Unused value in .*$r.s at 7 "; then
        echo "VIOLATION: 'la $r, val' (line 7) is called unused, but f reads $r in 'lw a0, 0($r)'"; rc=1
    fi
    live=$(timeout 60 "$RVA" lint $r.s --no-color --debug 2>/dev/null | grep -A1 "^jal \[f\]" | grep LIVI)
    echo "live-in of 'jal f': $live   (expected to contain $r)"
done
exit $rc
