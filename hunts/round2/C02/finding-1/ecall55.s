# RARS MessageDialog (a7 = 55): a0 = address of the message, a1 = message type
# (0 error, 1 information, 2 warning, 3 question, other: plain)
.data
msg: .asciz "hello"
.text
main:
    la   a0, msg
    li   a1, 1          # information message - read by the ecall
    li   a7, 55
    ecall
    li   a7, 10
    ecall
