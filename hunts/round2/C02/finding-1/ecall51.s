# RARS InputDialogInt (a7 = 51): a0 = address of the prompt; result in a0, status in a1
.data
msg: .asciz "number?"
.text
main:
    la   a0, msg        # read by the ecall
    li   a7, 51
    ecall
    li   a7, 1
    ecall               # print the number that was read
    li   a7, 10
    ecall
