#!/bin/sh
# Exits 1 when the violation is present: the argument register a1 of the
# MessageDialog environment call (a7 = 55) is not live in front of the ecall,
# so the assignment that sets it is reported as an unused value.
cd "$(dirname "$0")" || exit 2
RVA=${RVA:-/tmp/wt4-C02/target/debug/rva}
[ -x "$RVA" ] || { echo "rva binary not found: $RVA"; exit 2; }
rc=0
out=$(timeout 60 "$RVA" lint ecall55.s --no-color --compact 2>&1)
echo "--- rva lint ecall55.s"; echo "$out"
if echo "$out" | grep -q "Unused value in .*ecall55.s at 8 "; then
    echo "VIOLATION: 'li a1, 1' (line 8) is called unused although ecall 55 (MessageDialog) reads a1"
    rc=1
fi
live=$(timeout 60 "$RVA" lint ecall55.s --no-color --debug 2>/dev/null | grep -A1 "^ecall" | grep LIVI | head -1)
echo "--- live-in of the ecall 55: $live"
case "$live" in *a1*) ;; *) echo "VIOLATION: a1 is not in the live-in set of ecall 55"; rc=1;; esac
# secondary variant: InputDialogInt (51) has a statically known number (no
# 'Unknown ecall' is reported) but no signature at all, so its argument a0 is lost
out=$(timeout 60 "$RVA" lint ecall51.s --no-color --compact 2>&1)
echo "--- rva lint ecall51.s"; echo "$out"
if echo "$out" | grep -q "Unused value in .*ecall51.s at 6 "; then
    echo "VARIANT (informational, does not change the exit code): 'la a0, msg' (line 6) is called unused although ecall 51 (InputDialogInt) reads a0"
fi
exit $rc
