#!/bin/sh
# C13 / "added comments": comments inside a data list that continues on the
# following lines change the set of diagnostics.
cd "$(dirname "$0")" || exit 2
RVA=${RVA:-/tmp/wt4-C13/target/debug/rva}
if [ ! -x "$RVA" ]; then
    (cd /tmp/wt4-C13 && cargo build --workspace --offline >/dev/null 2>&1)
fi
[ -x "$RVA" ] || { echo "rva binary not found"; exit 2; }

norm() { # kind of each diagnostic, file name and position removed
    timeout 60 "$RVA" lint "$1" --compact 2>&1 | sed -e 's/ in \/.* at [0-9]* [0-9]*:[0-9]*$//' | sort
}
status=0
base=$(norm base.s)
echo "base.s (no comments):            [$(echo "$base" | tr '\n' ';')]"
for f in commented_trailing.s commented_line.s; do
    out=$(norm "$f")
    echo "$f: [$(echo "$out" | tr '\n' ';')]"
    timeout 60 "$RVA" lint "$f" --compact 2>&1 | sed 's/^/    /'
    if [ "$out" != "$base" ]; then
        echo "VIOLATION: $f differs from base.s only by comments, but the diagnostics differ"
        status=1
    fi
done
[ $status -eq 0 ] && echo "no violation observed"
exit $status
