.data
arr: .word 1     # first element
     2           # second element
     3           # third element
.text
main:
    la t0, arr
    lw a0, 4(t0)
    li a7, 1
    ecall
    li a7, 10
    ecall
