.data
arr: .word 1
     2
     3
.text
main:
    la t0, arr
    lw a0, 4(t0)
    li a7, 1
    ecall
    li a7, 10
    ecall
