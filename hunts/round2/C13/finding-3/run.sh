#!/bin/sh
# C13 / "different spacing, tabs": white space between a label name and its
# colon (`main :`, `foo<TAB>:`) - accepted by RARS and GNU as - makes the label
# definition a parse error.
cd "$(dirname "$0")" || exit 2
RVA=${RVA:-/tmp/wt4-C13/target/debug/rva}
if [ ! -x "$RVA" ]; then
    (cd /tmp/wt4-C13 && cargo build --workspace --offline >/dev/null 2>&1)
fi
[ -x "$RVA" ] || { echo "rva binary not found"; exit 2; }

norm() { # kind and line of each diagnostic
    timeout 60 "$RVA" lint "$1" --compact 2>&1 | sed -e 's/ in \/.* at \([0-9]*\) [0-9]*:[0-9]*$/ @line \1/' | sort
}
a=$(norm tight.s); b=$(norm spaced.s)
echo "tight.s  (main: / foo:):       [$(echo "$a" | tr '\n' ';')]"
echo "spaced.s (main : / foo<TAB>:): [$(echo "$b" | tr '\n' ';')]"
if [ "$a" != "$b" ]; then
    echo "VIOLATION: the files differ only in white space before ':', but the diagnostics differ"
    exit 1
fi
echo "no violation observed"
exit 0
