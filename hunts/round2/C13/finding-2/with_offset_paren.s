main:
    li a0, 1
    jal ra, foo
    li a7, 10
    ecall
foo:
    add a0, a0, t1
    jalr zero, 0(ra)
