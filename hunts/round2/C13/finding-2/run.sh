#!/bin/sh
# C13 / "omitted zero offsets": `jalr rd, rs` (offset 0 left out) is rejected,
# while `jalr rd, rs, 0`, `jalr rd, 0(rs)` and `jalr rd, (rs)` are accepted.
cd "$(dirname "$0")" || exit 2
RVA=${RVA:-/tmp/wt4-C13/target/debug/rva}
if [ ! -x "$RVA" ]; then
    (cd /tmp/wt4-C13 && cargo build --workspace --offline >/dev/null 2>&1)
fi
[ -x "$RVA" ] || { echo "rva binary not found"; exit 2; }

norm() { # kind and line of each diagnostic
    timeout 60 "$RVA" lint "$1" --compact 2>&1 | sed -e 's/ in \/.* at \([0-9]*\) [0-9]*:[0-9]*$/ @line \1/' | sort
}
status=0
base=$(norm with_offset.s)
echo "with_offset.s (jalr zero, ra, 0): [$(echo "$base" | tr '\n' ';')]"
for f in with_offset_paren.s omitted_paren.s omitted.s; do
    out=$(norm "$f")
    echo "$f ($(sed -n 8p "$f" | sed 's/^ *//')): [$(echo "$out" | tr '\n' ';')]"
    if [ "$out" != "$base" ]; then
        echo "VIOLATION: $f only spells the return differently, but the diagnostics differ"
        status=1
    fi
done
[ $status -eq 0 ] && echo "no violation observed"
exit $status
