# same function with a constant frame: clean
.text
main:
    li a0, 3
    jal f
    li a7, 1
    ecall
    li a7, 10
    ecall
f:
    addi sp, sp, -8
    sw ra, 4(sp)
    sw s0, 0(sp)
    addi s0, sp, 8
    addi sp, sp, -64
    sw a0, 0(sp)
    lw a0, 0(sp)
    addi sp, s0, -8
    lw s0, 0(sp)
    lw ra, 4(sp)
    addi sp, sp, 8
    ret
