# the frame has one of two constant sizes, chosen by a branch; the paths join and the frame is
# released through the frame pointer. On every path sp is a known distance below the entry sp.
.text
main:
    li a0, 3
    jal f
    li a7, 1
    ecall
    li a7, 10
    ecall
f:
    addi sp, sp, -8
    sw ra, 4(sp)
    sw s0, 0(sp)
    addi s0, sp, 8
    beqz a0, small
    addi sp, sp, -64
    sw a0, 0(sp)
    j join
small:
    addi sp, sp, -16
    sw a0, 0(sp)
join:
    lw t0, 0(sp)
    add a0, a0, t0
    addi sp, s0, -8
    lw s0, 0(sp)
    lw ra, 4(sp)
    addi sp, sp, 8
    ret
