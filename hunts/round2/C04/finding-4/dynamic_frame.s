# f allocates a0+1 words on the stack (variable-size frame), addresses the frame through the
# frame pointer s0 and releases everything through it; ra, s0 and sp are restored from the
# frame below the entry sp.
.text
main:
    li a0, 3
    jal f
    li a7, 1
    ecall
    li a7, 10
    ecall
f:
    addi sp, sp, -8
    sw ra, 4(sp)
    sw s0, 0(sp)
    addi s0, sp, 8      # frame pointer = entry sp
    addi t0, a0, 1
    slli t0, t0, 2
    sub sp, sp, t0      # a0+1 words (a0 >= 0)
    sw a0, 0(sp)
    lw a0, 0(sp)
    addi sp, s0, -8     # release the variable part
    lw s0, 0(sp)
    lw ra, 4(sp)
    addi sp, sp, 8
    ret
