#!/bin/bash
# exits 1 when one of the conforming programs is reported with a diagnostic
cd "$(dirname "$0")"
RVA=${RVA:-/tmp/wt4-C04/target/debug/rva}
rc=0
ctl=$(timeout 60 "$RVA" lint --compact --no-color control.s 2>&1)
echo "control.s (constant frame, released through s0):"; echo "${ctl:-  <no diagnostics>}"
for f in dynamic_frame.s two_sizes.s; do
  out=$(timeout 60 "$RVA" lint --compact --no-color $f 2>&1)
  echo "$f:"; echo "${out:-  <no diagnostics>}"
  if [ -n "$out" ]; then echo "VIOLATION: conforming program $f is not reported clean"; rc=1; fi
done
[ $rc -eq 0 ] && echo "ok: clean"
exit $rc
