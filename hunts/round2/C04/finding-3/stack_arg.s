# sum9 takes nine integer arguments: a0-a7 and, as the RISC-V calling convention
# prescribes, the ninth in the word at the caller's sp at the moment of the call.
.text
main:
    li a0, 1
    li a1, 2
    li a2, 3
    li a3, 4
    li a4, 5
    li a5, 6
    li a6, 7
    li a7, 8
    addi sp, sp, -4     # outgoing argument area
    li t0, 9
    sw t0, 0(sp)        # ninth argument
    jal sum9
    addi sp, sp, 4
    li a7, 1
    ecall
    li a7, 10
    ecall
sum9:
    add a0, a0, a1
    add a0, a0, a2
    add a0, a0, a3
    add a0, a0, a4
    add a0, a0, a5
    add a0, a0, a6
    add a0, a0, a7
    lw t0, 0(sp)        # ninth argument: at the entry sp
    add a0, a0, t0
    ret
