#!/bin/bash
# exits 1 when the conforming program stack_arg.s is reported with a diagnostic
cd "$(dirname "$0")"
RVA=${RVA:-/tmp/wt4-C04/target/debug/rva}
out=$(timeout 60 "$RVA" lint --compact --no-color stack_arg.s 2>&1)
echo "stack_arg.s:"; echo "${out:-  <no diagnostics>}"
if [ -n "$out" ]; then echo "VIOLATION: conforming program is not reported clean"; exit 1; fi
echo "ok: clean"; exit 0
