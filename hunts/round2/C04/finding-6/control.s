# the neighbouring service 59 (MessageDialogString: a0, a1 = two strings): clean
.data
msg: .asciz "done"
.text
main:
    la a0, msg
    la a1, msg
    li a7, 59
    ecall
    li a7, 10
    ecall
