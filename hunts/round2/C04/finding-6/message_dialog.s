# RARS service 55 (MessageDialog): a0 = address of the message, a1 = kind of message
# (0 error, 1 information, 2 warning, 3 question). The program passes exactly these two.
.data
msg: .asciz "done"
.text
main:
    la a0, msg
    li a1, 1
    li a7, 55
    ecall
    li a7, 10
    ecall
