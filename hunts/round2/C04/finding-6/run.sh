#!/bin/bash
# exits 1 when the conforming program message_dialog.s is reported with a diagnostic
cd "$(dirname "$0")"
RVA=${RVA:-/tmp/wt4-C04/target/debug/rva}
ctl=$(timeout 60 "$RVA" lint --compact --no-color control.s 2>&1)
out=$(timeout 60 "$RVA" lint --compact --no-color message_dialog.s 2>&1)
echo "control.s (ecall 59, a0 and a1):"; echo "${ctl:-  <no diagnostics>}"
echo "message_dialog.s (ecall 55, a0 and a1):"; echo "${out:-  <no diagnostics>}"
if [ -n "$out" ]; then echo "VIOLATION: conforming program is not reported clean"; exit 1; fi
echo "ok: clean"; exit 0
