#!/bin/bash
# exits 1 when the conforming program restore_sp.s is reported with a diagnostic
cd "$(dirname "$0")"
RVA=${RVA:-/tmp/wt4-C04/target/debug/rva}
ctl=$(timeout 60 "$RVA" lint --compact --no-color control.s 2>&1)
out=$(timeout 60 "$RVA" lint --compact --no-color restore_sp.s 2>&1)
echo "control.s (sp released with addi):"; echo "${ctl:-  <no diagnostics>}"
echo "restore_sp.s (sp reloaded from the frame):"; echo "${out:-  <no diagnostics>}"
if [ -n "$out" ]; then echo "VIOLATION: conforming program is not reported clean"; exit 1; fi
echo "ok: clean"; exit 0
