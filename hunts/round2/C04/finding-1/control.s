# the same function, sp released with addi: reported clean
.text
main:
    li a0, 3
    jal f
    li a7, 1
    ecall
    li a7, 10
    ecall
f:
    sw sp, -4(sp)
    sw ra, -8(sp)
    addi sp, sp, -16
    sw a0, 0(sp)
    jal g
    lw t0, 0(sp)
    add a0, a0, t0
    lw ra, 8(sp)
    addi sp, sp, 16
    ret
g:
    addi a0, a0, 1
    ret
