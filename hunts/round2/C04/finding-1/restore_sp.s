# f keeps the caller's sp in its own frame (below the entry sp) and
# restores it from there - "sp ... restored from its own stack frame".
.text
main:
    li a0, 3
    jal f
    li a7, 1
    ecall
    li a7, 10
    ecall
f:
    sw sp, -4(sp)       # entry sp -> [entry-4]
    sw ra, -8(sp)       # ra       -> [entry-8]
    addi sp, sp, -16    # frame of 16 bytes
    sw a0, 0(sp)        # a local
    jal g
    lw t0, 0(sp)
    add a0, a0, t0
    lw ra, 8(sp)        # [entry-8]
    lw sp, 12(sp)       # [entry-4] : address is formed with the OLD sp (entry-16)
    ret
g:
    addi a0, a0, 1
    ret
