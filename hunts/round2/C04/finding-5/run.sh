#!/bin/bash
# exits 1 when the conforming program own_stack.s is reported with a diagnostic
cd "$(dirname "$0")"
RVA=${RVA:-/tmp/wt4-C04/target/debug/rva}
ctl=$(timeout 60 "$RVA" lint --compact --no-color control.s 2>&1)
out=$(timeout 60 "$RVA" lint --compact --no-color own_stack.s 2>&1)
echo "control.s (environment's stack):"; echo "${ctl:-  <no diagnostics>}"
echo "own_stack.s (la sp, stack_top first):"; echo "${out:-  <no diagnostics>}"
if [ -n "$out" ]; then echo "VIOLATION: conforming program is not reported clean"; exit 1; fi
echo "ok: clean"; exit 0
