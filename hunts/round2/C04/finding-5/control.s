# the same program on the stack the environment provides: clean
.text
main:
    li a0, 3
    jal f
    li a7, 1
    ecall
    li a7, 10
    ecall
f:
    addi sp, sp, -8
    sw ra, 0(sp)
    sw s0, 4(sp)
    mv s0, a0
    jal g
    add a0, a0, s0
    lw s0, 4(sp)
    lw ra, 0(sp)
    addi sp, sp, 8
    ret
g:
    addi a0, a0, 1
    ret
