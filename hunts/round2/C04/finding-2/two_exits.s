# exit (10) or exit2 (93) chosen on two paths, one shared ecall, last instruction of the text
.text
main:
    li a7, 5
    ecall
    beqz a0, ok
    li a0, 1
    li a7, 93
    j done
ok:
    li a7, 10
done:
    ecall
