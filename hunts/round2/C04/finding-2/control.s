# same program, the ecall duplicated on both paths: clean
.text
main:
    li a7, 5
    ecall
    mv s0, a0
    bltz s0, hex
    mv a0, s0
    li a7, 1
    ecall
    j done
hex:
    mv a0, s0
    li a7, 34
    ecall
done:
    li a7, 10
    ecall
