# prints the number read in decimal (ecall 1) or in hex (ecall 34): the ecall number is
# chosen on two paths that share one ecall instruction. Both numbers are known, both
# services read a0 only.
.text
main:
    li a7, 5
    ecall               # read int -> a0
    mv s0, a0
    bltz s0, hex
    li a7, 1            # print int
    j print
hex:
    li a7, 34           # print int hex
print:
    mv a0, s0
    ecall
    li a7, 10
    ecall
