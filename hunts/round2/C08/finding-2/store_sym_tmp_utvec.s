main:
    li   t0, 1
    sw   t0, handler, t1
    csrw t1, utvec
    li   a7, 10
    ecall
handler:
    csrr t2, ucause
    uret
