main:
    li   a0, 7
    sw   a0, 1, a7
    ecall
    li   a7, 10
    ecall
