#!/bin/sh
# Finding 2: `sw rs, symbol, rt` (and the RARS form `sw rs, imm, rt`) is expanded to
# `la rt, symbol ; sw rs, 0(rt)` (resp. `addi rt, x0, imm ; sw rs, 0(rt)`), which leaves
# a different value in rt than the official expansion
# `auipc rt, %pcrel_hi(symbol) ; sw rs, %pcrel_lo(symbol)(rt)` (resp. `lui rt, hi ; sw rs, lo(rt)`).
# Exits non-zero when the violation is present.
DIR=$(cd "$(dirname "$0")" && pwd)
RVA=/tmp/wt4-C08/target/debug/rva
[ -x "$RVA" ] || (cd /tmp/wt4-C08 && cargo build --workspace --offline >/dev/null 2>&1)
bad=0

D1=$(timeout 60 "$RVA" lint "$DIR/store_sym_tmp.s" --debug --no-color 2>&1)
echo "== sw t0, buf, t1 ; lw t2, 0(t1) =="
printf '%s\n' "$D1" | grep -A3 -E '^(la t1|sw t0|lw t2)' | grep -E '^(la|sw|lw)|VALO'
if printf '%s\n' "$D1" | grep -A3 '^sw t0 -> 0(t1)' | grep -q 't1: buf'; then
  echo "VIOLATION: after 'sw t0, buf, t1' the analyzer claims t1 == &buf (official expansion leaves t1 = pc + %pcrel_hi(buf))"
  bad=1
fi
if printf '%s\n' "$D1" | grep -A3 '^lw t2 <- 0(t1)' | grep -q 't2: 0(buf)'; then
  echo "VIOLATION: the following 'lw t2, 0(t1)' is claimed to load the word at buf"
  bad=1
fi

D2=$(timeout 60 "$RVA" lint "$DIR/store_imm_tmp.s" --debug --no-color 2>&1)
echo "== sw a0, 1, a7 ; ecall =="
printf '%s\n' "$D2" | grep -A3 -E '^(addi a7 <- zero, 1$|sw a0)' | grep -E '^(addi|sw)|VALO'
if printf '%s\n' "$D2" | grep -A3 '^sw a0 -> 0(a7)' | grep -q 'a7: 1,'; then
  echo "VIOLATION: after 'sw a0, 1, a7' the analyzer claims a7 == 1 (RARS expansion 'lui a7, 0 ; sw a0, 1(a7)' leaves a7 == 0); the ecall that follows is taken for PrintInt"
  bad=1
fi
R2=$(timeout 60 "$RVA" lint "$DIR/store_imm_tmp.s" --no-color 2>&1)
echo "lint output for store_imm_tmp.s: [$R2]"
[ $bad -eq 0 ] && echo "no violation observed"
exit $bad
