.data
buf:    .word 0
.text
main:
    li   t0, 1
    sw   t0, buf, t1
    lw   t2, 0(t1)
    mv   a0, t2
    li   a7, 1
    ecall
    li   a7, 10
    ecall
