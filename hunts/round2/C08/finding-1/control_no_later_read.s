main:
    jal  ra, g
    li   a7, 1
    ecall
    li   a7, 10
    ecall
g:
    addi sp, sp, -4
    sw   ra, 0(sp)
    li   ra, 5
    jal  ra, f
    li   a0, 3
    lw   ra, 0(sp)
    addi sp, sp, 4
    ret
f:
    ret
