#!/bin/sh
# Finding 1: a call `jal ra, f` is not said to write ra (its kill set lacks ra),
# so ra stays live across the call and a dead store to ra in front of it is missed.
# Exits non-zero when the violation is present.
DIR=$(cd "$(dirname "$0")" && pwd)
RVA=/tmp/wt4-C08/target/debug/rva
[ -x "$RVA" ] || (cd /tmp/wt4-C08 && cargo build --workspace --offline >/dev/null 2>&1)

DUMP=$(timeout 60 "$RVA" lint "$DIR/dead_ra.s" --debug --no-color 2>&1)
# live-in set of the call node `jal ra, f`
LIVI=$(printf '%s\n' "$DUMP" | grep -A1 '^jal \[f\] | ra <- PC' | grep 'LIVI')
echo "live-in of 'jal ra, f' : $LIVI"
REPORT=$(timeout 60 "$RVA" lint "$DIR/dead_ra.s" --no-color 2>&1)
echo "--- lint output ---"; printf '%s\n' "$REPORT"; echo "-------------------"

bad=0
case "$LIVI" in
  *"[ra,"*|*" ra,"*|*" ra]"*) echo "VIOLATION: ra is live INTO 'jal ra, f' although jal only writes ra (never reads it)"; bad=1;;
esac
if ! printf '%s\n' "$REPORT" | grep -q 'li   ra, 5'; then
  echo "VIOLATION: dead store 'li ra, 5' (overwritten by 'jal ra, f' before any read) is not reported"
  bad=1
fi
[ $bad -eq 0 ] && echo "no violation observed"
exit $bad
