#!/bin/bash
# Finding 5: the sharing of fn_a and fn_b starts once (at fn_b) but is reported
# twice: the rewritten return of fn_a became a predecessor of the shared exit.
cd "$(dirname "$0")"
RVA=/tmp/wt4-C11/target/debug/rva
out=$(timeout 60 $RVA lint shared_exit.s --compact --no-color 2>&1 | grep "Node in many functions")
ctl=$(timeout 60 $RVA lint control.s --compact --no-color 2>&1 | grep "Node in many functions")
echo "reports for shared_exit.s:"; echo "$out"
echo "reports for control.s (first return written as 'j fn_b'):"; echo "$ctl"
n=$(echo "$out" | grep -c .)
if [ "$n" -ne 1 ] && echo "$out" | grep -q " at 11 "; then
    echo "VIOLATION: $n reports; the one on the 'ret' (line 11) marks no place where sharing begins"
    exit 1
fi
exit 0
