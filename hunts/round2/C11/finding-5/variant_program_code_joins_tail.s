main:
    jal fn_a
    jal fn_b
    beq a0, zero, mid
    li a7, 10
    ecall
fn_a:
    addi a0, a0, 1
fn_b:
    addi a0, a0, 2
mid:
    addi a0, a0, 3
    ret
