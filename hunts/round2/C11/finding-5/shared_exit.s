main:
    jal fn_a
    jal fn_b
    li a7, 10
    ecall
fn_a:
    beq a0, zero, fn_b
    ret
fn_b:
    addi a0, a0, 2
    ret
