#!/bin/bash
# Finding 1: a data label is carried across the data it names and becomes a
# name of the function that starts in the next .text part.
cd "$(dirname "$0")"
RVA=/tmp/wt4-C11/target/debug/rva
bad=0

# (a) `buf` is a data label nobody calls; it is listed as a name of function f
out=$(timeout 60 $RVA lint uncalled_data_label.s --debug --no-color 2>&1)
fn=$(echo "$out" | grep '| FN   |' | grep -v 'N/A' | sort -u)
echo "(a) owning function names in uncalled_data_label.s:"; echo "$fn"
if echo "$fn" | grep -qw buf; then
    echo "    VIOLATION: data label 'buf' is a function name although no call names it"; bad=1
fi

# (b) `jal buf` - buf heads a .word, not an instruction - is accepted as a call of f
out=$(timeout 60 $RVA lint call_data_label.s --compact --no-color 2>&1)
echo "(b) diagnostics for call_data_label.s:"; echo "$out"
ctl=$(timeout 60 $RVA lint control_label_at_end.s --compact --no-color 2>&1)
echo "    control (same label, data at the end of the program):"; echo "$ctl"
if ! echo "$out" | grep -q "Label without instruction" && echo "$ctl" | grep -q "Label without instruction"; then
    echo "    VIOLATION: a call to a data label is taken as a call of the function behind the data"; bad=1
fi

# (c) the usual layout (.data first) + vector register pointing at a data label:
#     the first instruction of main becomes an interrupt handler entry
out=$(timeout 60 $RVA lint vector_data_label.s --compact --no-color 2>&1)
echo "(c) diagnostics for vector_data_label.s:"; echo "$out"
if echo "$out" | grep -q "Function without return"; then
    echo "    VIOLATION: main's first instruction became the entry of a function named by the data label 'vt'"; bad=1
fi
exit $bad
