.text
main:
    j buf
.data
buf: .word 0
.text
f:
    li a7, 10
    ecall
