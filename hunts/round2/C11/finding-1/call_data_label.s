.text
main:
    jal buf
    li a7, 10
    ecall
.data
buf: .word 0
.text
f:
    addi a0, zero, 1
    ret
