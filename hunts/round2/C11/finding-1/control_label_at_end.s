.text
main:
    jal buf
    li a7, 10
    ecall
f:
    addi a0, zero, 1
    ret
.data
buf: .word 0
