.data
vt: .word 0
.text
main:
    la t0, vt
    csrrw zero, 5, t0
    li a7, 10
    ecall
