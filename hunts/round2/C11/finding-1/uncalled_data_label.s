.text
main:
    jal f
    li a7, 10
    ecall
.data
buf: .word 0
.text
f:
    la t0, buf
    lw a0, 0(t0)
    ret
