main:
    la t0, handler
    beq a0, zero, install
    li a7, 10
    ecall
    la t0, other
install:
    csrrw zero, 5, t0
    li a7, 10
    ecall
handler:
    addi t1, t1, 1
    uret
other:
    uret
