#!/bin/bash
# Finding 2: the names of interrupt handlers are collected on a graph that still
# contains the edges out of unreachable code; the final graph does not.
cd "$(dirname "$0")"
RVA=/tmp/wt4-C11/target/debug/rva
out=$(timeout 60 $RVA lint handler_dead_join.s --debug --no-color 2>&1)
echo "value in front of / behind the csrrw in the final graph:"
echo "$out" | grep -A3 '^csrrw' | grep VALO
echo "function entries in the final graph:"
echo "$out" | grep -c 'FUNCTION ENTRY'
echo "$out" | grep -B0 -A0 'Unreachable' | sort | uniq -c
ctl=$(timeout 60 $RVA lint control.s --debug --no-color 2>&1)
echo "control (dead line removed): function entries = $(echo "$ctl" | grep -c 'FUNCTION ENTRY')"
if echo "$out" | grep -A3 '^csrrw' | grep VALO | grep -q 't0: handler' \
   && [ "$(echo "$out" | grep -c 'FUNCTION ENTRY')" = 0 ] \
   && [ "$(echo "$ctl" | grep -c 'FUNCTION ENTRY')" = 1 ]; then
    echo "VIOLATION: the analyzer knows that utvec := handler (t0: handler at the csrrw), yet 'handler' is no function; its code is reported unreachable"
    exit 1
fi
exit 0
