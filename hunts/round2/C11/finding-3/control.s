main:
    jal B
    jal C
    mv a1, a0
    li a0, 0
    li a7, 1
    ecall
    li a7, 10
    ecall
B:
    ret
C:
    beq a0, zero, C2
    li a0, 1
    ret
C2:
    li a0, 2
    ret
