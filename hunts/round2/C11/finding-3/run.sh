#!/bin/bash
# Finding 3: function C (an ordinary function with two returns) keeps both of
# them as returns because an enclosing function A also reaches the return of B.
cd "$(dirname "$0")"
RVA=/tmp/wt4-C11/target/debug/rva
count() { # number of real returns (jalr [ra]) owned by function C
    timeout 60 $RVA lint "$1" --debug --no-color 2>&1 | awk '
        /^  \| FN/ { sub(/^  \| FN   \| /, ""); n = split($0, a, / \| /);
                     for (i = 1; i <= n; i++) if (a[i] == "C" && cur == "jalr [ra]") c++; next }
        /^  \|/ || /^$/ { next }
        { cur = $0 }
        END { print c + 0 }'
}
a=$(count inner_two_returns.s); b=$(count control.s)
echo "returns left in function C: with A around it = $a, without A = $b"
timeout 60 $RVA lint inner_two_returns.s --compact --no-color 2>&1 | grep -n "Unused value.* at 20 " && \
    echo "(false 'Unused value' on 'li a0, 2': the second return is not connected to the exit of C)"
if [ "$a" -gt 1 ]; then
    echo "VIOLATION: C has $a returns; the second one does not lead to the exit of C and is no function's exit"
    exit 1
fi
exit 0
