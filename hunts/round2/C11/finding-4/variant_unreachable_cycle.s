main:
    jal f
    li a7, 10
    ecall
f:
    li a7, 10
    j quit
dead:
    li a7, 1
    beq a0, zero, dead
quit:
    ecall
    addi a0, a0, 1
    ret
