#!/bin/bash
# Finding 4: code that became unreachable when an exit ecall was cut still feeds
# the value joins; a later exit ecall is missed and the code behind it stays in
# the function.
cd "$(dirname "$0")"
RVA=/tmp/wt4-C11/target/debug/rva
out=$(timeout 60 $RVA lint exit_behind_dead_join.s --compact --no-color 2>&1)
ctl=$(timeout 60 $RVA lint control.s --compact --no-color 2>&1)
echo "with the unreachable 'li a7, 1' (line 9):"; echo "$out"
echo "without that line:"; echo "$ctl"
dbg=$(timeout 60 $RVA lint exit_behind_dead_join.s --debug --no-color 2>&1)
echo "owner of the ret behind the second exit ecall:"
echo "$dbg" | awk '/^jalr \[ra\]/{f=1} f && /\| FN/{print; exit}'
if echo "$out" | grep -q "Unreachable line of code .* at 9 " \
   && ! echo "$out" | grep -q "Function without return" \
   && echo "$ctl" | grep -q "Function without return"; then
    echo "VIOLATION: an instruction the tool itself calls unreachable decides whether 'addi'/'ret' behind an exit ecall belong to f"
    exit 1
fi
exit 0
