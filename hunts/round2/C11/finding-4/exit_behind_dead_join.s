main:
    jal f
    li a7, 10
    ecall
f:
    li a7, 10
    beq a0, zero, quit
    ecall
    li a7, 1
quit:
    ecall
    addi a0, a0, 1
    ret
