main:
    li a7, 10
    ecall
