#!/bin/bash
# Finding 2 (C19): what `rva lint FILE --yaml` emits is the dump followed, on the
# same stream, by the diagnostics (text or JSON). Unless the run happens to have
# nothing to report in text mode, the emitted output cannot be loaded.
# Exits non-zero when the violation is present.
set -u
cd "$(dirname "$0")"
WT=/tmp/wt4-C19
RVA=$WT/target/debug/rva
export CARGO_TARGET_DIR="${CARGO_TARGET_DIR:-/tmp/hunt2-C19/target}"
[ -x "$RVA" ] || (cd $WT && cargo build --workspace --offline >/dev/null 2>&1)
(cd harness && cargo build --offline >/dev/null 2>&1) || { echo "harness build failed"; exit 99; }
H=$CARGO_TARGET_DIR/debug/c19_f2
T=$(mktemp -d)
bad=0
run() { # name, file, flags...
  local name=$1 file=$2; shift 2
  timeout 60 $RVA lint $file "$@" > $T/$name.out 2> $T/$name.err
  echo "== rva lint $file $*   (stdout: $(wc -l < $T/$name.out) lines, stderr: $(wc -l < $T/$name.err) lines)"
  echo "   last lines of stdout:"; tail -n 4 $T/$name.out | sed 's/^/   | /'
  timeout 60 $H $T/$name.out | sed 's/^/   /'
  return ${PIPESTATUS[0]}
}
# control: with --no-output the same programs give loadable dumps
run ctl1 warn.s --yaml --no-output || { echo "control failed"; bad=90; }
run ctl2 clean.s --yaml || { echo "control failed"; bad=90; }
# a program with one warning (unused value)
run w1 warn.s --yaml || bad=$((bad+1))
run w2 warn.s --yaml --compact --no-color || bad=$((bad+1))
# a program without any diagnostic, machine readable diagnostics requested too
run j1 clean.s --yaml --json || bad=$((bad+1))
rm -rf $T
if [ $bad -gt 0 ]; then echo "VIOLATION: $bad emitted --yaml outputs cannot be loaded"; exit 1; fi
echo "no violation observed"
