#!/bin/bash
# Finding 1 (C19): the structure loaded from a dump never equals the structure
# that was written, and loaded dumps that differ in their instructions / in the
# interrupt-handler flag compare equal. Exits non-zero when the violation is present.
set -u
cd "$(dirname "$0")"
WT=/tmp/wt4-C19
RVA=$WT/target/debug/rva
export CARGO_TARGET_DIR="${CARGO_TARGET_DIR:-/tmp/hunt2-C19/target}"
[ -x "$RVA" ] || (cd $WT && cargo build --workspace --offline >/dev/null 2>&1)
(cd harness && cargo build --offline >/dev/null 2>&1) || { echo "harness build failed"; exit 99; }
H=$CARGO_TARGET_DIR/debug/c19_f1
T=$(mktemp -d)
timeout 60 $RVA lint p1.s --yaml --no-output > $T/p1.yaml
timeout 60 $RVA lint p2.s --yaml --no-output > $T/p2.yaml
timeout 60 $RVA lint handler.s --yaml --no-output > $T/h.yaml
grep -q 'is_interrupt_handler: true' $T/h.yaml || { echo "handler flag missing from the dump (different problem)"; exit 98; }
# take the flag out: "!FuncEntry\n    is_interrupt_handler: true" -> "!FuncEntry {}"
sed -e '/is_interrupt_handler: true/d' -e 's/^\(- node: !FuncEntry\)$/\1 {}/' $T/h.yaml > $T/h_noflag.yaml
echo "--- diff of the emitted dumps of p1.s and p2.s:"
diff $T/p1.yaml $T/p2.yaml
echo "--- diff of the handler dump with and without the flag:"
diff $T/h.yaml $T/h_noflag.yaml
echo "---"
timeout 60 $H p1.s $T/p1.yaml $T/p2.yaml $T/h.yaml $T/h_noflag.yaml
rc=$?
rm -rf $T
exit $rc
