.text
main:
    li t0, 1
    li t1, 2
    beq t0, t1, done
    add a0, t0, t1
done:
    li a7, 10
    ecall
