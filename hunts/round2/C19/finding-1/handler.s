.text
main:
    la t0, handler
    csrrw zero, utvec, t0
    csrrsi zero, ustatus, 1
    li a7, 10
    ecall
handler:
    csrrw t0, uscratch, t0
    sw t1, 0(t0)
    sw t2, -4(t0)
    lw t1, 0(t0)
    lw t2, -4(t0)
    csrrw t0, uscratch, t0
    uret
