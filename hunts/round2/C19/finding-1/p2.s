.text
main:
    li t0, 1
    li t1, 2
    bne t0, t1, done
    add a0, t1, t0
done:
    li a7, 10
    ecall
