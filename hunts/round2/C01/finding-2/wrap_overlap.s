main:
    li t0, 0x7FFFFFFE
    add sp, sp, t0            # sp = sp_i + 0x7FFFFFFE
    li a0, 0x11111111
    sw a0, 0(sp)              # bytes sp_i+0x7FFFFFFE .. sp_i+0x80000001
    addi sp, sp, 2            # sp = sp_i + 0x80000000 (recorded as sp_i - 2147483648)
    li a1, 0x2222
    sh a1, 0(sp)              # bytes sp_i+0x80000000, sp_i+0x80000001: upper half of the word
    addi sp, sp, -2
    lw a7, 0(sp)              # machine: 0x22221111   analyzer: 0x11111111
    ecall
    li a7, 10
    ecall
