#!/bin/bash
# Exits non-zero when the slot sp_i+0x7FFFFFFE is still claimed to hold
# 0x11111111 after `sh` overwrote its upper two bytes (the addresses wrap
# around at sp_i + 2^31, exactly like sp itself does in the analyzer).
cd "$(dirname "$0")"
RVA=${RVA:-/tmp/wt4-C01/target/debug/rva}
dbg=$("$RVA" lint --debug --no-color wrap_overlap.s 2>&1)
bad=0
slot=$(echo "$dbg" | grep -F -A4 'sh a1 -> 0(sp)' | grep STCK)
echo "stack claims behind 'sh a1, 0(sp)': $slot"
if echo "$slot" | grep -q 'sp_i + 2147483646: 286331153'; then
  echo "VIOLATION: slot sp_i+2147483646 still claimed to hold 0x11111111; the machine word is 0x22221111"
  bad=1
fi
reg=$(echo "$dbg" | grep -F -A3 'lw a7 <- 0(sp)' | grep VALO)
echo "register claims behind 'lw a7, 0(sp)': $reg"
if echo "$reg" | grep -q 'a7: 286331153'; then
  echo "VIOLATION: a7 claimed to be 286331153 (0x11111111); the machine loads 0x22221111"
  bad=1
fi
exit $bad
