#!/bin/bash
# Exits non-zero when the temporary register of the three-operand store
# (`sw rs2, label, tmp` / `sw rs2, imm, tmp`) is claimed to hold the full
# address / the full immediate.
cd "$(dirname "$0")"
RVA=${RVA:-/tmp/wt4-C01/target/debug/rva}
dbg=$("$RVA" lint --debug --no-color store_tmp.s 2>&1)
bad=0
c1=$(echo "$dbg" | grep -F -A3 'sw t0 -> 0(t1)' | grep VALO)
echo "claims behind 'sw t0, var, t1': $c1"
if echo "$c1" | grep -q 't1: var'; then
  echo "VIOLATION: t1 claimed to hold the address of var; the machine has pc + %pcrel_hi(var) (auipc), which differs from &var by the low 12 bits"
  bad=1
fi
c2=$(echo "$dbg" | grep -F -A3 'sw t0 -> 0(t2)' | grep VALO)
echo "claims behind 'sw t0, 100000, t2': $c2"
if echo "$c2" | grep -q 't2: 100000'; then
  echo "VIOLATION: t2 claimed to hold 100000; RARS expands to lui t2,0x18 ; sw t0,0x6A0(t2), so t2 = 98304"
  bad=1
fi
c3=$(echo "$dbg" | grep -F -A3 'addi a7 <- t2, -99990' | grep VALO)
if echo "$c3" | grep -q 'a7: 10'; then
  echo "VIOLATION: a7 claimed to be 10 (machine: 98304 - 99990); the ecall behind it is taken for the exit call and its out-edge is cut"
  bad=1
fi
exit $bad
