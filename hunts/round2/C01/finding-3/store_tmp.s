.data
pad: .word 0
var: .word 7
.text
main:
    li t0, 3
    sw t0, var, t1            # auipc t1, %pcrel_hi(var) ; sw t0, %pcrel_lo(..)(t1)
    lw t4, 0(t1)              # analyzer: the word at var
    sw t0, 100000, t2         # RARS: lui t2, 0x18 ; sw t0, 0x6A0(t2)   -> t2 = 0x18000
    addi a7, t2, -99990       # analyzer: a7 = 10
    ecall                     # analyzer: exit
    li t5, 1                  # analyzer: unreachable
    li a7, 10
    ecall
