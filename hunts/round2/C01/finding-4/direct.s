main:
    jal ra, f
    li a7, 10
    ecall
f:
    beq a0, zero, Q
N:  ret
Q:  li s0, 0
    j N
