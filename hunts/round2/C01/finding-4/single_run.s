main:
    mul ra, ra, ra
    mul sp, sp, sp
    li a7, 1
N:  ecall                     # reached with a7 = 1 from above, with a7 = a7*a0 from P
    mul a7, a7, a0
    j Q
P:  j N
Q:  beq a0, a1, P
    li a7, 10
    ecall
