#!/bin/bash
# Exits non-zero when a claim in front of a join ignores a predecessor that was
# still waiting (all of ITS predecessors come later in the program) when the
# value pass stopped.
cd "$(dirname "$0")"
RVA=${RVA:-/tmp/wt4-C01/target/debug/rva}
bad=0

echo "== late_pred.s: the ret of f is reached with s0 = 0 through P"
y=$("$RVA" lint --yaml --no-color late_pred.s 2>&1)
# in-values of the node labelled N (the ret)
claim=$(echo "$y" | awk '/^- node:/{blk=""} {blk=blk"\n"$0} /^  reg_values_out:/{ if (blk ~ /- N\n/ && blk ~ /inst: Jalr/) print blk }')
if echo "$claim" | grep -A2 '^    8: !ors' | tr -d '\n ' | grep -q '8:!ors-8-0'; then
  echo "VIOLATION: in front of 'ret' the analyzer claims s0 == s0 at entry (reg_values_in has 8: !ors [8, 0]);"
  echo "           the execution f(a0 = 0): beq -> Q: li s0, 0 -> j P -> j N arrives there with s0 == 0"
  bad=1
fi
l1=$("$RVA" lint --no-color --compact late_pred.s 2>&1)
l2=$("$RVA" lint --no-color --compact direct.s 2>&1)
echo "-- lints for late_pred.s:"; echo "$l1"
echo "-- lints for direct.s (same program without the trampoline P):"; echo "$l2"
if echo "$l2" | grep -q 'Overwrite callee-saved register' && ! echo "$l1" | grep -q 'Overwrite callee-saved register'; then
  echo "VIOLATION: 'Overwrite callee-saved register' is missing for late_pred.s: the restore check rests on the false claim"
  bad=1
fi

echo "== single_run.s: the same within one run of the pass (the late predecessor knows nothing)"
y=$("$RVA" lint --yaml --no-color single_run.s 2>&1)
claim=$(echo "$y" | awk '/^- node:/{blk=""} {blk=blk"\n"$0} /^  reg_values_out:/{ if (blk ~ /- N\n/ && blk ~ /inst: Ecall/) print blk }')
if echo "$claim" | grep -q '17: !c 1$'; then
  echo "VIOLATION: in front of 'N: ecall' the analyzer claims a7 == 1; through P it is reached with a7 == a7*a0"
  bad=1
fi
exit $bad
