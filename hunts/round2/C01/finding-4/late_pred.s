main:
    jal ra, f
    li a7, 10
    ecall
f:
    beq a0, zero, Q
N:  ret                       # reached from the beq (s0 intact) and from P (s0 = 0)
P:  j N                       # only predecessor: the `j P` below
Q:  li s0, 0                  # f destroys s0 when a0 == 0
    j P
