main:
    csrwi uscratch, 5         # uscratch = 5
    jal ra, f                 # f keeps ra, sp and s0-s11, but writes uscratch
    csrr a7, uscratch         # machine: a7 = 10     analyzer: a7 = 5
    ecall                     # machine: exit (10)   analyzer: ReadInt (5)
    li t0, 1
    addi sp, sp, 4            # never executed
    li a7, 10
    ecall
f:
    li t0, 10
    csrrw zero, uscratch, t0
    ret
