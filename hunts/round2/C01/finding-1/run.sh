#!/bin/bash
# Exits non-zero when the analyzer still claims a7 == 5 behind a call that
# rewrote the CSR (and bases the exit/stack diagnostics on it).
cd "$(dirname "$0")"
RVA=${RVA:-/tmp/wt4-C01/target/debug/rva}
dbg=$("$RVA" lint --debug --no-color csr_call.s 2>&1)
lint=$("$RVA" lint --no-color --compact csr_call.s 2>&1)
bad=0
# the claim attached to `csrr a7, uscratch` (the node behind the call)
claim=$(echo "$dbg" | grep -A3 '^csrrs a7 <- 64 <- zero' | grep VALO)
echo "claim behind 'csrr a7, uscratch': $claim"
if echo "$claim" | grep -q 'a7: 5'; then
  echo "VIOLATION: a7 is claimed to be 5; the machine has 10 (f wrote uscratch)"
  bad=1
fi
# the slot of the CSR is still claimed behind the call
if echo "$dbg" | grep -A4 '^jal \[f\]' | grep STCK | grep -q 'csr\[64\]: 5'; then
  echo "VIOLATION: 'csr[64]: 5' is still claimed behind 'jal ra, f'"
  bad=1
fi
echo "$lint"
if [ $bad = 1 ] && echo "$lint" | grep -q 'Invalid stack position.* at 7 ' && ! echo "$lint" | grep -q 'Unknown ecall'; then
  echo "NOTE: the ecall in line 5 is taken for ReadInt (a7 == 5, no 'Unknown ecall'); on the machine it is the exit call and line 7 is never reached"
fi
exit $bad
