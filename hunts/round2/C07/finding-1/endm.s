main:
  li a0, 1
  .macro inc
  addi a0, a0, 1
  .end_macro
  bogus_line_after_macro a0
  li a7, 10
  ecall
