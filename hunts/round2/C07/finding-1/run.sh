#!/bin/sh
# Finding 1: the RARS macro terminator `.end_macro` is not recognised, so `.macro`
# swallows the rest of the file (only `.endmacro`, which no assembler uses, ends it).
cd "$(dirname "$0")" || exit 2
RVA=${RVA:-/tmp/wt4-C07/target/debug/rva}
OUT=$(timeout 30 "$RVA" lint endm.s --compact --no-color 2>&1)
DBG=$(timeout 30 "$RVA" lint endm.s --debug --no-color 2>&1)
echo "--- diagnostics"; echo "$OUT"
bad=0
# line 6 (`bogus_line_after_macro a0`) lies behind `.end_macro`: it must be named by an error
if ! echo "$OUT" | grep -q "endm.s at 6 "; then
  echo "VIOLATION: malformed line 6 (behind .end_macro) is not named by any diagnostic"; bad=1
fi
# lines 7/8 (`li a7, 10`, `ecall`) must become nodes
if ! echo "$DBG" | grep -q "addi a7 <- zero, 10"; then
  echo "VIOLATION: line 7 'li a7, 10' (behind .end_macro) did not become a node"; bad=1
fi
if ! echo "$DBG" | grep -q "^ecall"; then
  echo "VIOLATION: line 8 'ecall' (behind .end_macro) did not become a node"; bad=1
fi
[ $bad -eq 0 ] && echo "ok: text behind .end_macro is parsed"
exit $bad
