#!/bin/sh
# Finding 3: one byte that is not valid UTF-8 (e.g. a Latin-1 'e acute', even inside a
# comment) makes the whole file disappear: no line of it is parsed, no error is located on
# any of its lines.
cd "$(dirname "$0")" || exit 2
RVA=${RVA:-/tmp/wt4-C07/target/debug/rva}
bad=0
echo "--- base file with a Latin-1 byte in the comment of line 2, and a malformed line 3"
OUT=$(timeout 30 "$RVA" lint latin_comment.s --compact --no-color 2>&1); echo "$OUT"
DBG=$(timeout 30 "$RVA" lint latin_comment.s --debug --no-color 2>&1)
if ! echo "$OUT" | grep -q "latin_comment.s at 3 "; then
  echo "VIOLATION: malformed line 3 ('bogus a1') is not named by a diagnostic located on it"; bad=1
fi
if ! echo "$DBG" | grep -q "addi a7 <- zero, 10"; then
  echo "VIOLATION: line 4 'li a7, 10' did not become a node"; bad=1
fi
echo "--- the same in an included file (base.s includes latin_inc.s), --all-files"
OUT=$(timeout 30 "$RVA" lint base.s --compact --no-color --all-files 2>&1); echo "$OUT"
DBG=$(timeout 30 "$RVA" lint base.s --debug --no-color --all-files 2>&1)
if ! echo "$OUT" | grep -q "latin_inc.s at 3 "; then
  echo "VIOLATION: malformed line 3 of latin_inc.s is not named by a diagnostic located on it"; bad=1
fi
if ! echo "$DBG" | grep -q "addi a0 <- a0, 3"; then
  echo "VIOLATION: line 4 of latin_inc.s ('addi a0, a0, 3') did not become a node"; bad=1
fi
[ $bad -eq 0 ] && echo ok
exit $bad
