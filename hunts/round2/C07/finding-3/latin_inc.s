  addi a0, a0, 2
  li t0, é
  bogus a1
  addi a0, a0, 3
