main:
  li a0, 1 # café (Latin-1 byte in a comment)
  bogus a1
  li a7, 10
  ecall
