main:
  li a0, 1
  .include "latin_inc.s"
  li a7, 10
  ecall
