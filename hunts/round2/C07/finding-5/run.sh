#!/bin/sh
# Finding 5 (minor): a line that consists only of commas - stray punctuation - is dropped
# without a node and without a diagnostic.
cd "$(dirname "$0")" || exit 2
RVA=${RVA:-/tmp/wt4-C07/target/debug/rva}
OUT=$(timeout 30 "$RVA" lint comma.s --compact --no-color 2>&1); echo "$OUT"
bad=0
for l in 3 4; do
  if ! echo "$OUT" | grep -q "comma.s at $l "; then
    echo "VIOLATION: line $l ($(sed -n ${l}p comma.s)) is neither a node nor named by a diagnostic"; bad=1
  fi
done
[ $bad -eq 0 ] && echo ok
exit $bad
