#!/bin/sh
# Finding 4: a carriage return is plain white space for the lexer but does not end a
# comment: with CR (classic Mac) line endings, or a stray CR, everything between a '#'
# and the next LF is discarded silently.
cd "$(dirname "$0")" || exit 2
RVA=${RVA:-/tmp/wt4-C07/target/debug/rva}
bad=0
for f in cr_only.s cr_in_comment.s; do
  echo "--- $f"; od -c $f | head -4
  OUT=$(timeout 30 "$RVA" lint $f --compact --no-color 2>&1); echo "$OUT"
  DBG=$(timeout 30 "$RVA" lint $f --debug --no-color 2>&1)
  if ! echo "$DBG" | grep -q "addi a1 <- zero, 2" && ! echo "$OUT" | grep -qi "unexpected\|expected"; then
    echo "VIOLATION ($f): 'li a1, 2' behind the carriage return is neither a node nor named by a parse error"; bad=1
  fi
done
[ $bad -eq 0 ] && echo ok
exit $bad
