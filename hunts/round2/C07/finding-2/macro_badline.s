main:
    li a0, 1
    .macro foo
    addi a0, a0, 1
    li t0, é
    addi a0, a0, 2
    bogus a0
    .endmacro
    li a7, 10
    ecall
