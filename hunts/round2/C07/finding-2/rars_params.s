main:
    li a0, 1
    .macro addn (%n)
    addi a0, a0, %n
    addi a1, a1, 1
    .endmacro
    li a7, 10
    ecall
