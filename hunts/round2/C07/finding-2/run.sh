#!/bin/sh
# Finding 2: an unlexable character (or broken literal) inside a `.macro` body ends the
# skipping of the body: the `.macro` line and the lines before the bad one vanish without
# any diagnostic, and the lines behind it are parsed as ordinary code.
cd "$(dirname "$0")" || exit 2
RVA=${RVA:-/tmp/wt4-C07/target/debug/rva}
A=$(timeout 30 "$RVA" lint macro_badline.s --compact --no-color 2>&1 | sed 's/macro_badline.s/F/')
B=$(timeout 30 "$RVA" lint macro_deleted.s --compact --no-color 2>&1 | sed 's/macro_deleted.s/F/')
DA=$(timeout 30 "$RVA" lint macro_badline.s --debug --no-color 2>&1)
DB=$(timeout 30 "$RVA" lint macro_deleted.s --debug --no-color 2>&1)
echo "--- with the bad line (line 5: 'li t0, é' inside the macro body)"; echo "$A"
echo "--- with that line deleted"; echo "$B"
bad=0
# containment: body line 'addi a0, a0, 2' must not become a node in either file
if echo "$DA" | grep -q "addi a0 <- a0, 2" && ! echo "$DB" | grep -q "addi a0 <- a0, 2"; then
  echo "VIOLATION: macro body line 6 'addi a0, a0, 2' became a node only because line 5 is malformed"; bad=1
fi
if echo "$A" | grep -q "F at 7 " ; then
  echo "VIOLATION: macro body line 7 ('bogus a0') is parsed (and reported) only because line 5 is malformed"; bad=1
fi
# coverage: the '.macro foo' line (3) and body line 4 are neither nodes nor named by an error
if ! echo "$A" | grep -q "F at 3 "; then
  echo "VIOLATION: line 3 '.macro foo' is no longer named by any diagnostic (the 'Unsupported operation' error is lost)"; bad=1
fi
echo "--- RARS style macro with %parameters (rars_params.s)"
timeout 30 "$RVA" lint rars_params.s --compact --no-color 2>&1
if timeout 30 "$RVA" lint rars_params.s --debug --no-color 2>&1 | grep -q "addi a1 <- a1, 1"; then
  echo "VIOLATION: body line 5 of the %parameter macro became an instruction node"; bad=1
fi
[ $bad -eq 0 ] && echo "ok"
exit $bad
