# the same helper file is pulled in twice (it defines no label, so this is legal)
.include "bump.s"
.include "bump.s"
main:
    li a7, 10
    ecall
