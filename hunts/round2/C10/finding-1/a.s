.include "common.s"
