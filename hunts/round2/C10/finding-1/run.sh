#!/bin/sh
# Exits non-zero when rva prints the same diagnostic (same kind, file, range,
# message) more than once.
HERE=$(cd "$(dirname "$0")" && pwd)
RVA=${RVA:-/tmp/wt4-C10/target/debug/rva}
if [ ! -x "$RVA" ]; then
    (cd /tmp/wt4-C10 && cargo build --workspace --offline >/dev/null 2>&1)
fi
bad=0
for prog in "$HERE/main.s" "$HERE/diamond/main.s"; do
    echo "== rva lint --compact --no-color --all-files $prog"
    out=$("$RVA" lint --compact --no-color --all-files "$prog")
    echo "$out"
    dups=$(echo "$out" | sort | uniq -d)
    if [ -n "$dups" ]; then
        echo "-- reported more than once:"
        echo "$dups"
        bad=1
    fi
    echo "== rva lint --json $prog : identical JSON items"
    n=$("$RVA" lint --json "$prog" | python3 -c '
import json,sys
d=json.load(sys.stdin)["diagnostics"]
k=[json.dumps(x,sort_keys=True) for x in d]
print(len(k)-len(set(k)))')
    echo "$n"
    [ "$n" != "0" ] && bad=1
done
if [ $bad -ne 0 ]; then echo "VIOLATION: duplicate diagnostics"; exit 1; fi
echo "no duplicates"; exit 0
