.eqv SIZE 4
