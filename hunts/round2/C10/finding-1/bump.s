    addi x0, x0, 1
    lw t0, t1
