.include "common.s"
