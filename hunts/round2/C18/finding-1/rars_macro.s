main:
    li a7, 10
    ecall
    .macro done
    li a7, 10
    .end_macro
helper_with_a_long_name_here: addi a0, a0, 1
