#!/bin/bash
# Finding 1: a diagnostic whose range spans several lines is rendered with the
# start line, the start column of that line and the END column of ANOTHER line.
cd "$(dirname "$0")"
RVA=${RVA:-/tmp/wt4-C18/target/debug/rva}
python3 - "$RVA" <<'PY'
import json, re, subprocess, sys
rva = sys.argv[1]
bad = 0
for f in ("unterminated.s", "rars_macro.s"):
    def run(*a): return subprocess.run([rva, "lint", f, *a], capture_output=True, text=True, timeout=60).stdout
    comp = run("--compact", "--no-color"); pret = run("--no-color"); js = json.loads(run("--json"))
    print(f"== {f}\n-- compact:\n{comp}-- pretty:\n{pret}")
    src = open(f).read().split("\n")
    for d in js["diagnostics"]:
        s, e = d["range"]["start"], d["range"]["end"]
        print(f"-- json: {d['title']!r} start line {s['line']+1} col {s['column']+1}, end line {e['line']+1} col {e['column']+1}")
        if s["line"] != e["line"]:
            print("   range spans several lines; compact/pretty combine the start line with the end column of another line")
            m = re.search(r" at (\d+) (\d+):(\d+)$", [l for l in comp.split("\n") if d["title"] in l][0])
            line, sc, ec = map(int, m.groups())
            if ec < sc:
                print(f"   VIOLATION: compact reports columns {sc}:{ec} (end before start)"); bad = 1
            # marker of the pretty excerpt
            pl = pret.split("\n")
            i = [k for k, l in enumerate(pl) if l.startswith(f" {line} | ")][0]
            shown, marker = pl[i][len(f" {line} | "):], pl[i+1][len(f" {line} | "):]
            carets = marker.count("^")
            if carets == 0:
                print("   VIOLATION: the pretty excerpt has no marker at all"); bad = 1
            elif len(marker) > len(shown):
                print(f"   VIOLATION: marker ({len(marker)} cells) runs past the excerpt line ({len(shown)} cells): its length comes from a different line"); bad = 1
sys.exit(bad)
PY
