main:
    li a7, 10
    ecall
        .macro foo
x
