main:
    .include "lib\new_util.s"
    li a7, 10
    ecall
