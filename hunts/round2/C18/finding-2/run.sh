#!/bin/bash
# Finding 2: the title of an include error contains the decoded include path; an
# escape such as \n in the path puts a raw line break into the title.
cd "$(dirname "$0")"
RVA=${RVA:-/tmp/wt4-C18/target/debug/rva}
python3 - "$RVA" <<'PY'
import json, subprocess, sys
rva = sys.argv[1]; f = "lf_title.s"
def run(*a): return subprocess.run([rva, "lint", f, *a], capture_output=True, text=True, timeout=60).stdout
comp = run("--compact", "--no-color"); pret = run("--no-color"); js = json.loads(run("--json"))
print("-- compact:\n" + comp + "-- pretty:\n" + pret)
n = len(js["diagnostics"]); bad = 0
lines = [l for l in comp.split("\n") if l]
print(f"JSON lists {n} diagnostic(s); compact output has {len(lines)} line(s)")
for d in js["diagnostics"]:
    if any(c in d["title"] for c in "\n\r"):
        print(f"VIOLATION: title contains a line break: {d['title']!r}"); bad = 1
if len(lines) != n:
    print("VIOLATION: compact output is not one line per diagnostic; read line by line it does not report the diagnostics of the JSON output"); bad = 1
heads = [l for l in pret.split("\n") if l.startswith(" in file: ")]
for i, l in enumerate(pret.split("\n")):
    if l.startswith("Error: ") and not pret.split("\n")[i+1].startswith(" in file: "):
        print("VIOLATION: pretty header: the title line is not followed by its ' in file:' line"); bad = 1
sys.exit(bad)
PY
