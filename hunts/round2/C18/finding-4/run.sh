#!/bin/bash
# Finding 4: the marker line copies the tabs in FRONT of the range but draws one
# caret per character INSIDE the range: with a tab inside the range the carets do
# not stand under the reported columns.
cd "$(dirname "$0")"
RVA=${RVA:-/tmp/wt4-C18/target/debug/rva}
python3 - "$RVA" <<'PY'
import json, subprocess, sys
rva = sys.argv[1]; f = "tabs_in_range.s"
def run(*a): return subprocess.run([rva, "lint", f, *a], capture_output=True, text=True, timeout=60).stdout
pret = run("--no-color"); js = json.loads(run("--json"))
src = open(f).read().split("\n")
def cells(s):
    """terminal cell (0-based) of every character of s, tab stops every 8 cells"""
    out, c = [], 0
    for ch in s:
        out.append(c)
        c = (c // 8 + 1) * 8 if ch == "\t" else c + 1
    return out, c
pl = pret.split("\n"); bad = 0; k = 0
for d in js["diagnostics"]:
    # the k-th excerpt in the pretty output belongs to the k-th diagnostic
    while not (pl[k].startswith(" ") and " | " in pl[k] and pl[k].strip()[0].isdigit()): k += 1
    text_line, marker_line = pl[k], pl[k+1]; k += 2
    s, e = d["range"]["start"], d["range"]["end"]
    line = src[s["line"]]
    indent = len(line) - len(line.lstrip(" \t"))
    prefix = len(f" {s['line']+1} | ")
    tcells, _ = cells(text_line)
    want = (tcells[prefix + s["column"] - indent], tcells[prefix + e["column"] - indent])
    mcells, _ = cells(marker_line)
    carets = [c for ch, c in zip(marker_line, mcells) if ch == "^"]
    got = (carets[0], carets[-1])
    status = "ok" if want == got else "VIOLATION"
    print(f"{status}: {d['title']!r} columns {s['column']+1}:{e['column']+1}: text occupies cells {want[0]}..{want[1]}, marker occupies cells {got[0]}..{got[1]}")
    if want != got:
        print(text_line.expandtabs(8)); print(marker_line.expandtabs(8)); bad = 1
sys.exit(bad)
PY
