.data
	add	t0,	t1,	t2
.text
main:
	li	a7,	10
	ecall
