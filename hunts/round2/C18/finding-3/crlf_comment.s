main:
    li a0 # load the argument
    li a7, 10
    ecall
