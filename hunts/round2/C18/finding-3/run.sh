#!/bin/bash
# Finding 3: in a CRLF file a comment token keeps the carriage return of the line
# ending; "found COMMENT..." titles then contain a raw CR and the range/marker
# covers the invisible CR.
cd "$(dirname "$0")"
RVA=${RVA:-/tmp/wt4-C18/target/debug/rva}
python3 - "$RVA" <<'PY'
import json, re, subprocess, sys
rva = sys.argv[1]; f = "crlf_comment.s"
def run(*a): return subprocess.run([rva, "lint", f, *a], capture_output=True, timeout=60).stdout.decode()
comp = run("--compact", "--no-color"); pret = run("--no-color"); js = json.loads(run("--json"))
print("-- compact (repr):"); [print("  ", repr(l)) for l in comp.split("\n") if l]
print("-- compact as a terminal shows it (CR returns to column 1):")
for l in comp.split("\n"):
    if not l: continue
    screen = []
    col = 0
    for ch in l:
        if ch == "\r": col = 0; continue
        if col < len(screen): screen[col] = ch
        else: screen.append(ch)
        col += 1
    print("  ", "".join(screen))
print("-- pretty:"); print(pret)
bad = 0
for d in js["diagnostics"]:
    if "\r" in d["title"] or "\n" in d["title"]:
        print(f"VIOLATION: title contains a carriage return: {d['title']!r}"); bad = 1
        s, e = d["range"]["start"], d["range"]["end"]
        src = open(f, newline="").read().split("\n")[s["line"]]
        visible = src.rstrip("\r")
        if e["column"] >= len(visible):
            print(f"VIOLATION: reported columns {s['column']+1}:{e['column']+1} but the visible line has {len(visible)} columns: the marker's last caret stands under the CR of the line ending"); bad = 1
sys.exit(bad)
PY
