#!/bin/sh
# C14 finding 1: renaming a function label to `__return__` changes the diagnostics.
# Exits 1 when the violation is present.
cd "$(dirname "$0")" || exit 2
RVA=${RVA:-/tmp/wt4-C14/target/debug/rva}
a=$(timeout 60 "$RVA" lint orig.s    --compact --no-color | sed 's#in /.*/[a-z]*\.s at#at#')
b=$(timeout 60 "$RVA" lint renamed.s --compact --no-color | sed 's#in /.*/[a-z]*\.s at#at#')
echo "--- orig.s (function label aa_helper_):"; echo "$a"
echo "--- renamed.s (same label renamed to __return__, same length):"; echo "$b"
if [ "$a" != "$b" ]; then
  echo "VIOLATION: the diagnostics differ although only a label was renamed"
  exit 1
fi
echo "no difference"
exit 0
