main:
    li a0, 1
    jal pick
    jal __return__
    li a7, 10
    ecall
pick:
    beqz a0, other
    li a0, 2
    ret
other:
    li a0, 3
    ret
__return__:
    li t0, 5
    add a0, a0, t0
    ret
