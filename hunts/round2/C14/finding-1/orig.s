main:
    li a0, 1
    jal pick
    jal aa_helper_
    li a7, 10
    ecall
pick:
    beqz a0, other
    li a0, 2
    ret
other:
    li a0, 3
    ret
aa_helper_:
    li t0, 5
    add a0, a0, t0
    ret
