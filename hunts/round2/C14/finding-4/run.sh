#!/bin/sh
# C14 finding 4: the list in "Labels not defined: ..." is sorted by name, so a renaming reorders the message.
# Exits 1 when the violation is present.
cd "$(dirname "$0")" || exit 2
RVA=${RVA:-/tmp/wt4-C14/target/debug/rva}
x=$(timeout 60 "$RVA" lint orig.s    --compact --no-color | sed 's#in /.*/[a-z_]*\.s at#at#')
y=$(timeout 60 "$RVA" lint renamed.s --compact --no-color | sed 's#in /.*/[a-z_]*\.s at#at#')
# the original diagnostics with the names mapped through the renaming aaa<->bbb
expected=$(echo "$x" | sed 's/aaa/XXX/g; s/bbb/aaa/g; s/XXX/bbb/g')
echo "orig.s              : $x"
echo "expected for renamed: $expected"
echo "renamed.s           : $y"
if [ "$y" != "$expected" ]; then echo "VIOLATION: the message is not the original one with the names mapped"; exit 1; fi
exit 0
