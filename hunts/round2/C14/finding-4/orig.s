main:
    j bbb
    j aaa
    li a7, 10
    ecall
