main:
    j aaa
    j bbb
    li a7, 10
    ecall
