.data
tbl: .word nop
.text
main:
    li a7, 10
    ecall
nop:
    li a7, 10
    ecall
