.data
tbl: .word ret
.text
main:
    li a7, 10
    ecall
ret:
    li a7, 10
    ecall
