.data
tbl: .word foo
.text
main:
    li a7, 10
    ecall
foo:
    li a7, 10
    ecall
