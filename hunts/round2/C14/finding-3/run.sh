#!/bin/sh
# C14 finding 3: a label named like a mnemonic (ret, nop, ecall, ...) used after a data directive
# is executed as an instruction. Exits 1 when the violation is present.
cd "$(dirname "$0")" || exit 2
RVA=${RVA:-/tmp/wt4-C14/target/debug/rva}
rc=0
x=$(timeout 60 "$RVA" lint orig.s --compact --no-color | sed 's#in /.*/[a-z_]*\.s at#at#; s/foo/<L>/g')
echo "--- orig.s (label foo):"; echo "$x"
for n in ret nop; do
  y=$(timeout 60 "$RVA" lint renamed_$n.s --compact --no-color | sed "s#in /.*/[a-z_]*\.s at#at#; s/$n/<L>/g")
  echo "--- renamed_$n.s (label foo renamed to $n, same length):"; echo "$y"
  if [ "$x" != "$y" ]; then echo "VIOLATION: diagnostics differ beyond the name (foo -> $n)"; rc=1; fi
done
exit $rc
