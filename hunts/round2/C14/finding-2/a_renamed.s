main:
    lw t0, Zero
    mv a0, t0
    li a7, 1
    ecall
    li a7, 10
    ecall
