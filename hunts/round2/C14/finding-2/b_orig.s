.data
Nada: .word 0
.text
main:
    li a0, 5
    sw a0, Nada, t2
    addi a7, t2, 10
    ecall
    li a0, 6
