#!/bin/sh
# C14 finding 2: a label called Zero / ZERO / zErO is read as the immediate 0 in load/store (and data) operands.
# Exits 1 when the violation is present.
cd "$(dirname "$0")" || exit 2
RVA=${RVA:-/tmp/wt4-C14/target/debug/rva}
rc=0
for t in a b; do
  x=$(timeout 60 "$RVA" lint ${t}_orig.s    --compact --no-color | sed 's#in /.*/[a-z_]*\.s at#at#; s/Nada/<L>/g')
  y=$(timeout 60 "$RVA" lint ${t}_renamed.s --compact --no-color | sed 's#in /.*/[a-z_]*\.s at#at#; s/Zero/<L>/g')
  echo "--- ${t}_orig.s (label Nada):"; echo "$x"
  echo "--- ${t}_renamed.s (label renamed to Zero, same length):"; echo "$y"
  if [ "$x" != "$y" ]; then echo "VIOLATION in case $t: diagnostics differ beyond the name"; rc=1; fi
done
exit $rc
