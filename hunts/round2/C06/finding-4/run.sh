#!/bin/bash
# Finding 4: a file whose NAME is not valid UTF-8 makes `rva lint` panic (exit 101) in every mode.
cd "$(dirname "$0")"
RVA=${RVA:-/tmp/wt4-C06/target/debug/rva}
[ -x "$RVA" ] || { echo "no binary $RVA"; exit 2; }
d=$(mktemp -d); trap 'rm -rf "$d"' EXIT
name=$'prog\xff.s'
printf 'main:\n    li a7, 10\n    ecall\n' > "$d/$name"
bad=0
for m in "" --compact --json --yaml --debug; do
  timeout 20 "$RVA" lint "$d/$name" $m >"$d/out" 2>"$d/err"; rc=$?
  echo "mode '${m}': exit $rc: $(grep -m1 -A1 panicked "$d/err" | tr '\n' ' ')"
  [ $rc -ne 0 ] && bad=1
done
if [ $bad -eq 1 ]; then echo "VIOLATION: panic instead of a diagnostic (or of linting the perfectly valid file)"; exit 1; fi
echo ok; exit 0
