#!/bin/bash
# Finding 5: when the reader of stdout goes away (`| head`), or stdout cannot be written, rva panics.
cd "$(dirname "$0")"
RVA=${RVA:-/tmp/wt4-C06/target/debug/rva}
[ -x "$RVA" ] || { echo "no binary $RVA"; exit 2; }
e=$(mktemp); trap 'rm -f "$e"' EXIT
bad=0
for m in --debug --yaml; do
  timeout 30 "$RVA" lint big.s $m 2>"$e" | head -n 1 >/dev/null; rc=${PIPESTATUS[0]}
  echo "rva lint big.s $m | head -n 1 : exit $rc : $(grep -m1 -A1 panicked "$e" | tr '\n' ' ')"
  [ $rc -eq 101 ] && bad=1
done
timeout 30 "$RVA" lint big.s --compact >/dev/full 2>"$e"; rc=$?
echo "rva lint big.s --compact > /dev/full : exit $rc : $(grep -m1 -A1 panicked "$e" | tr '\n' ' ')"
[ $rc -eq 101 ] && bad=1
if [ $bad -eq 1 ]; then echo "VIOLATION: panic (exit 101) while printing"; exit 1; fi
echo ok; exit 0
