main:
addi sp, sp, -320
sw zero, 0(sp)
sw zero, 4(sp)
sw zero, 8(sp)
sw zero, 12(sp)
sw zero, 16(sp)
sw zero, 20(sp)
sw zero, 24(sp)
sw zero, 28(sp)
sw zero, 32(sp)
sw zero, 36(sp)
sw zero, 40(sp)
sw zero, 44(sp)
sw zero, 48(sp)
sw zero, 52(sp)
sw zero, 56(sp)
sw zero, 60(sp)
sw zero, 64(sp)
sw zero, 68(sp)
sw zero, 72(sp)
sw zero, 76(sp)
sw zero, 80(sp)
sw zero, 84(sp)
sw zero, 88(sp)
sw zero, 92(sp)
sw zero, 96(sp)
sw zero, 100(sp)
sw zero, 104(sp)
sw zero, 108(sp)
sw zero, 112(sp)
sw zero, 116(sp)
sw zero, 120(sp)
sw zero, 124(sp)
sw zero, 128(sp)
sw zero, 132(sp)
sw zero, 136(sp)
sw zero, 140(sp)
sw zero, 144(sp)
sw zero, 148(sp)
sw zero, 152(sp)
sw zero, 156(sp)
sw zero, 160(sp)
sw zero, 164(sp)
sw zero, 168(sp)
sw zero, 172(sp)
sw zero, 176(sp)
sw zero, 180(sp)
sw zero, 184(sp)
sw zero, 188(sp)
sw zero, 192(sp)
sw zero, 196(sp)
sw zero, 200(sp)
sw zero, 204(sp)
sw zero, 208(sp)
sw zero, 212(sp)
sw zero, 216(sp)
sw zero, 220(sp)
sw zero, 224(sp)
sw zero, 228(sp)
sw zero, 232(sp)
sw zero, 236(sp)
sw zero, 240(sp)
sw zero, 244(sp)
sw zero, 248(sp)
sw zero, 252(sp)
sw zero, 256(sp)
sw zero, 260(sp)
sw zero, 264(sp)
sw zero, 268(sp)
sw zero, 272(sp)
sw zero, 276(sp)
sw zero, 280(sp)
sw zero, 284(sp)
sw zero, 288(sp)
sw zero, 292(sp)
sw zero, 296(sp)
sw zero, 300(sp)
sw zero, 304(sp)
sw zero, 308(sp)
sw zero, 312(sp)
sw zero, 316(sp)
j H
B79:
lw t0, 0(a1)
sw t0, 316(sp)
j H
B78:
lw t0, 316(sp)
sw t0, 312(sp)
j B79
B77:
lw t0, 312(sp)
sw t0, 308(sp)
j B78
B76:
lw t0, 308(sp)
sw t0, 304(sp)
j B77
B75:
lw t0, 304(sp)
sw t0, 300(sp)
j B76
B74:
lw t0, 300(sp)
sw t0, 296(sp)
j B75
B73:
lw t0, 296(sp)
sw t0, 292(sp)
j B74
B72:
lw t0, 292(sp)
sw t0, 288(sp)
j B73
B71:
lw t0, 288(sp)
sw t0, 284(sp)
j B72
B70:
lw t0, 284(sp)
sw t0, 280(sp)
j B71
B69:
lw t0, 280(sp)
sw t0, 276(sp)
j B70
B68:
lw t0, 276(sp)
sw t0, 272(sp)
j B69
B67:
lw t0, 272(sp)
sw t0, 268(sp)
j B68
B66:
lw t0, 268(sp)
sw t0, 264(sp)
j B67
B65:
lw t0, 264(sp)
sw t0, 260(sp)
j B66
B64:
lw t0, 260(sp)
sw t0, 256(sp)
j B65
B63:
lw t0, 256(sp)
sw t0, 252(sp)
j B64
B62:
lw t0, 252(sp)
sw t0, 248(sp)
j B63
B61:
lw t0, 248(sp)
sw t0, 244(sp)
j B62
B60:
lw t0, 244(sp)
sw t0, 240(sp)
j B61
B59:
lw t0, 240(sp)
sw t0, 236(sp)
j B60
B58:
lw t0, 236(sp)
sw t0, 232(sp)
j B59
B57:
lw t0, 232(sp)
sw t0, 228(sp)
j B58
B56:
lw t0, 228(sp)
sw t0, 224(sp)
j B57
B55:
lw t0, 224(sp)
sw t0, 220(sp)
j B56
B54:
lw t0, 220(sp)
sw t0, 216(sp)
j B55
B53:
lw t0, 216(sp)
sw t0, 212(sp)
j B54
B52:
lw t0, 212(sp)
sw t0, 208(sp)
j B53
B51:
lw t0, 208(sp)
sw t0, 204(sp)
j B52
B50:
lw t0, 204(sp)
sw t0, 200(sp)
j B51
B49:
lw t0, 200(sp)
sw t0, 196(sp)
j B50
B48:
lw t0, 196(sp)
sw t0, 192(sp)
j B49
B47:
lw t0, 192(sp)
sw t0, 188(sp)
j B48
B46:
lw t0, 188(sp)
sw t0, 184(sp)
j B47
B45:
lw t0, 184(sp)
sw t0, 180(sp)
j B46
B44:
lw t0, 180(sp)
sw t0, 176(sp)
j B45
B43:
lw t0, 176(sp)
sw t0, 172(sp)
j B44
B42:
lw t0, 172(sp)
sw t0, 168(sp)
j B43
B41:
lw t0, 168(sp)
sw t0, 164(sp)
j B42
B40:
lw t0, 164(sp)
sw t0, 160(sp)
j B41
B39:
lw t0, 160(sp)
sw t0, 156(sp)
j B40
B38:
lw t0, 156(sp)
sw t0, 152(sp)
j B39
B37:
lw t0, 152(sp)
sw t0, 148(sp)
j B38
B36:
lw t0, 148(sp)
sw t0, 144(sp)
j B37
B35:
lw t0, 144(sp)
sw t0, 140(sp)
j B36
B34:
lw t0, 140(sp)
sw t0, 136(sp)
j B35
B33:
lw t0, 136(sp)
sw t0, 132(sp)
j B34
B32:
lw t0, 132(sp)
sw t0, 128(sp)
j B33
B31:
lw t0, 128(sp)
sw t0, 124(sp)
j B32
B30:
lw t0, 124(sp)
sw t0, 120(sp)
j B31
B29:
lw t0, 120(sp)
sw t0, 116(sp)
j B30
B28:
lw t0, 116(sp)
sw t0, 112(sp)
j B29
B27:
lw t0, 112(sp)
sw t0, 108(sp)
j B28
B26:
lw t0, 108(sp)
sw t0, 104(sp)
j B27
B25:
lw t0, 104(sp)
sw t0, 100(sp)
j B26
B24:
lw t0, 100(sp)
sw t0, 96(sp)
j B25
B23:
lw t0, 96(sp)
sw t0, 92(sp)
j B24
B22:
lw t0, 92(sp)
sw t0, 88(sp)
j B23
B21:
lw t0, 88(sp)
sw t0, 84(sp)
j B22
B20:
lw t0, 84(sp)
sw t0, 80(sp)
j B21
B19:
lw t0, 80(sp)
sw t0, 76(sp)
j B20
B18:
lw t0, 76(sp)
sw t0, 72(sp)
j B19
B17:
lw t0, 72(sp)
sw t0, 68(sp)
j B18
B16:
lw t0, 68(sp)
sw t0, 64(sp)
j B17
B15:
lw t0, 64(sp)
sw t0, 60(sp)
j B16
B14:
lw t0, 60(sp)
sw t0, 56(sp)
j B15
B13:
lw t0, 56(sp)
sw t0, 52(sp)
j B14
B12:
lw t0, 52(sp)
sw t0, 48(sp)
j B13
B11:
lw t0, 48(sp)
sw t0, 44(sp)
j B12
B10:
lw t0, 44(sp)
sw t0, 40(sp)
j B11
B9:
lw t0, 40(sp)
sw t0, 36(sp)
j B10
B8:
lw t0, 36(sp)
sw t0, 32(sp)
j B9
B7:
lw t0, 32(sp)
sw t0, 28(sp)
j B8
B6:
lw t0, 28(sp)
sw t0, 24(sp)
j B7
B5:
lw t0, 24(sp)
sw t0, 20(sp)
j B6
B4:
lw t0, 20(sp)
sw t0, 16(sp)
j B5
B3:
lw t0, 16(sp)
sw t0, 12(sp)
j B4
B2:
lw t0, 12(sp)
sw t0, 8(sp)
j B3
B1:
lw t0, 8(sp)
sw t0, 4(sp)
j B2
B0:
lw t0, 4(sp)
sw t0, 0(sp)
j B1
H:
beqz a0, END
j B0
END:
addi sp, sp, 320
li a7, 10
ecall
