main:
addi sp, sp, -80
sw zero, 0(sp)
sw zero, 4(sp)
sw zero, 8(sp)
sw zero, 12(sp)
sw zero, 16(sp)
sw zero, 20(sp)
sw zero, 24(sp)
sw zero, 28(sp)
sw zero, 32(sp)
sw zero, 36(sp)
sw zero, 40(sp)
sw zero, 44(sp)
sw zero, 48(sp)
sw zero, 52(sp)
sw zero, 56(sp)
sw zero, 60(sp)
sw zero, 64(sp)
sw zero, 68(sp)
sw zero, 72(sp)
sw zero, 76(sp)
j H
B19:
lw t0, 0(a1)
sw t0, 76(sp)
j H
B18:
lw t0, 76(sp)
sw t0, 72(sp)
j B19
B17:
lw t0, 72(sp)
sw t0, 68(sp)
j B18
B16:
lw t0, 68(sp)
sw t0, 64(sp)
j B17
B15:
lw t0, 64(sp)
sw t0, 60(sp)
j B16
B14:
lw t0, 60(sp)
sw t0, 56(sp)
j B15
B13:
lw t0, 56(sp)
sw t0, 52(sp)
j B14
B12:
lw t0, 52(sp)
sw t0, 48(sp)
j B13
B11:
lw t0, 48(sp)
sw t0, 44(sp)
j B12
B10:
lw t0, 44(sp)
sw t0, 40(sp)
j B11
B9:
lw t0, 40(sp)
sw t0, 36(sp)
j B10
B8:
lw t0, 36(sp)
sw t0, 32(sp)
j B9
B7:
lw t0, 32(sp)
sw t0, 28(sp)
j B8
B6:
lw t0, 28(sp)
sw t0, 24(sp)
j B7
B5:
lw t0, 24(sp)
sw t0, 20(sp)
j B6
B4:
lw t0, 20(sp)
sw t0, 16(sp)
j B5
B3:
lw t0, 16(sp)
sw t0, 12(sp)
j B4
B2:
lw t0, 12(sp)
sw t0, 8(sp)
j B3
B1:
lw t0, 8(sp)
sw t0, 4(sp)
j B2
B0:
lw t0, 4(sp)
sw t0, 0(sp)
j B1
H:
beqz a0, END
j B0
END:
addi sp, sp, 80
li a7, 10
ecall
