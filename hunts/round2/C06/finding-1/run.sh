#!/bin/bash
# Finding 1: the value analysis needs Theta(n^2) sweeps (Theta(n^3..4) time) on a
# loop whose blocks are written in reverse order. Exits 1 when the violation is present.
cd "$(dirname "$0")"
RVA=${RVA:-/tmp/wt4-C06/target/debug/rva}
[ -x "$RVA" ] || { echo "no binary $RVA (cargo build --workspace --offline)"; exit 2; }
t() { # file limit -> seconds (or TIMEOUT)
  local s e rc; s=$(date +%s.%N)
  timeout "$2" "$RVA" lint "$1" --compact >/dev/null 2>&1; rc=$?
  e=$(date +%s.%N)
  if [ $rc -eq 124 ]; then echo TIMEOUT; else echo "$e - $s" | bc; fi
}
t10=$(t rot10.s 10); t20=$(t rot20.s 20); t40=$(t rot40.s 25)
echo "rot10.s ( 45 lines): $t10 s"
echo "rot20.s ( 75 lines): $t20 s"
echo "rot40.s (135 lines): $t40 s (limit 25 s)"
bad=0
[ "$t40" = TIMEOUT ] && bad=1
[ "$t20" = TIMEOUT ] && bad=1
if [ $bad -eq 0 ]; then
  # a 135-line file must not take 5 s, and doubling the input must not cost > 6x
  awk -v a="$t20" -v b="$t40" 'BEGIN{ if (b > 5 || (b > 1 && b/a > 6)) exit 1 }' || bad=1
fi
if [ $bad -eq 1 ]; then echo "VIOLATION: linting time explodes (expected: well below a second for 135 lines)"; exit 1; fi
echo "ok"; exit 0
