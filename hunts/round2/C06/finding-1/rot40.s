main:
addi sp, sp, -160
sw zero, 0(sp)
sw zero, 4(sp)
sw zero, 8(sp)
sw zero, 12(sp)
sw zero, 16(sp)
sw zero, 20(sp)
sw zero, 24(sp)
sw zero, 28(sp)
sw zero, 32(sp)
sw zero, 36(sp)
sw zero, 40(sp)
sw zero, 44(sp)
sw zero, 48(sp)
sw zero, 52(sp)
sw zero, 56(sp)
sw zero, 60(sp)
sw zero, 64(sp)
sw zero, 68(sp)
sw zero, 72(sp)
sw zero, 76(sp)
sw zero, 80(sp)
sw zero, 84(sp)
sw zero, 88(sp)
sw zero, 92(sp)
sw zero, 96(sp)
sw zero, 100(sp)
sw zero, 104(sp)
sw zero, 108(sp)
sw zero, 112(sp)
sw zero, 116(sp)
sw zero, 120(sp)
sw zero, 124(sp)
sw zero, 128(sp)
sw zero, 132(sp)
sw zero, 136(sp)
sw zero, 140(sp)
sw zero, 144(sp)
sw zero, 148(sp)
sw zero, 152(sp)
sw zero, 156(sp)
j H
B39:
lw t0, 0(a1)
sw t0, 156(sp)
j H
B38:
lw t0, 156(sp)
sw t0, 152(sp)
j B39
B37:
lw t0, 152(sp)
sw t0, 148(sp)
j B38
B36:
lw t0, 148(sp)
sw t0, 144(sp)
j B37
B35:
lw t0, 144(sp)
sw t0, 140(sp)
j B36
B34:
lw t0, 140(sp)
sw t0, 136(sp)
j B35
B33:
lw t0, 136(sp)
sw t0, 132(sp)
j B34
B32:
lw t0, 132(sp)
sw t0, 128(sp)
j B33
B31:
lw t0, 128(sp)
sw t0, 124(sp)
j B32
B30:
lw t0, 124(sp)
sw t0, 120(sp)
j B31
B29:
lw t0, 120(sp)
sw t0, 116(sp)
j B30
B28:
lw t0, 116(sp)
sw t0, 112(sp)
j B29
B27:
lw t0, 112(sp)
sw t0, 108(sp)
j B28
B26:
lw t0, 108(sp)
sw t0, 104(sp)
j B27
B25:
lw t0, 104(sp)
sw t0, 100(sp)
j B26
B24:
lw t0, 100(sp)
sw t0, 96(sp)
j B25
B23:
lw t0, 96(sp)
sw t0, 92(sp)
j B24
B22:
lw t0, 92(sp)
sw t0, 88(sp)
j B23
B21:
lw t0, 88(sp)
sw t0, 84(sp)
j B22
B20:
lw t0, 84(sp)
sw t0, 80(sp)
j B21
B19:
lw t0, 80(sp)
sw t0, 76(sp)
j B20
B18:
lw t0, 76(sp)
sw t0, 72(sp)
j B19
B17:
lw t0, 72(sp)
sw t0, 68(sp)
j B18
B16:
lw t0, 68(sp)
sw t0, 64(sp)
j B17
B15:
lw t0, 64(sp)
sw t0, 60(sp)
j B16
B14:
lw t0, 60(sp)
sw t0, 56(sp)
j B15
B13:
lw t0, 56(sp)
sw t0, 52(sp)
j B14
B12:
lw t0, 52(sp)
sw t0, 48(sp)
j B13
B11:
lw t0, 48(sp)
sw t0, 44(sp)
j B12
B10:
lw t0, 44(sp)
sw t0, 40(sp)
j B11
B9:
lw t0, 40(sp)
sw t0, 36(sp)
j B10
B8:
lw t0, 36(sp)
sw t0, 32(sp)
j B9
B7:
lw t0, 32(sp)
sw t0, 28(sp)
j B8
B6:
lw t0, 28(sp)
sw t0, 24(sp)
j B7
B5:
lw t0, 24(sp)
sw t0, 20(sp)
j B6
B4:
lw t0, 20(sp)
sw t0, 16(sp)
j B5
B3:
lw t0, 16(sp)
sw t0, 12(sp)
j B4
B2:
lw t0, 12(sp)
sw t0, 8(sp)
j B3
B1:
lw t0, 8(sp)
sw t0, 4(sp)
j B2
B0:
lw t0, 4(sp)
sw t0, 0(sp)
j B1
H:
beqz a0, END
j B0
END:
addi sp, sp, 160
li a7, 10
ecall
