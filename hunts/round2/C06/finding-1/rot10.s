main:
addi sp, sp, -40
sw zero, 0(sp)
sw zero, 4(sp)
sw zero, 8(sp)
sw zero, 12(sp)
sw zero, 16(sp)
sw zero, 20(sp)
sw zero, 24(sp)
sw zero, 28(sp)
sw zero, 32(sp)
sw zero, 36(sp)
j H
B9:
lw t0, 0(a1)
sw t0, 36(sp)
j H
B8:
lw t0, 36(sp)
sw t0, 32(sp)
j B9
B7:
lw t0, 32(sp)
sw t0, 28(sp)
j B8
B6:
lw t0, 28(sp)
sw t0, 24(sp)
j B7
B5:
lw t0, 24(sp)
sw t0, 20(sp)
j B6
B4:
lw t0, 20(sp)
sw t0, 16(sp)
j B5
B3:
lw t0, 16(sp)
sw t0, 12(sp)
j B4
B2:
lw t0, 12(sp)
sw t0, 8(sp)
j B3
B1:
lw t0, 8(sp)
sw t0, 4(sp)
j B2
B0:
lw t0, 4(sp)
sw t0, 0(sp)
j B1
H:
beqz a0, END
j B0
END:
addi sp, sp, 40
li a7, 10
ecall
