main:
jal f0
jal f1
jal f2
jal f3
jal f4
jal f5
jal f6
jal f7
jal f8
jal f9
jal f10
jal f11
jal f12
jal f13
jal f14
jal f15
jal f16
jal f17
jal f18
jal f19
jal f20
jal f21
jal f22
jal f23
jal f24
jal f25
jal f26
jal f27
jal f28
jal f29
jal f30
jal f31
jal f32
jal f33
jal f34
jal f35
jal f36
jal f37
jal f38
jal f39
jal f40
jal f41
jal f42
jal f43
jal f44
jal f45
jal f46
jal f47
jal f48
jal f49
jal f50
jal f51
jal f52
jal f53
jal f54
jal f55
jal f56
jal f57
jal f58
jal f59
jal f60
jal f61
jal f62
jal f63
jal f64
jal f65
jal f66
jal f67
jal f68
jal f69
jal f70
jal f71
jal f72
jal f73
jal f74
jal f75
jal f76
jal f77
jal f78
jal f79
jal f80
jal f81
jal f82
jal f83
jal f84
jal f85
jal f86
jal f87
jal f88
jal f89
jal f90
jal f91
jal f92
jal f93
jal f94
jal f95
jal f96
jal f97
jal f98
jal f99
li a7, 10
ecall
f0:
 beqz a0, L0
 ret
L0:
f1:
 beqz a0, L1
 ret
L1:
f2:
 beqz a0, L2
 ret
L2:
f3:
 beqz a0, L3
 ret
L3:
f4:
 beqz a0, L4
 ret
L4:
f5:
 beqz a0, L5
 ret
L5:
f6:
 beqz a0, L6
 ret
L6:
f7:
 beqz a0, L7
 ret
L7:
f8:
 beqz a0, L8
 ret
L8:
f9:
 beqz a0, L9
 ret
L9:
f10:
 beqz a0, L10
 ret
L10:
f11:
 beqz a0, L11
 ret
L11:
f12:
 beqz a0, L12
 ret
L12:
f13:
 beqz a0, L13
 ret
L13:
f14:
 beqz a0, L14
 ret
L14:
f15:
 beqz a0, L15
 ret
L15:
f16:
 beqz a0, L16
 ret
L16:
f17:
 beqz a0, L17
 ret
L17:
f18:
 beqz a0, L18
 ret
L18:
f19:
 beqz a0, L19
 ret
L19:
f20:
 beqz a0, L20
 ret
L20:
f21:
 beqz a0, L21
 ret
L21:
f22:
 beqz a0, L22
 ret
L22:
f23:
 beqz a0, L23
 ret
L23:
f24:
 beqz a0, L24
 ret
L24:
f25:
 beqz a0, L25
 ret
L25:
f26:
 beqz a0, L26
 ret
L26:
f27:
 beqz a0, L27
 ret
L27:
f28:
 beqz a0, L28
 ret
L28:
f29:
 beqz a0, L29
 ret
L29:
f30:
 beqz a0, L30
 ret
L30:
f31:
 beqz a0, L31
 ret
L31:
f32:
 beqz a0, L32
 ret
L32:
f33:
 beqz a0, L33
 ret
L33:
f34:
 beqz a0, L34
 ret
L34:
f35:
 beqz a0, L35
 ret
L35:
f36:
 beqz a0, L36
 ret
L36:
f37:
 beqz a0, L37
 ret
L37:
f38:
 beqz a0, L38
 ret
L38:
f39:
 beqz a0, L39
 ret
L39:
f40:
 beqz a0, L40
 ret
L40:
f41:
 beqz a0, L41
 ret
L41:
f42:
 beqz a0, L42
 ret
L42:
f43:
 beqz a0, L43
 ret
L43:
f44:
 beqz a0, L44
 ret
L44:
f45:
 beqz a0, L45
 ret
L45:
f46:
 beqz a0, L46
 ret
L46:
f47:
 beqz a0, L47
 ret
L47:
f48:
 beqz a0, L48
 ret
L48:
f49:
 beqz a0, L49
 ret
L49:
f50:
 beqz a0, L50
 ret
L50:
f51:
 beqz a0, L51
 ret
L51:
f52:
 beqz a0, L52
 ret
L52:
f53:
 beqz a0, L53
 ret
L53:
f54:
 beqz a0, L54
 ret
L54:
f55:
 beqz a0, L55
 ret
L55:
f56:
 beqz a0, L56
 ret
L56:
f57:
 beqz a0, L57
 ret
L57:
f58:
 beqz a0, L58
 ret
L58:
f59:
 beqz a0, L59
 ret
L59:
f60:
 beqz a0, L60
 ret
L60:
f61:
 beqz a0, L61
 ret
L61:
f62:
 beqz a0, L62
 ret
L62:
f63:
 beqz a0, L63
 ret
L63:
f64:
 beqz a0, L64
 ret
L64:
f65:
 beqz a0, L65
 ret
L65:
f66:
 beqz a0, L66
 ret
L66:
f67:
 beqz a0, L67
 ret
L67:
f68:
 beqz a0, L68
 ret
L68:
f69:
 beqz a0, L69
 ret
L69:
f70:
 beqz a0, L70
 ret
L70:
f71:
 beqz a0, L71
 ret
L71:
f72:
 beqz a0, L72
 ret
L72:
f73:
 beqz a0, L73
 ret
L73:
f74:
 beqz a0, L74
 ret
L74:
f75:
 beqz a0, L75
 ret
L75:
f76:
 beqz a0, L76
 ret
L76:
f77:
 beqz a0, L77
 ret
L77:
f78:
 beqz a0, L78
 ret
L78:
f79:
 beqz a0, L79
 ret
L79:
f80:
 beqz a0, L80
 ret
L80:
f81:
 beqz a0, L81
 ret
L81:
f82:
 beqz a0, L82
 ret
L82:
f83:
 beqz a0, L83
 ret
L83:
f84:
 beqz a0, L84
 ret
L84:
f85:
 beqz a0, L85
 ret
L85:
f86:
 beqz a0, L86
 ret
L86:
f87:
 beqz a0, L87
 ret
L87:
f88:
 beqz a0, L88
 ret
L88:
f89:
 beqz a0, L89
 ret
L89:
f90:
 beqz a0, L90
 ret
L90:
f91:
 beqz a0, L91
 ret
L91:
f92:
 beqz a0, L92
 ret
L92:
f93:
 beqz a0, L93
 ret
L93:
f94:
 beqz a0, L94
 ret
L94:
f95:
 beqz a0, L95
 ret
L95:
f96:
 beqz a0, L96
 ret
L96:
f97:
 beqz a0, L97
 ret
L97:
f98:
 beqz a0, L98
 ret
L98:
f99:
 beqz a0, L99
 ret
L99:
ret
