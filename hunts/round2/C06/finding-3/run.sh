#!/bin/bash
# Finding 3: --yaml is cubic (and ~20-50x slower than every other mode) when nodes belong to many functions.
cd "$(dirname "$0")"
RVA=${RVA:-/tmp/wt4-C06/target/debug/rva}
[ -x "$RVA" ] || { echo "no binary $RVA"; exit 2; }
t() { local s e rc; s=$(date +%s.%N); timeout "$3" "$RVA" lint "$1" $2 >/dev/null 2>&1; rc=$?; e=$(date +%s.%N)
      if [ $rc -eq 124 ]; then echo TIMEOUT; else echo "$e - $s" | bc; fi; }
c=$(t ovl150.s --compact 20); d=$(t ovl150.s --debug 20); y1=$(t ovl100.s --yaml 20); y=$(t ovl150.s --yaml 25)
echo "ovl150.s (753 lines) --compact: $c s"
echo "ovl150.s (753 lines) --debug  : $d s"
echo "ovl100.s (503 lines) --yaml   : $y1 s"
echo "ovl150.s (753 lines) --yaml   : $y s (limit 25 s)"
bad=0
if [ "$y" = TIMEOUT ]; then bad=1; else awk -v a="$c" -v b="$y" 'BEGIN{ if (b > 8 && b/a > 5) exit 1 }' || bad=1; fi
if [ $bad -eq 1 ]; then echo "VIOLATION: the yaml dump dominates the run (cubic node lookups)"; exit 1; fi
echo ok; exit 0
