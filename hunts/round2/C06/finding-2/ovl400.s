main:
jal f0
jal f1
jal f2
jal f3
jal f4
jal f5
jal f6
jal f7
jal f8
jal f9
jal f10
jal f11
jal f12
jal f13
jal f14
jal f15
jal f16
jal f17
jal f18
jal f19
jal f20
jal f21
jal f22
jal f23
jal f24
jal f25
jal f26
jal f27
jal f28
jal f29
jal f30
jal f31
jal f32
jal f33
jal f34
jal f35
jal f36
jal f37
jal f38
jal f39
jal f40
jal f41
jal f42
jal f43
jal f44
jal f45
jal f46
jal f47
jal f48
jal f49
jal f50
jal f51
jal f52
jal f53
jal f54
jal f55
jal f56
jal f57
jal f58
jal f59
jal f60
jal f61
jal f62
jal f63
jal f64
jal f65
jal f66
jal f67
jal f68
jal f69
jal f70
jal f71
jal f72
jal f73
jal f74
jal f75
jal f76
jal f77
jal f78
jal f79
jal f80
jal f81
jal f82
jal f83
jal f84
jal f85
jal f86
jal f87
jal f88
jal f89
jal f90
jal f91
jal f92
jal f93
jal f94
jal f95
jal f96
jal f97
jal f98
jal f99
jal f100
jal f101
jal f102
jal f103
jal f104
jal f105
jal f106
jal f107
jal f108
jal f109
jal f110
jal f111
jal f112
jal f113
jal f114
jal f115
jal f116
jal f117
jal f118
jal f119
jal f120
jal f121
jal f122
jal f123
jal f124
jal f125
jal f126
jal f127
jal f128
jal f129
jal f130
jal f131
jal f132
jal f133
jal f134
jal f135
jal f136
jal f137
jal f138
jal f139
jal f140
jal f141
jal f142
jal f143
jal f144
jal f145
jal f146
jal f147
jal f148
jal f149
jal f150
jal f151
jal f152
jal f153
jal f154
jal f155
jal f156
jal f157
jal f158
jal f159
jal f160
jal f161
jal f162
jal f163
jal f164
jal f165
jal f166
jal f167
jal f168
jal f169
jal f170
jal f171
jal f172
jal f173
jal f174
jal f175
jal f176
jal f177
jal f178
jal f179
jal f180
jal f181
jal f182
jal f183
jal f184
jal f185
jal f186
jal f187
jal f188
jal f189
jal f190
jal f191
jal f192
jal f193
jal f194
jal f195
jal f196
jal f197
jal f198
jal f199
jal f200
jal f201
jal f202
jal f203
jal f204
jal f205
jal f206
jal f207
jal f208
jal f209
jal f210
jal f211
jal f212
jal f213
jal f214
jal f215
jal f216
jal f217
jal f218
jal f219
jal f220
jal f221
jal f222
jal f223
jal f224
jal f225
jal f226
jal f227
jal f228
jal f229
jal f230
jal f231
jal f232
jal f233
jal f234
jal f235
jal f236
jal f237
jal f238
jal f239
jal f240
jal f241
jal f242
jal f243
jal f244
jal f245
jal f246
jal f247
jal f248
jal f249
jal f250
jal f251
jal f252
jal f253
jal f254
jal f255
jal f256
jal f257
jal f258
jal f259
jal f260
jal f261
jal f262
jal f263
jal f264
jal f265
jal f266
jal f267
jal f268
jal f269
jal f270
jal f271
jal f272
jal f273
jal f274
jal f275
jal f276
jal f277
jal f278
jal f279
jal f280
jal f281
jal f282
jal f283
jal f284
jal f285
jal f286
jal f287
jal f288
jal f289
jal f290
jal f291
jal f292
jal f293
jal f294
jal f295
jal f296
jal f297
jal f298
jal f299
jal f300
jal f301
jal f302
jal f303
jal f304
jal f305
jal f306
jal f307
jal f308
jal f309
jal f310
jal f311
jal f312
jal f313
jal f314
jal f315
jal f316
jal f317
jal f318
jal f319
jal f320
jal f321
jal f322
jal f323
jal f324
jal f325
jal f326
jal f327
jal f328
jal f329
jal f330
jal f331
jal f332
jal f333
jal f334
jal f335
jal f336
jal f337
jal f338
jal f339
jal f340
jal f341
jal f342
jal f343
jal f344
jal f345
jal f346
jal f347
jal f348
jal f349
jal f350
jal f351
jal f352
jal f353
jal f354
jal f355
jal f356
jal f357
jal f358
jal f359
jal f360
jal f361
jal f362
jal f363
jal f364
jal f365
jal f366
jal f367
jal f368
jal f369
jal f370
jal f371
jal f372
jal f373
jal f374
jal f375
jal f376
jal f377
jal f378
jal f379
jal f380
jal f381
jal f382
jal f383
jal f384
jal f385
jal f386
jal f387
jal f388
jal f389
jal f390
jal f391
jal f392
jal f393
jal f394
jal f395
jal f396
jal f397
jal f398
jal f399
li a7, 10
ecall
f0:
 beqz a0, L0
 ret
L0:
f1:
 beqz a0, L1
 ret
L1:
f2:
 beqz a0, L2
 ret
L2:
f3:
 beqz a0, L3
 ret
L3:
f4:
 beqz a0, L4
 ret
L4:
f5:
 beqz a0, L5
 ret
L5:
f6:
 beqz a0, L6
 ret
L6:
f7:
 beqz a0, L7
 ret
L7:
f8:
 beqz a0, L8
 ret
L8:
f9:
 beqz a0, L9
 ret
L9:
f10:
 beqz a0, L10
 ret
L10:
f11:
 beqz a0, L11
 ret
L11:
f12:
 beqz a0, L12
 ret
L12:
f13:
 beqz a0, L13
 ret
L13:
f14:
 beqz a0, L14
 ret
L14:
f15:
 beqz a0, L15
 ret
L15:
f16:
 beqz a0, L16
 ret
L16:
f17:
 beqz a0, L17
 ret
L17:
f18:
 beqz a0, L18
 ret
L18:
f19:
 beqz a0, L19
 ret
L19:
f20:
 beqz a0, L20
 ret
L20:
f21:
 beqz a0, L21
 ret
L21:
f22:
 beqz a0, L22
 ret
L22:
f23:
 beqz a0, L23
 ret
L23:
f24:
 beqz a0, L24
 ret
L24:
f25:
 beqz a0, L25
 ret
L25:
f26:
 beqz a0, L26
 ret
L26:
f27:
 beqz a0, L27
 ret
L27:
f28:
 beqz a0, L28
 ret
L28:
f29:
 beqz a0, L29
 ret
L29:
f30:
 beqz a0, L30
 ret
L30:
f31:
 beqz a0, L31
 ret
L31:
f32:
 beqz a0, L32
 ret
L32:
f33:
 beqz a0, L33
 ret
L33:
f34:
 beqz a0, L34
 ret
L34:
f35:
 beqz a0, L35
 ret
L35:
f36:
 beqz a0, L36
 ret
L36:
f37:
 beqz a0, L37
 ret
L37:
f38:
 beqz a0, L38
 ret
L38:
f39:
 beqz a0, L39
 ret
L39:
f40:
 beqz a0, L40
 ret
L40:
f41:
 beqz a0, L41
 ret
L41:
f42:
 beqz a0, L42
 ret
L42:
f43:
 beqz a0, L43
 ret
L43:
f44:
 beqz a0, L44
 ret
L44:
f45:
 beqz a0, L45
 ret
L45:
f46:
 beqz a0, L46
 ret
L46:
f47:
 beqz a0, L47
 ret
L47:
f48:
 beqz a0, L48
 ret
L48:
f49:
 beqz a0, L49
 ret
L49:
f50:
 beqz a0, L50
 ret
L50:
f51:
 beqz a0, L51
 ret
L51:
f52:
 beqz a0, L52
 ret
L52:
f53:
 beqz a0, L53
 ret
L53:
f54:
 beqz a0, L54
 ret
L54:
f55:
 beqz a0, L55
 ret
L55:
f56:
 beqz a0, L56
 ret
L56:
f57:
 beqz a0, L57
 ret
L57:
f58:
 beqz a0, L58
 ret
L58:
f59:
 beqz a0, L59
 ret
L59:
f60:
 beqz a0, L60
 ret
L60:
f61:
 beqz a0, L61
 ret
L61:
f62:
 beqz a0, L62
 ret
L62:
f63:
 beqz a0, L63
 ret
L63:
f64:
 beqz a0, L64
 ret
L64:
f65:
 beqz a0, L65
 ret
L65:
f66:
 beqz a0, L66
 ret
L66:
f67:
 beqz a0, L67
 ret
L67:
f68:
 beqz a0, L68
 ret
L68:
f69:
 beqz a0, L69
 ret
L69:
f70:
 beqz a0, L70
 ret
L70:
f71:
 beqz a0, L71
 ret
L71:
f72:
 beqz a0, L72
 ret
L72:
f73:
 beqz a0, L73
 ret
L73:
f74:
 beqz a0, L74
 ret
L74:
f75:
 beqz a0, L75
 ret
L75:
f76:
 beqz a0, L76
 ret
L76:
f77:
 beqz a0, L77
 ret
L77:
f78:
 beqz a0, L78
 ret
L78:
f79:
 beqz a0, L79
 ret
L79:
f80:
 beqz a0, L80
 ret
L80:
f81:
 beqz a0, L81
 ret
L81:
f82:
 beqz a0, L82
 ret
L82:
f83:
 beqz a0, L83
 ret
L83:
f84:
 beqz a0, L84
 ret
L84:
f85:
 beqz a0, L85
 ret
L85:
f86:
 beqz a0, L86
 ret
L86:
f87:
 beqz a0, L87
 ret
L87:
f88:
 beqz a0, L88
 ret
L88:
f89:
 beqz a0, L89
 ret
L89:
f90:
 beqz a0, L90
 ret
L90:
f91:
 beqz a0, L91
 ret
L91:
f92:
 beqz a0, L92
 ret
L92:
f93:
 beqz a0, L93
 ret
L93:
f94:
 beqz a0, L94
 ret
L94:
f95:
 beqz a0, L95
 ret
L95:
f96:
 beqz a0, L96
 ret
L96:
f97:
 beqz a0, L97
 ret
L97:
f98:
 beqz a0, L98
 ret
L98:
f99:
 beqz a0, L99
 ret
L99:
f100:
 beqz a0, L100
 ret
L100:
f101:
 beqz a0, L101
 ret
L101:
f102:
 beqz a0, L102
 ret
L102:
f103:
 beqz a0, L103
 ret
L103:
f104:
 beqz a0, L104
 ret
L104:
f105:
 beqz a0, L105
 ret
L105:
f106:
 beqz a0, L106
 ret
L106:
f107:
 beqz a0, L107
 ret
L107:
f108:
 beqz a0, L108
 ret
L108:
f109:
 beqz a0, L109
 ret
L109:
f110:
 beqz a0, L110
 ret
L110:
f111:
 beqz a0, L111
 ret
L111:
f112:
 beqz a0, L112
 ret
L112:
f113:
 beqz a0, L113
 ret
L113:
f114:
 beqz a0, L114
 ret
L114:
f115:
 beqz a0, L115
 ret
L115:
f116:
 beqz a0, L116
 ret
L116:
f117:
 beqz a0, L117
 ret
L117:
f118:
 beqz a0, L118
 ret
L118:
f119:
 beqz a0, L119
 ret
L119:
f120:
 beqz a0, L120
 ret
L120:
f121:
 beqz a0, L121
 ret
L121:
f122:
 beqz a0, L122
 ret
L122:
f123:
 beqz a0, L123
 ret
L123:
f124:
 beqz a0, L124
 ret
L124:
f125:
 beqz a0, L125
 ret
L125:
f126:
 beqz a0, L126
 ret
L126:
f127:
 beqz a0, L127
 ret
L127:
f128:
 beqz a0, L128
 ret
L128:
f129:
 beqz a0, L129
 ret
L129:
f130:
 beqz a0, L130
 ret
L130:
f131:
 beqz a0, L131
 ret
L131:
f132:
 beqz a0, L132
 ret
L132:
f133:
 beqz a0, L133
 ret
L133:
f134:
 beqz a0, L134
 ret
L134:
f135:
 beqz a0, L135
 ret
L135:
f136:
 beqz a0, L136
 ret
L136:
f137:
 beqz a0, L137
 ret
L137:
f138:
 beqz a0, L138
 ret
L138:
f139:
 beqz a0, L139
 ret
L139:
f140:
 beqz a0, L140
 ret
L140:
f141:
 beqz a0, L141
 ret
L141:
f142:
 beqz a0, L142
 ret
L142:
f143:
 beqz a0, L143
 ret
L143:
f144:
 beqz a0, L144
 ret
L144:
f145:
 beqz a0, L145
 ret
L145:
f146:
 beqz a0, L146
 ret
L146:
f147:
 beqz a0, L147
 ret
L147:
f148:
 beqz a0, L148
 ret
L148:
f149:
 beqz a0, L149
 ret
L149:
f150:
 beqz a0, L150
 ret
L150:
f151:
 beqz a0, L151
 ret
L151:
f152:
 beqz a0, L152
 ret
L152:
f153:
 beqz a0, L153
 ret
L153:
f154:
 beqz a0, L154
 ret
L154:
f155:
 beqz a0, L155
 ret
L155:
f156:
 beqz a0, L156
 ret
L156:
f157:
 beqz a0, L157
 ret
L157:
f158:
 beqz a0, L158
 ret
L158:
f159:
 beqz a0, L159
 ret
L159:
f160:
 beqz a0, L160
 ret
L160:
f161:
 beqz a0, L161
 ret
L161:
f162:
 beqz a0, L162
 ret
L162:
f163:
 beqz a0, L163
 ret
L163:
f164:
 beqz a0, L164
 ret
L164:
f165:
 beqz a0, L165
 ret
L165:
f166:
 beqz a0, L166
 ret
L166:
f167:
 beqz a0, L167
 ret
L167:
f168:
 beqz a0, L168
 ret
L168:
f169:
 beqz a0, L169
 ret
L169:
f170:
 beqz a0, L170
 ret
L170:
f171:
 beqz a0, L171
 ret
L171:
f172:
 beqz a0, L172
 ret
L172:
f173:
 beqz a0, L173
 ret
L173:
f174:
 beqz a0, L174
 ret
L174:
f175:
 beqz a0, L175
 ret
L175:
f176:
 beqz a0, L176
 ret
L176:
f177:
 beqz a0, L177
 ret
L177:
f178:
 beqz a0, L178
 ret
L178:
f179:
 beqz a0, L179
 ret
L179:
f180:
 beqz a0, L180
 ret
L180:
f181:
 beqz a0, L181
 ret
L181:
f182:
 beqz a0, L182
 ret
L182:
f183:
 beqz a0, L183
 ret
L183:
f184:
 beqz a0, L184
 ret
L184:
f185:
 beqz a0, L185
 ret
L185:
f186:
 beqz a0, L186
 ret
L186:
f187:
 beqz a0, L187
 ret
L187:
f188:
 beqz a0, L188
 ret
L188:
f189:
 beqz a0, L189
 ret
L189:
f190:
 beqz a0, L190
 ret
L190:
f191:
 beqz a0, L191
 ret
L191:
f192:
 beqz a0, L192
 ret
L192:
f193:
 beqz a0, L193
 ret
L193:
f194:
 beqz a0, L194
 ret
L194:
f195:
 beqz a0, L195
 ret
L195:
f196:
 beqz a0, L196
 ret
L196:
f197:
 beqz a0, L197
 ret
L197:
f198:
 beqz a0, L198
 ret
L198:
f199:
 beqz a0, L199
 ret
L199:
f200:
 beqz a0, L200
 ret
L200:
f201:
 beqz a0, L201
 ret
L201:
f202:
 beqz a0, L202
 ret
L202:
f203:
 beqz a0, L203
 ret
L203:
f204:
 beqz a0, L204
 ret
L204:
f205:
 beqz a0, L205
 ret
L205:
f206:
 beqz a0, L206
 ret
L206:
f207:
 beqz a0, L207
 ret
L207:
f208:
 beqz a0, L208
 ret
L208:
f209:
 beqz a0, L209
 ret
L209:
f210:
 beqz a0, L210
 ret
L210:
f211:
 beqz a0, L211
 ret
L211:
f212:
 beqz a0, L212
 ret
L212:
f213:
 beqz a0, L213
 ret
L213:
f214:
 beqz a0, L214
 ret
L214:
f215:
 beqz a0, L215
 ret
L215:
f216:
 beqz a0, L216
 ret
L216:
f217:
 beqz a0, L217
 ret
L217:
f218:
 beqz a0, L218
 ret
L218:
f219:
 beqz a0, L219
 ret
L219:
f220:
 beqz a0, L220
 ret
L220:
f221:
 beqz a0, L221
 ret
L221:
f222:
 beqz a0, L222
 ret
L222:
f223:
 beqz a0, L223
 ret
L223:
f224:
 beqz a0, L224
 ret
L224:
f225:
 beqz a0, L225
 ret
L225:
f226:
 beqz a0, L226
 ret
L226:
f227:
 beqz a0, L227
 ret
L227:
f228:
 beqz a0, L228
 ret
L228:
f229:
 beqz a0, L229
 ret
L229:
f230:
 beqz a0, L230
 ret
L230:
f231:
 beqz a0, L231
 ret
L231:
f232:
 beqz a0, L232
 ret
L232:
f233:
 beqz a0, L233
 ret
L233:
f234:
 beqz a0, L234
 ret
L234:
f235:
 beqz a0, L235
 ret
L235:
f236:
 beqz a0, L236
 ret
L236:
f237:
 beqz a0, L237
 ret
L237:
f238:
 beqz a0, L238
 ret
L238:
f239:
 beqz a0, L239
 ret
L239:
f240:
 beqz a0, L240
 ret
L240:
f241:
 beqz a0, L241
 ret
L241:
f242:
 beqz a0, L242
 ret
L242:
f243:
 beqz a0, L243
 ret
L243:
f244:
 beqz a0, L244
 ret
L244:
f245:
 beqz a0, L245
 ret
L245:
f246:
 beqz a0, L246
 ret
L246:
f247:
 beqz a0, L247
 ret
L247:
f248:
 beqz a0, L248
 ret
L248:
f249:
 beqz a0, L249
 ret
L249:
f250:
 beqz a0, L250
 ret
L250:
f251:
 beqz a0, L251
 ret
L251:
f252:
 beqz a0, L252
 ret
L252:
f253:
 beqz a0, L253
 ret
L253:
f254:
 beqz a0, L254
 ret
L254:
f255:
 beqz a0, L255
 ret
L255:
f256:
 beqz a0, L256
 ret
L256:
f257:
 beqz a0, L257
 ret
L257:
f258:
 beqz a0, L258
 ret
L258:
f259:
 beqz a0, L259
 ret
L259:
f260:
 beqz a0, L260
 ret
L260:
f261:
 beqz a0, L261
 ret
L261:
f262:
 beqz a0, L262
 ret
L262:
f263:
 beqz a0, L263
 ret
L263:
f264:
 beqz a0, L264
 ret
L264:
f265:
 beqz a0, L265
 ret
L265:
f266:
 beqz a0, L266
 ret
L266:
f267:
 beqz a0, L267
 ret
L267:
f268:
 beqz a0, L268
 ret
L268:
f269:
 beqz a0, L269
 ret
L269:
f270:
 beqz a0, L270
 ret
L270:
f271:
 beqz a0, L271
 ret
L271:
f272:
 beqz a0, L272
 ret
L272:
f273:
 beqz a0, L273
 ret
L273:
f274:
 beqz a0, L274
 ret
L274:
f275:
 beqz a0, L275
 ret
L275:
f276:
 beqz a0, L276
 ret
L276:
f277:
 beqz a0, L277
 ret
L277:
f278:
 beqz a0, L278
 ret
L278:
f279:
 beqz a0, L279
 ret
L279:
f280:
 beqz a0, L280
 ret
L280:
f281:
 beqz a0, L281
 ret
L281:
f282:
 beqz a0, L282
 ret
L282:
f283:
 beqz a0, L283
 ret
L283:
f284:
 beqz a0, L284
 ret
L284:
f285:
 beqz a0, L285
 ret
L285:
f286:
 beqz a0, L286
 ret
L286:
f287:
 beqz a0, L287
 ret
L287:
f288:
 beqz a0, L288
 ret
L288:
f289:
 beqz a0, L289
 ret
L289:
f290:
 beqz a0, L290
 ret
L290:
f291:
 beqz a0, L291
 ret
L291:
f292:
 beqz a0, L292
 ret
L292:
f293:
 beqz a0, L293
 ret
L293:
f294:
 beqz a0, L294
 ret
L294:
f295:
 beqz a0, L295
 ret
L295:
f296:
 beqz a0, L296
 ret
L296:
f297:
 beqz a0, L297
 ret
L297:
f298:
 beqz a0, L298
 ret
L298:
f299:
 beqz a0, L299
 ret
L299:
f300:
 beqz a0, L300
 ret
L300:
f301:
 beqz a0, L301
 ret
L301:
f302:
 beqz a0, L302
 ret
L302:
f303:
 beqz a0, L303
 ret
L303:
f304:
 beqz a0, L304
 ret
L304:
f305:
 beqz a0, L305
 ret
L305:
f306:
 beqz a0, L306
 ret
L306:
f307:
 beqz a0, L307
 ret
L307:
f308:
 beqz a0, L308
 ret
L308:
f309:
 beqz a0, L309
 ret
L309:
f310:
 beqz a0, L310
 ret
L310:
f311:
 beqz a0, L311
 ret
L311:
f312:
 beqz a0, L312
 ret
L312:
f313:
 beqz a0, L313
 ret
L313:
f314:
 beqz a0, L314
 ret
L314:
f315:
 beqz a0, L315
 ret
L315:
f316:
 beqz a0, L316
 ret
L316:
f317:
 beqz a0, L317
 ret
L317:
f318:
 beqz a0, L318
 ret
L318:
f319:
 beqz a0, L319
 ret
L319:
f320:
 beqz a0, L320
 ret
L320:
f321:
 beqz a0, L321
 ret
L321:
f322:
 beqz a0, L322
 ret
L322:
f323:
 beqz a0, L323
 ret
L323:
f324:
 beqz a0, L324
 ret
L324:
f325:
 beqz a0, L325
 ret
L325:
f326:
 beqz a0, L326
 ret
L326:
f327:
 beqz a0, L327
 ret
L327:
f328:
 beqz a0, L328
 ret
L328:
f329:
 beqz a0, L329
 ret
L329:
f330:
 beqz a0, L330
 ret
L330:
f331:
 beqz a0, L331
 ret
L331:
f332:
 beqz a0, L332
 ret
L332:
f333:
 beqz a0, L333
 ret
L333:
f334:
 beqz a0, L334
 ret
L334:
f335:
 beqz a0, L335
 ret
L335:
f336:
 beqz a0, L336
 ret
L336:
f337:
 beqz a0, L337
 ret
L337:
f338:
 beqz a0, L338
 ret
L338:
f339:
 beqz a0, L339
 ret
L339:
f340:
 beqz a0, L340
 ret
L340:
f341:
 beqz a0, L341
 ret
L341:
f342:
 beqz a0, L342
 ret
L342:
f343:
 beqz a0, L343
 ret
L343:
f344:
 beqz a0, L344
 ret
L344:
f345:
 beqz a0, L345
 ret
L345:
f346:
 beqz a0, L346
 ret
L346:
f347:
 beqz a0, L347
 ret
L347:
f348:
 beqz a0, L348
 ret
L348:
f349:
 beqz a0, L349
 ret
L349:
f350:
 beqz a0, L350
 ret
L350:
f351:
 beqz a0, L351
 ret
L351:
f352:
 beqz a0, L352
 ret
L352:
f353:
 beqz a0, L353
 ret
L353:
f354:
 beqz a0, L354
 ret
L354:
f355:
 beqz a0, L355
 ret
L355:
f356:
 beqz a0, L356
 ret
L356:
f357:
 beqz a0, L357
 ret
L357:
f358:
 beqz a0, L358
 ret
L358:
f359:
 beqz a0, L359
 ret
L359:
f360:
 beqz a0, L360
 ret
L360:
f361:
 beqz a0, L361
 ret
L361:
f362:
 beqz a0, L362
 ret
L362:
f363:
 beqz a0, L363
 ret
L363:
f364:
 beqz a0, L364
 ret
L364:
f365:
 beqz a0, L365
 ret
L365:
f366:
 beqz a0, L366
 ret
L366:
f367:
 beqz a0, L367
 ret
L367:
f368:
 beqz a0, L368
 ret
L368:
f369:
 beqz a0, L369
 ret
L369:
f370:
 beqz a0, L370
 ret
L370:
f371:
 beqz a0, L371
 ret
L371:
f372:
 beqz a0, L372
 ret
L372:
f373:
 beqz a0, L373
 ret
L373:
f374:
 beqz a0, L374
 ret
L374:
f375:
 beqz a0, L375
 ret
L375:
f376:
 beqz a0, L376
 ret
L376:
f377:
 beqz a0, L377
 ret
L377:
f378:
 beqz a0, L378
 ret
L378:
f379:
 beqz a0, L379
 ret
L379:
f380:
 beqz a0, L380
 ret
L380:
f381:
 beqz a0, L381
 ret
L381:
f382:
 beqz a0, L382
 ret
L382:
f383:
 beqz a0, L383
 ret
L383:
f384:
 beqz a0, L384
 ret
L384:
f385:
 beqz a0, L385
 ret
L385:
f386:
 beqz a0, L386
 ret
L386:
f387:
 beqz a0, L387
 ret
L387:
f388:
 beqz a0, L388
 ret
L388:
f389:
 beqz a0, L389
 ret
L389:
f390:
 beqz a0, L390
 ret
L390:
f391:
 beqz a0, L391
 ret
L391:
f392:
 beqz a0, L392
 ret
L392:
f393:
 beqz a0, L393
 ret
L393:
f394:
 beqz a0, L394
 ret
L394:
f395:
 beqz a0, L395
 ret
L395:
f396:
 beqz a0, L396
 ret
L396:
f397:
 beqz a0, L397
 ret
L397:
f398:
 beqz a0, L398
 ret
L398:
f399:
 beqz a0, L399
 ret
L399:
ret
