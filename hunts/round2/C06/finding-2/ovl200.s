main:
jal f0
jal f1
jal f2
jal f3
jal f4
jal f5
jal f6
jal f7
jal f8
jal f9
jal f10
jal f11
jal f12
jal f13
jal f14
jal f15
jal f16
jal f17
jal f18
jal f19
jal f20
jal f21
jal f22
jal f23
jal f24
jal f25
jal f26
jal f27
jal f28
jal f29
jal f30
jal f31
jal f32
jal f33
jal f34
jal f35
jal f36
jal f37
jal f38
jal f39
jal f40
jal f41
jal f42
jal f43
jal f44
jal f45
jal f46
jal f47
jal f48
jal f49
jal f50
jal f51
jal f52
jal f53
jal f54
jal f55
jal f56
jal f57
jal f58
jal f59
jal f60
jal f61
jal f62
jal f63
jal f64
jal f65
jal f66
jal f67
jal f68
jal f69
jal f70
jal f71
jal f72
jal f73
jal f74
jal f75
jal f76
jal f77
jal f78
jal f79
jal f80
jal f81
jal f82
jal f83
jal f84
jal f85
jal f86
jal f87
jal f88
jal f89
jal f90
jal f91
jal f92
jal f93
jal f94
jal f95
jal f96
jal f97
jal f98
jal f99
jal f100
jal f101
jal f102
jal f103
jal f104
jal f105
jal f106
jal f107
jal f108
jal f109
jal f110
jal f111
jal f112
jal f113
jal f114
jal f115
jal f116
jal f117
jal f118
jal f119
jal f120
jal f121
jal f122
jal f123
jal f124
jal f125
jal f126
jal f127
jal f128
jal f129
jal f130
jal f131
jal f132
jal f133
jal f134
jal f135
jal f136
jal f137
jal f138
jal f139
jal f140
jal f141
jal f142
jal f143
jal f144
jal f145
jal f146
jal f147
jal f148
jal f149
jal f150
jal f151
jal f152
jal f153
jal f154
jal f155
jal f156
jal f157
jal f158
jal f159
jal f160
jal f161
jal f162
jal f163
jal f164
jal f165
jal f166
jal f167
jal f168
jal f169
jal f170
jal f171
jal f172
jal f173
jal f174
jal f175
jal f176
jal f177
jal f178
jal f179
jal f180
jal f181
jal f182
jal f183
jal f184
jal f185
jal f186
jal f187
jal f188
jal f189
jal f190
jal f191
jal f192
jal f193
jal f194
jal f195
jal f196
jal f197
jal f198
jal f199
li a7, 10
ecall
f0:
 beqz a0, L0
 ret
L0:
f1:
 beqz a0, L1
 ret
L1:
f2:
 beqz a0, L2
 ret
L2:
f3:
 beqz a0, L3
 ret
L3:
f4:
 beqz a0, L4
 ret
L4:
f5:
 beqz a0, L5
 ret
L5:
f6:
 beqz a0, L6
 ret
L6:
f7:
 beqz a0, L7
 ret
L7:
f8:
 beqz a0, L8
 ret
L8:
f9:
 beqz a0, L9
 ret
L9:
f10:
 beqz a0, L10
 ret
L10:
f11:
 beqz a0, L11
 ret
L11:
f12:
 beqz a0, L12
 ret
L12:
f13:
 beqz a0, L13
 ret
L13:
f14:
 beqz a0, L14
 ret
L14:
f15:
 beqz a0, L15
 ret
L15:
f16:
 beqz a0, L16
 ret
L16:
f17:
 beqz a0, L17
 ret
L17:
f18:
 beqz a0, L18
 ret
L18:
f19:
 beqz a0, L19
 ret
L19:
f20:
 beqz a0, L20
 ret
L20:
f21:
 beqz a0, L21
 ret
L21:
f22:
 beqz a0, L22
 ret
L22:
f23:
 beqz a0, L23
 ret
L23:
f24:
 beqz a0, L24
 ret
L24:
f25:
 beqz a0, L25
 ret
L25:
f26:
 beqz a0, L26
 ret
L26:
f27:
 beqz a0, L27
 ret
L27:
f28:
 beqz a0, L28
 ret
L28:
f29:
 beqz a0, L29
 ret
L29:
f30:
 beqz a0, L30
 ret
L30:
f31:
 beqz a0, L31
 ret
L31:
f32:
 beqz a0, L32
 ret
L32:
f33:
 beqz a0, L33
 ret
L33:
f34:
 beqz a0, L34
 ret
L34:
f35:
 beqz a0, L35
 ret
L35:
f36:
 beqz a0, L36
 ret
L36:
f37:
 beqz a0, L37
 ret
L37:
f38:
 beqz a0, L38
 ret
L38:
f39:
 beqz a0, L39
 ret
L39:
f40:
 beqz a0, L40
 ret
L40:
f41:
 beqz a0, L41
 ret
L41:
f42:
 beqz a0, L42
 ret
L42:
f43:
 beqz a0, L43
 ret
L43:
f44:
 beqz a0, L44
 ret
L44:
f45:
 beqz a0, L45
 ret
L45:
f46:
 beqz a0, L46
 ret
L46:
f47:
 beqz a0, L47
 ret
L47:
f48:
 beqz a0, L48
 ret
L48:
f49:
 beqz a0, L49
 ret
L49:
f50:
 beqz a0, L50
 ret
L50:
f51:
 beqz a0, L51
 ret
L51:
f52:
 beqz a0, L52
 ret
L52:
f53:
 beqz a0, L53
 ret
L53:
f54:
 beqz a0, L54
 ret
L54:
f55:
 beqz a0, L55
 ret
L55:
f56:
 beqz a0, L56
 ret
L56:
f57:
 beqz a0, L57
 ret
L57:
f58:
 beqz a0, L58
 ret
L58:
f59:
 beqz a0, L59
 ret
L59:
f60:
 beqz a0, L60
 ret
L60:
f61:
 beqz a0, L61
 ret
L61:
f62:
 beqz a0, L62
 ret
L62:
f63:
 beqz a0, L63
 ret
L63:
f64:
 beqz a0, L64
 ret
L64:
f65:
 beqz a0, L65
 ret
L65:
f66:
 beqz a0, L66
 ret
L66:
f67:
 beqz a0, L67
 ret
L67:
f68:
 beqz a0, L68
 ret
L68:
f69:
 beqz a0, L69
 ret
L69:
f70:
 beqz a0, L70
 ret
L70:
f71:
 beqz a0, L71
 ret
L71:
f72:
 beqz a0, L72
 ret
L72:
f73:
 beqz a0, L73
 ret
L73:
f74:
 beqz a0, L74
 ret
L74:
f75:
 beqz a0, L75
 ret
L75:
f76:
 beqz a0, L76
 ret
L76:
f77:
 beqz a0, L77
 ret
L77:
f78:
 beqz a0, L78
 ret
L78:
f79:
 beqz a0, L79
 ret
L79:
f80:
 beqz a0, L80
 ret
L80:
f81:
 beqz a0, L81
 ret
L81:
f82:
 beqz a0, L82
 ret
L82:
f83:
 beqz a0, L83
 ret
L83:
f84:
 beqz a0, L84
 ret
L84:
f85:
 beqz a0, L85
 ret
L85:
f86:
 beqz a0, L86
 ret
L86:
f87:
 beqz a0, L87
 ret
L87:
f88:
 beqz a0, L88
 ret
L88:
f89:
 beqz a0, L89
 ret
L89:
f90:
 beqz a0, L90
 ret
L90:
f91:
 beqz a0, L91
 ret
L91:
f92:
 beqz a0, L92
 ret
L92:
f93:
 beqz a0, L93
 ret
L93:
f94:
 beqz a0, L94
 ret
L94:
f95:
 beqz a0, L95
 ret
L95:
f96:
 beqz a0, L96
 ret
L96:
f97:
 beqz a0, L97
 ret
L97:
f98:
 beqz a0, L98
 ret
L98:
f99:
 beqz a0, L99
 ret
L99:
f100:
 beqz a0, L100
 ret
L100:
f101:
 beqz a0, L101
 ret
L101:
f102:
 beqz a0, L102
 ret
L102:
f103:
 beqz a0, L103
 ret
L103:
f104:
 beqz a0, L104
 ret
L104:
f105:
 beqz a0, L105
 ret
L105:
f106:
 beqz a0, L106
 ret
L106:
f107:
 beqz a0, L107
 ret
L107:
f108:
 beqz a0, L108
 ret
L108:
f109:
 beqz a0, L109
 ret
L109:
f110:
 beqz a0, L110
 ret
L110:
f111:
 beqz a0, L111
 ret
L111:
f112:
 beqz a0, L112
 ret
L112:
f113:
 beqz a0, L113
 ret
L113:
f114:
 beqz a0, L114
 ret
L114:
f115:
 beqz a0, L115
 ret
L115:
f116:
 beqz a0, L116
 ret
L116:
f117:
 beqz a0, L117
 ret
L117:
f118:
 beqz a0, L118
 ret
L118:
f119:
 beqz a0, L119
 ret
L119:
f120:
 beqz a0, L120
 ret
L120:
f121:
 beqz a0, L121
 ret
L121:
f122:
 beqz a0, L122
 ret
L122:
f123:
 beqz a0, L123
 ret
L123:
f124:
 beqz a0, L124
 ret
L124:
f125:
 beqz a0, L125
 ret
L125:
f126:
 beqz a0, L126
 ret
L126:
f127:
 beqz a0, L127
 ret
L127:
f128:
 beqz a0, L128
 ret
L128:
f129:
 beqz a0, L129
 ret
L129:
f130:
 beqz a0, L130
 ret
L130:
f131:
 beqz a0, L131
 ret
L131:
f132:
 beqz a0, L132
 ret
L132:
f133:
 beqz a0, L133
 ret
L133:
f134:
 beqz a0, L134
 ret
L134:
f135:
 beqz a0, L135
 ret
L135:
f136:
 beqz a0, L136
 ret
L136:
f137:
 beqz a0, L137
 ret
L137:
f138:
 beqz a0, L138
 ret
L138:
f139:
 beqz a0, L139
 ret
L139:
f140:
 beqz a0, L140
 ret
L140:
f141:
 beqz a0, L141
 ret
L141:
f142:
 beqz a0, L142
 ret
L142:
f143:
 beqz a0, L143
 ret
L143:
f144:
 beqz a0, L144
 ret
L144:
f145:
 beqz a0, L145
 ret
L145:
f146:
 beqz a0, L146
 ret
L146:
f147:
 beqz a0, L147
 ret
L147:
f148:
 beqz a0, L148
 ret
L148:
f149:
 beqz a0, L149
 ret
L149:
f150:
 beqz a0, L150
 ret
L150:
f151:
 beqz a0, L151
 ret
L151:
f152:
 beqz a0, L152
 ret
L152:
f153:
 beqz a0, L153
 ret
L153:
f154:
 beqz a0, L154
 ret
L154:
f155:
 beqz a0, L155
 ret
L155:
f156:
 beqz a0, L156
 ret
L156:
f157:
 beqz a0, L157
 ret
L157:
f158:
 beqz a0, L158
 ret
L158:
f159:
 beqz a0, L159
 ret
L159:
f160:
 beqz a0, L160
 ret
L160:
f161:
 beqz a0, L161
 ret
L161:
f162:
 beqz a0, L162
 ret
L162:
f163:
 beqz a0, L163
 ret
L163:
f164:
 beqz a0, L164
 ret
L164:
f165:
 beqz a0, L165
 ret
L165:
f166:
 beqz a0, L166
 ret
L166:
f167:
 beqz a0, L167
 ret
L167:
f168:
 beqz a0, L168
 ret
L168:
f169:
 beqz a0, L169
 ret
L169:
f170:
 beqz a0, L170
 ret
L170:
f171:
 beqz a0, L171
 ret
L171:
f172:
 beqz a0, L172
 ret
L172:
f173:
 beqz a0, L173
 ret
L173:
f174:
 beqz a0, L174
 ret
L174:
f175:
 beqz a0, L175
 ret
L175:
f176:
 beqz a0, L176
 ret
L176:
f177:
 beqz a0, L177
 ret
L177:
f178:
 beqz a0, L178
 ret
L178:
f179:
 beqz a0, L179
 ret
L179:
f180:
 beqz a0, L180
 ret
L180:
f181:
 beqz a0, L181
 ret
L181:
f182:
 beqz a0, L182
 ret
L182:
f183:
 beqz a0, L183
 ret
L183:
f184:
 beqz a0, L184
 ret
L184:
f185:
 beqz a0, L185
 ret
L185:
f186:
 beqz a0, L186
 ret
L186:
f187:
 beqz a0, L187
 ret
L187:
f188:
 beqz a0, L188
 ret
L188:
f189:
 beqz a0, L189
 ret
L189:
f190:
 beqz a0, L190
 ret
L190:
f191:
 beqz a0, L191
 ret
L191:
f192:
 beqz a0, L192
 ret
L192:
f193:
 beqz a0, L193
 ret
L193:
f194:
 beqz a0, L194
 ret
L194:
f195:
 beqz a0, L195
 ret
L195:
f196:
 beqz a0, L196
 ret
L196:
f197:
 beqz a0, L197
 ret
L197:
f198:
 beqz a0, L198
 ret
L198:
f199:
 beqz a0, L199
 ret
L199:
ret
