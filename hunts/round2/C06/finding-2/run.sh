#!/bin/bash
# Finding 2: FunctionMarkupPass is quartic in the number of overlapping functions.
cd "$(dirname "$0")"
RVA=${RVA:-/tmp/wt4-C06/target/debug/rva}
[ -x "$RVA" ] || { echo "no binary $RVA"; exit 2; }
t() { local s e rc; s=$(date +%s.%N); timeout "$2" "$RVA" lint "$1" --compact >/dev/null 2>&1; rc=$?; e=$(date +%s.%N)
      if [ $rc -eq 124 ]; then echo TIMEOUT; else echo "$e - $s" | bc; fi; }
t1=$(t ovl100.s 20); t2=$(t ovl200.s 20); t4=$(t ovl400.s 30)
echo "ovl100.s ( 503 lines, 100 functions): $t1 s"
echo "ovl200.s (1003 lines, 200 functions): $t2 s"
echo "ovl400.s (2003 lines, 400 functions): $t4 s (limit 30 s)"
bad=0
if [ "$t4" = TIMEOUT ] || [ "$t2" = TIMEOUT ]; then bad=1; else
  awk -v a="$t2" -v b="$t4" 'BEGIN{ if (b > 10 && b/a > 6) exit 1 }' || bad=1
fi
if [ $bad -eq 1 ]; then echo "VIOLATION: time grows ~16x per doubling (n^4) - not a small polynomial"; exit 1; fi
echo ok; exit 0
