.data
msg:    .asciz "trap\n"
.text
main:
    la    t0, handler
    csrrs zero, utvec, t0      # utvec is 0 after reset: setting the bits installs the handler
    csrrsi zero, ustatus, 1    # enable user-level traps
    lw    t1, 1(zero)          # misaligned load: traps into the handler
    li    a7, 10
    ecall
handler:
    la    a0, msg
    li    a7, 4
    ecall
    li    a7, 10
    ecall
