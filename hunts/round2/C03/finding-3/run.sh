#!/bin/bash
# Finding 3: a trap handler that is installed in any other way than
# "la rX, h ; csrrw/csrw ..., utvec, rX" in one straight piece of code is not found.
# Its code gets no entry node: it is reported as unreachable and (when it stands
# behind a ret / an unconditional jump) the dead-code pass deletes the fall-through
# edges between its instructions.
RVA=${RVA:-/tmp/wt4-C03/target/debug/rva}
cd "$(dirname "$0")"
bad=0
check() {
    f=$1; line=$2
    out=$("$RVA" lint "$f" --no-color --compact 2>&1)
    echo "== $f"
    echo "$out" | grep "Unreachable line of code" | sed 's/^/   /'
    if echo "$out" | grep -q "Unreachable line of code in .* at $line "; then
        echo "   VIOLATION: first instruction of the handler (line $line) reported unreachable"
        bad=1
    fi
}
check handler_install_fn.s 15
check handler_csrrs.s 12
check handler_mv.s 13
# control: the recognised form gives no such warning
out=$("$RVA" lint handler_detected.s --no-color --compact 2>&1)
echo "== handler_detected.s (control)"; echo "$out" | grep -c "Unreachable" | sed 's/^/   unreachable warnings: /'
# edges inside the handler of handler_install_fn.s: `la a0, msg` -> `li a7, 4` -> `ecall`
nx=$("$RVA" lint handler_install_fn.s --debug --no-color 2>/dev/null | awk '/^la a0 <- \[msg\]/{inb=1} inb && /NEXT/{print $NF; inb=0}')
echo "== handler_install_fn.s: successors of 'la a0, msg' (first handler instruction): $nx"
if [ "$nx" = "0" ]; then echo "   VIOLATION: fall-through edge inside the handler deleted"; bad=1; fi
exit $bad
