.data
msg:    .asciz "trap\n"
.text
main:
    la    a0, handler
    jal   install
    lw    t1, 1(zero)          # misaligned load: traps into the handler
    li    a7, 10
    ecall
install:
    csrrw zero, utvec, a0      # the address arrives as an argument
    csrrsi zero, ustatus, 1
    ret
handler:
    la    a0, msg
    li    a7, 4
    ecall
    li    a7, 10
    ecall
