.data
msg:    .asciz "trap\n"
.text
main:
    la    t0, handler
    csrrw zero, utvec, t0      # the one form the analyzer recognises
    csrrsi zero, ustatus, 1
    lw    t1, 1(zero)
    li    a7, 10
    ecall
handler:
    la    a0, msg
    li    a7, 4
    ecall
    uret
