.data
msg:    .asciz "trap\n"
.text
main:
    la    t0, handler
    mv    t1, t0
    csrrw zero, utvec, t1
    csrrsi zero, ustatus, 1
    lw    t1, 1(zero)
    li    a7, 10
    ecall
handler:
    la    a0, msg
    li    a7, 4
    ecall
    li    a7, 10
    ecall
