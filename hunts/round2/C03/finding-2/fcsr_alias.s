main:
    li    t0, 10
    csrw  t0, fcsr
    csrwi fflags, 1
    csrr  a7, fcsr
    li    a0, 42
    ecall
    li    a0, 7
    li    a7, 1
    ecall
    li    a7, 10
    ecall
