main:
    li   t0, 93
    csrw t0, ustatus
    csrr a7, ustatus
    la   a0, buf
    li   a1, 64
    ecall
    li   a0, 7
    li   a7, 1
    ecall
    li   a7, 10
    ecall
.data
buf: .space 64
