#!/bin/bash
# Finding 2: a CSR is modelled as a plain memory cell: a read is assumed to return
# the last value written to the same CSR number.  fflags/frm are fields of fcsr
# (RISC-V F extension) and ustatus has only the UIE/UPIE bits (N extension, RARS
# mask 0x11), so the assumption is wrong; an ecall is taken for an exit ecall,
# its fall-through edge is cut and executed code is reported unreachable.
RVA=${RVA:-/tmp/wt4-C03/target/debug/rva}
cd "$(dirname "$0")"
bad=0
check() {
    f=$1; line=$2; real=$3
    out=$("$RVA" lint "$f" --no-color --compact 2>&1)
    next=$("$RVA" lint "$f" --debug --no-color 2>/dev/null | awk '/^ecall/{e++; inb=1} inb && /NEXT/{ if (e==1) print $NF; inb=0}')
    echo "== $f : successors of the first ecall (a7 is $real at run time): $next"
    echo "$out" | grep "Unreachable line of code" | sed 's/^/   /'
    if [ "$next" = "0" ] && echo "$out" | grep -q "Unreachable line of code in .* at $line "; then
        echo "   VIOLATION: edge ecall -> line $line missing, line $line reported unreachable"
        bad=1
    fi
}
check fcsr_alias.s 8 "1 (fcsr[4:0] was rewritten through fflags)"
check ustatus_mask.s 8 "17 (93 & 0x11: only UIE/UPIE exist in ustatus)"
exit $bad
