#!/bin/bash
# Finding 1: facts that a callee can invalidate (CSR contents, gp/tp, s-registers,
# the caller's stack slots) survive a call; an ecall after the call is then taken
# for an exit ecall, its fall-through edge is cut and the code behind it is
# reported as unreachable although every execution reaches it.
RVA=${RVA:-/tmp/wt4-C03/target/debug/rva}
cd "$(dirname "$0")"
bad=0
check() {  # file, line of the first instruction behind the (non-exit) ecall
    f=$1; line=$2
    out=$("$RVA" lint "$f" --no-color --compact 2>&1)
    next=$("$RVA" lint "$f" --debug --no-color 2>/dev/null | awk '/^ecall/{e++; inb=1} inb && /NEXT/{ if (e==1) print $NF; inb=0}')
    echo "== $f : successors of the first ecall (a7 is 1 at run time, not 10): $next"
    echo "$out" | grep "Unreachable line of code" | sed 's/^/   /'
    if [ "$next" = "0" ] && echo "$out" | grep -q "Unreachable line of code in .* at $line "; then
        echo "   VIOLATION: edge ecall -> line $line missing, line $line reported unreachable"
        bad=1
    fi
}
check csr_across_call.s 8
check gp_across_call.s 7
check sreg_across_call.s 7
check stackarg_across_call.s 9
exit $bad
