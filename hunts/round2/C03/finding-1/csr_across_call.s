main:
    li   t0, 10
    csrw t0, uscratch
    li   a0, 5
    jal  f
    csrr a7, uscratch
    ecall
    li   a0, 7
    li   a7, 1
    ecall
    li   a7, 10
    ecall
f:
    li   t1, 1
    csrw t1, uscratch
    addi a0, a0, 1
    ret
