main:
    li   gp, 10
    li   a0, 5
    jal  f
    mv   a7, gp
    ecall
    li   a0, 7
    li   a7, 1
    ecall
    li   a7, 10
    ecall
f:
    li   gp, 1
    addi a0, a0, 1
    ret
