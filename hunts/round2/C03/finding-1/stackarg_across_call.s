main:
    addi sp, sp, -16
    li   t0, 10
    sw   t0, 0(sp)
    li   a0, 5
    jal  f
    lw   a7, 0(sp)
    ecall
    li   a0, 7
    li   a7, 1
    ecall
    li   a7, 10
    ecall
f:
    li   t1, 1
    sw   t1, 0(sp)
    addi a0, a0, 1
    ret
