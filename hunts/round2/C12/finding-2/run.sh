#!/bin/sh
# Finding 2 (C12): after the standard pipeline, one more run of the value
# analysis changes facts (and the diagnostics). Exits non-zero when the violation is present.
here=$(cd "$(dirname "$0")" && pwd)
rva=/tmp/wt4-C12/target/debug/rva
status=0

# Part 1: visible with the unmodified binary alone. `lw a2, 12(t0)` is the only
# predecessor of `addi a7, a2, 1`; the dump shows a2 = 0 behind the load but not
# behind the addi (which therefore does not know a7 = 1), and the ecall that
# follows is reported as unknown.
if [ -x "$rva" ]; then
    echo "== rva lint input.s --compact"
    "$rva" lint "$here/input.s" --compact --no-color
    dump=$("$rva" lint "$here/input.s" --debug --no-color 2>&1)
    after_load=$(printf '%s\n' "$dump" | sed -n '/^lw a2 <- 12(t0)/,/^$/p' | grep VALO)
    after_addi=$(printf '%s\n' "$dump" | sed -n '/^addi a7 <- a2, 1/,/^$/p' | grep VALO)
    echo "== values behind 'lw a2, 12(t0)'  : $after_load"
    echo "== values behind 'addi a7, a2, 1' : $after_addi"
    case "$after_load" in *"a2: 0"*)
        case "$after_addi" in *"a7: 1"*) ;; *)
            echo "the value a2 = 0 is lost between a node and its only successor"; status=1;;
        esac;;
    esac
else
    echo "(binary $rva not built; skipping part 1)"
fi

# Part 2: run the passes again through the library API.
export CARGO_TARGET_DIR="${CARGO_TARGET_DIR:-/tmp/hunt2-C12/.cargo-target}"
cd "$here/checker" || exit 2
cargo build --offline --quiet 2>/dev/null || cargo build --offline || { echo "build failed"; exit 2; }
echo "== re-running the passes on the finished graph"
timeout 60 "$CARGO_TARGET_DIR/debug/c12_rerun" "$here/input.s" || status=1
exit $status
