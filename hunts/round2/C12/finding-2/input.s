main:
    csrrs t0, 0x40, zero
    sw zero, 8(t0)
    sw zero, 12(t0)
    lw a1, 8(t0)
    bne a0, zero, skip
    sw a5, 12(t0)
    addi a7, a1, 10
    ecall
skip:
    lw a2, 12(t0)
    addi a7, a2, 1
    ecall
    li a7, 10
    ecall
