#!/bin/sh
# Finding 1 (C12): the value analysis needs a number of sweeps that grows
# quadratically with the program size. Exits non-zero when the violation is present.
here=$(cd "$(dirname "$0")" && pwd)
export CARGO_TARGET_DIR="${CARGO_TARGET_DIR:-/tmp/hunt2-C12/.cargo-target}"
cd "$here/checker" || exit 2
cargo build --offline --quiet 2>/dev/null || cargo build --offline || { echo "build failed"; exit 2; }
exec timeout 120 "$CARGO_TARGET_DIR/debug/c12_sweeps" \
    "$here/stack_chain_8.s" "$here/stack_chain_16.s" "$here/stack_chain_32.s" "$here/reg_chain_30x24.s"
