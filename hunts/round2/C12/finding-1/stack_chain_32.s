main:
    addi sp, sp, -64
    li t0, 0
    sw t0, 0(sp)
    sw t0, 4(sp)
    sw t0, 8(sp)
    sw t0, 12(sp)
    sw t0, 16(sp)
    sw t0, 20(sp)
    sw t0, 24(sp)
    sw t0, 28(sp)
    sw t0, 32(sp)
    sw t0, 36(sp)
    sw t0, 40(sp)
    sw t0, 44(sp)
    sw t0, 48(sp)
    sw t0, 52(sp)
    sw t0, 56(sp)
    sw t0, 60(sp)
    j B32
B1:
    lw t1, 56(sp)
    sw t1, 60(sp)
    lw t1, 52(sp)
    sw t1, 56(sp)
    lw t1, 48(sp)
    sw t1, 52(sp)
    lw t1, 44(sp)
    sw t1, 48(sp)
    lw t1, 40(sp)
    sw t1, 44(sp)
    lw t1, 36(sp)
    sw t1, 40(sp)
    lw t1, 32(sp)
    sw t1, 36(sp)
    lw t1, 28(sp)
    sw t1, 32(sp)
    lw t1, 24(sp)
    sw t1, 28(sp)
    lw t1, 20(sp)
    sw t1, 24(sp)
    lw t1, 16(sp)
    sw t1, 20(sp)
    lw t1, 12(sp)
    sw t1, 16(sp)
    lw t1, 8(sp)
    sw t1, 12(sp)
    lw t1, 4(sp)
    sw t1, 8(sp)
    lw t1, 0(sp)
    sw t1, 4(sp)
    lw t1, 0(sp)
    addi t1, t1, 1
    sw t1, 0(sp)
    bge t1, t2, done
    j B32
B2:
    j B1
B3:
    j B2
B4:
    j B3
B5:
    j B4
B6:
    j B5
B7:
    j B6
B8:
    j B7
B9:
    j B8
B10:
    j B9
B11:
    j B10
B12:
    j B11
B13:
    j B12
B14:
    j B13
B15:
    j B14
B16:
    j B15
B17:
    j B16
B18:
    j B17
B19:
    j B18
B20:
    j B19
B21:
    j B20
B22:
    j B21
B23:
    j B22
B24:
    j B23
B25:
    j B24
B26:
    j B25
B27:
    j B26
B28:
    j B27
B29:
    j B28
B30:
    j B29
B31:
    j B30
B32:
    j B31
done:
    addi sp, sp, 64
    li a7, 10
    ecall
