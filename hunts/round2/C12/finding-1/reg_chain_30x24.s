main:
    li t0, 0
    li t1, 0
    li t2, 0
    li t3, 0
    li t4, 0
    li t5, 0
    li t6, 0
    li a0, 0
    li a1, 0
    li a2, 0
    li a3, 0
    li a4, 0
    li a5, 0
    li a6, 0
    li s0, 0
    li s1, 0
    li s2, 0
    li s3, 0
    li s4, 0
    li s5, 0
    li s6, 0
    li s7, 0
    li s8, 0
    li s9, 0
    j B30
B1:
    addi s9, s8, 0
    addi s8, s7, 0
    addi s7, s6, 0
    addi s6, s5, 0
    addi s5, s4, 0
    addi s4, s3, 0
    addi s3, s2, 0
    addi s2, s1, 0
    addi s1, s0, 0
    addi s0, a6, 0
    addi a6, a5, 0
    addi a5, a4, 0
    addi a4, a3, 0
    addi a3, a2, 0
    addi a2, a1, 0
    addi a1, a0, 0
    addi a0, t6, 0
    addi t6, t5, 0
    addi t5, t4, 0
    addi t4, t3, 0
    addi t3, t2, 0
    addi t2, t1, 0
    addi t1, t0, 0
    addi t0, t0, 1
    bge t0, s9, done
    j B30
B2:
    j B1
B3:
    j B2
B4:
    j B3
B5:
    j B4
B6:
    j B5
B7:
    j B6
B8:
    j B7
B9:
    j B8
B10:
    j B9
B11:
    j B10
B12:
    j B11
B13:
    j B12
B14:
    j B13
B15:
    j B14
B16:
    j B15
B17:
    j B16
B18:
    j B17
B19:
    j B18
B20:
    j B19
B21:
    j B20
B22:
    j B21
B23:
    j B22
B24:
    j B23
B25:
    j B24
B26:
    j B25
B27:
    j B26
B28:
    j B27
B29:
    j B28
B30:
    j B29
done:
    li a7, 10
    ecall
