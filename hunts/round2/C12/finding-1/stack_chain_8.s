main:
    addi sp, sp, -16
    li t0, 0
    sw t0, 0(sp)
    sw t0, 4(sp)
    sw t0, 8(sp)
    sw t0, 12(sp)
    j B8
B1:
    lw t1, 8(sp)
    sw t1, 12(sp)
    lw t1, 4(sp)
    sw t1, 8(sp)
    lw t1, 0(sp)
    sw t1, 4(sp)
    lw t1, 0(sp)
    addi t1, t1, 1
    sw t1, 0(sp)
    bge t1, t2, done
    j B8
B2:
    j B1
B3:
    j B2
B4:
    j B3
B5:
    j B4
B6:
    j B5
B7:
    j B6
B8:
    j B7
done:
    addi sp, sp, 16
    li a7, 10
    ecall
