main:
    addi sp, sp, -32
    li t0, 0
    sw t0, 0(sp)
    sw t0, 4(sp)
    sw t0, 8(sp)
    sw t0, 12(sp)
    sw t0, 16(sp)
    sw t0, 20(sp)
    sw t0, 24(sp)
    sw t0, 28(sp)
    j B16
B1:
    lw t1, 24(sp)
    sw t1, 28(sp)
    lw t1, 20(sp)
    sw t1, 24(sp)
    lw t1, 16(sp)
    sw t1, 20(sp)
    lw t1, 12(sp)
    sw t1, 16(sp)
    lw t1, 8(sp)
    sw t1, 12(sp)
    lw t1, 4(sp)
    sw t1, 8(sp)
    lw t1, 0(sp)
    sw t1, 4(sp)
    lw t1, 0(sp)
    addi t1, t1, 1
    sw t1, 0(sp)
    bge t1, t2, done
    j B16
B2:
    j B1
B3:
    j B2
B4:
    j B3
B5:
    j B4
B6:
    j B5
B7:
    j B6
B8:
    j B7
B9:
    j B8
B10:
    j B9
B11:
    j B10
B12:
    j B11
B13:
    j B12
B14:
    j B13
B15:
    j B14
B16:
    j B15
done:
    addi sp, sp, 32
    li a7, 10
    ecall
