.text
main:
    li t0, 7
    sw t0, -4(sp)
    lw a0, -4(sp)
    li a7, 1
    ecall
    li a7, 10
    ecall
