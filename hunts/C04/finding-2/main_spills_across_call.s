# main keeps a value across a call by spilling it to its own stack frame
# (exactly what the convention asks for: no temporary is alive across the call)
.text
main:
    addi sp, sp, -16
    li t0, 7
    sw t0, 0(sp)
    li a0, 1
    jal f
    lw t0, 0(sp)
    add a0, a0, t0
    li a7, 1
    ecall
    li a7, 10
    ecall
f:
    addi a0, a0, 1
    ret
