.text
main:
    li a0, 1
    nop
    li a7, 1
    ecall
    li a7, 10
    ecall
