# RARS service 51 (InputDialogInt): a0 = address of the prompt; returns a0 = value, a1 = status
.data
msg: .asciz "n?"
.text
main:
    la a0, msg
    li a7, 51
    ecall
    li a7, 1
    ecall
    li a7, 10
    ecall
