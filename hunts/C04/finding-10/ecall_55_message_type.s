# RARS service 55 (MessageDialog): a0 = address of the message, a1 = message type
.data
msg: .asciz "done"
.text
main:
    la a0, msg
    li a1, 1
    li a7, 55
    ecall
    li a7, 10
    ecall
