# print a0 as a character or as an integer: a7 is 11 or 1, both known services
.text
main:
    li a0, 65
    li t0, 100
    blt a0, t0, as_char
    li a7, 1
    j print
as_char:
    li a7, 11
print:
    ecall
    li a7, 10
    ecall
