# generic service wrapper: the service number is the 8th argument register (a7)
.text
main:
    li a0, 65
    li a7, 11
    jal service
    li a0, 66
    li a7, 1
    jal service
    li a7, 10
    ecall
service:
    ecall
    ret
