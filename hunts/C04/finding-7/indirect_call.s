# call through a function pointer: la + jalr ra
.text
main:
    li a0, 1
    la t0, f
    jalr ra, t0, 0
    li a7, 1
    ecall
    li a7, 10
    ecall
f:
    addi a0, a0, 1
    ret
