# No bottom-entered loop here: an if/else whose two arms are placed before the test
# (acyclic, reached by a forward `j`), followed by an ordinary top-tested while loop.
# The arms are swept before their predecessor, the join `after` gets the empty map in the
# first sweep, the loop behind it is computed from that, and never recovers.
.text
main:
    li s0, 5
    j test
neg:
    neg s0, s0
    j after
pos:
    addi s0, s0, 1
    j after
test:
    bltz s0, neg
    j pos
after:
    li s1, 3
loop:
    blez s1, done
    add s0, s0, s1
    addi s1, s1, -1
    j loop
done:
    mv a0, s0
    li a7, 1
    ecall
    li a7, 10
    ecall
