# sum(n) = n + (n-1) + ... + 1, loop with the test at the bottom ("rotated" loop,
# the layout every compiler emits for while/for loops)
.text
main:
    li a0, 5
    jal sum
    li a7, 1
    ecall
    li a7, 10
    ecall
sum:
    li t0, 0
    j cond
body:
    add t0, t0, a0
    addi a0, a0, -1
cond:
    bnez a0, body
    mv a0, t0
    ret
