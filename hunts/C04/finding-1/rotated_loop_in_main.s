.text
main:
    li a0, 5
    li t0, 0
    j cond
body:
    add t0, t0, a0
    addi a0, a0, -1
cond:
    bnez a0, body
    mv a0, t0
    li a7, 1
    ecall
    li a7, 10
    ecall
