# f has a fatal-error path that ends in an exit ecall; which exit it is (10 or 93) is
# decided by a1. The `ecall` at `fin` is an exit on every path, but the analyzer only
# learns that after it has cut the edge behind the first exit ecall.
.text
main:
    li a0, 0
    li a1, 0
    jal f
    jal g
    li a7, 1
    ecall
    li a7, 10
    ecall
f:
    bnez a0, die
    addi a0, a0, 1
    ret
die:
    li a7, 10
    bnez a1, fin
    li a0, 1
    li a7, 93
    ecall
fin:
    ecall
g:
    addi a0, a0, 1
    ret
