# `die` is a function that never returns: it ends the program with exit(a0)
.text
main:
    li a0, 5
    bnez a0, good
    li a0, 1
    jal die
good:
    li a7, 1
    ecall
    li a7, 10
    ecall
die:
    li a7, 93
    ecall
