# f's body is a do-while loop that starts at its first instruction
.text
main:
    li a0, 5
    jal f
    li a7, 1
    ecall
    li a7, 10
    ecall
f:
    addi a0, a0, -1
    slti t0, a0, 1
    beqz t0, f
    add a0, a0, t0
    ret
