# the same with a separate loop label on the first instruction of the function
.text
main:
    li a0, 5
    jal f
    li a7, 1
    ecall
    li a7, 10
    ecall
f:
loop:
    addi a0, a0, -1
    slti t0, a0, 1
    beqz t0, loop
    add a0, a0, t0
    ret
