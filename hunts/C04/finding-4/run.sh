#!/bin/sh
# Exits non-zero when the violation is present (a conforming program gets diagnostics).
cd "$(dirname "$0")" || exit 2
RVA="${RVA:-/tmp/wt3-C04/target/debug/rva}"
if [ ! -x "$RVA" ]; then (cd /tmp/wt3-C04 && cargo build --workspace --offline >/dev/null 2>&1); fi
rc=0
for f in branch_to_function_head.s loop_label_on_function_head.s; do
    out="$("$RVA" lint --no-color --compact "$f" 2>&1)"
    if [ -n "$out" ]; then
        echo "VIOLATION: conforming program $f is not reported clean:"
        echo "$out" | sed 's/^/    /'
        rc=1
    else
        echo "clean: $f"
    fi
done
exit $rc
