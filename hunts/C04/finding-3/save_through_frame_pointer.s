# classic frame: ra and the old fp are saved sp-relative, then fp = entry sp and the
# remaining saved register is saved/restored fp-relative (slot entry_sp-12, inside the frame)
.text
main:
    li a0, 5
    jal ra, f
    li a7, 1
    ecall
    li a7, 10
    ecall
f:
    addi sp, sp, -16
    sw ra, 12(sp)
    sw s0, 8(sp)
    addi s0, sp, 16
    sw s1, -12(s0)
    mv s1, a0
    addi a0, s1, 1
    lw s1, -12(s0)
    lw ra, 12(sp)
    lw s0, 8(sp)
    addi sp, sp, 16
    ret
