# same slot, addressed through a temporary that holds sp+4
.text
main:
    li a0, 5
    jal ra, f
    li a7, 1
    ecall
    li a7, 10
    ecall
f:
    addi sp, sp, -16
    addi t0, sp, 4
    sw s1, 0(t0)
    mv s1, a0
    addi a0, s1, 1
    lw s1, 4(sp)
    addi sp, sp, 16
    ret
