#!/bin/sh
# Exits non-zero when the violation is present.
# The text of a comment token is copied unescaped into the title "Expected ..., found COMMENT<text>".
# A comment may contain a lone carriage return (a line break that is not followed by LF), ESC and TAB,
# so the one-line title is broken into two lines / carries terminal escapes even with --no-color.
cd "$(dirname "$0")" || exit 2
RVA=/tmp/wt5-C18/target/debug/rva
[ -x "$RVA" ] || (cd /tmp/wt5-C18 && cargo build --workspace --offline >/dev/null 2>&1)
F=comment_in_title.s
"$RVA" lint "$F" --compact --no-color > compact.out
"$RVA" lint "$F" --no-color > pretty.out
"$RVA" lint "$F" --json > json.out
python3 - <<'PY'
import json, sys
bad = []
js = json.load(open("json.out"))["diagnostics"]
titles = [d["title"] for d in js]
print("JSON titles:", titles)
comp = open("compact.out", "rb").read()
pretty = open("pretty.out", "rb").read()
print("compact bytes:", comp)
for t in titles:
    ctl = sorted({ch for ch in t if ord(ch) < 32 or ord(ch) == 127})
    if ctl:
        bad.append(f"title contains control characters {ctl!r}: {t!r}")
    if "\r" in t or "\n" in t:
        bad.append("title contains a line break (carriage return)")
# a reader that splits the compact output into lines (universal newlines) sees a forged second diagnostic
lines = comp.decode().splitlines()
if len(lines) != len(js):
    bad.append(f"compact output has {len(lines)} lines for {len(js)} diagnostics: {lines!r}")
if b"\x1b" in comp or b"\x1b" in pretty:
    bad.append("--no-color output contains an ESC control sequence (taken from the comment into the title)")
for b in bad:
    print("VIOLATION:", b)
sys.exit(1 if bad else 0)
PY
