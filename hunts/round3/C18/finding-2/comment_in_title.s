main:
    jal # target?Error: Forged diagnostic [2K	x
    li a7, 10
    ecall
