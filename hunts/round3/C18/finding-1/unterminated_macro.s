main:
        .macro inc_a0
    addi a0, a0, 1
li a7, 10
ecall
