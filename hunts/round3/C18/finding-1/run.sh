#!/bin/sh
# Exits non-zero when the violation is present.
# An unterminated `.macro` yields an "Unexpected end of file" diagnostic whose range runs
# from the `.macro` directive to the last token of the file (several lines). The compact
# and pretty channels print only the start line together with the end column of ANOTHER
# line: reversed columns ("at 2 9:5") and an excerpt with no marker at all, while JSON
# (and RVParser::run) report lines 2..5.
cd "$(dirname "$0")" || exit 2
RVA=/tmp/wt5-C18/target/debug/rva
[ -x "$RVA" ] || (cd /tmp/wt5-C18 && cargo build --workspace --offline >/dev/null 2>&1)
F=unterminated_macro.s
"$RVA" lint "$F" --compact --no-color > compact.out
"$RVA" lint "$F" --no-color > pretty.out
"$RVA" lint "$F" --json > json.out
python3 - <<'PY'
import json, re, sys
bad = []
comp = [l for l in open("compact.out").read().split("\n") if "Unexpected end of file" in l]
js = [d for d in json.load(open("json.out"))["diagnostics"] if d["title"] == "Unexpected end of file"]
pretty = open("pretty.out").read().split("\n")
print("compact :", comp)
print("json    :", [d["range"] for d in js])
i = pretty.index("Error: Unexpected end of file")
print("pretty  :"); print("\n".join(pretty[i:i + 5]))
m = re.search(r" at (\d+) (\d+):(\d+)$", comp[0])
line, sc, ec = map(int, m.groups())
r = js[0]["range"]
if r["start"]["line"] != r["end"]["line"]:
    bad.append(f"JSON range spans lines {r['start']['line']+1}..{r['end']['line']+1}; compact/pretty report only line {line} -> channels disagree about line/columns")
if sc > ec:
    bad.append(f"compact reports reversed columns {sc}:{ec}")
marker = pretty[i + 4]
if "^" not in marker:
    bad.append("pretty excerpt has no marker under the reported columns")
for b in bad:
    print("VIOLATION:", b)
sys.exit(1 if bad else 0)
PY
